"""child process of the `user_code` suites: an application that extends the library with classes of its own - service subclasses, exception subclasses, a
MemoryLocation subclass, a Client subclass.  They would stay in the class registries of the check process, so every scenario runs in a process of its own.
argv[1] selects the scenario; prints a JSON list of problems (last line of stdout)."""
import json
import os
import sys

ROOT = os.path.dirname(os.path.dirname(os.path.abspath(__file__)))
sys.path.insert(0, ROOT)
import logging                               # noqa: E402
logging.getLogger().addHandler(logging.NullHandler())
from harness import clientlib as cl          # noqa: E402   (real client + stub connection + virtual clock)
from udsoncan import Request, services, MemoryLocation   # noqa: E402
from udsoncan.client import Client           # noqa: E402
from udsoncan.exceptions import NegativeResponseException, InvalidResponseException, UnexpectedResponseException   # noqa: E402

what = sys.argv[1]
problems = []


def bad(inp, observed, required):
    problems.append({'input': inp, 'observed': str(observed)[:240], 'required': str(required)[:240]})


def outcome(conn, fn):
    how, verdict, flags, payload, exc, r = cl.observe_outer(conn, fn)
    return how, verdict, [o for o in conn.log]


if what == 'vendor_service':
    # a supplier specialises library services: one keeps the service id (same service, own class), one is a new service with an id of its own
    class VendorRoutineControl(services.RoutineControl):
        pass

    class SupplierRoutineControl(services.RoutineControl):
        _sid = 0xB1

    for sw in ((True, True, True), (False, False, False)):
        for cls, sid in ((VendorRoutineControl, 0x31), (services.RoutineControl, 0x31), (SupplierRoutineControl, 0xB1)):
            name = cls.__name__
            # C06: every negative code ends the request; 0x78 keeps it pending (one callback each) - whatever class of that service the request was built on
            for code in (0x10, 0x22, 0x31, 0x7F, 0x00, 0xFF):
                client, conn = cl.make_client(cl.Cfg(rt=2000, p2=100, p2s=300, cb=True, exc=sw))
                conn.script = [(1, bytes([0x7F, sid, 0x78])), (50, bytes([0x7F, sid, 0x78])), (90, bytes([0x7F, sid, code]))]
                how, verdict, log = outcome(conn, lambda: client.send_request(Request(cls, subfunction=1, data=b'\x12\x34')))
                cbs = sum(1 for o in log if o[0] == 'callback')
                if verdict != 'negative:%d' % code or cbs != 2:
                    bad('send_request(Request(%s, 1, 1234)) <- 7F %02X 78, 7F %02X 78, 7F %02X %02X; switches %s' % (name, sid, sid, sid, code, sw),
                        '%s %s, %d callbacks' % (how, verdict, cbs), 'negative:%d after 2 callbacks' % code)
            # C03: only a response of the service of the request is accepted
            for rsid, label in ((0x31 + 0x40, 'RoutineControl'), (0xB1 + 0x40, 'SupplierRoutineControl')):
                client, conn = cl.make_client(cl.Cfg(rt=2000, p2=100, p2s=300, exc=sw))
                conn.script = [(1, bytes([rsid, 0x01, 0x12, 0x34]))]
                how, verdict, log = outcome(conn, lambda: client.send_request(Request(cls, subfunction=1, data=b'\x12\x34')))
                want = 'ok' if rsid == sid + 0x40 else 'unexpected'
                if verdict != want:
                    bad('send_request(Request(%s, 1, 1234)) <- %02X 01 12 34 (a response of %s); switches %s' % (name, rsid, label, sw), '%s %s' % (how, verdict), want)
        # the client methods themselves, with the vendor classes defined in the process
        client, conn = cl.make_client(cl.Cfg(rt=2000, p2=100, p2s=300, exc=sw))
        conn.script = [(1, bytes([0xF1, 0x01, 0x12, 0x34]))]
        how, verdict, log = outcome(conn, lambda: client.start_routine(0x1234))
        if verdict != 'unexpected':
            bad('start_routine(0x1234) <- F1 01 12 34 (the response id of another service); switches %s' % (sw,), '%s %s' % (how, verdict), 'unexpected')
        client, conn = cl.make_client(cl.Cfg(rt=2000, p2=100, p2s=300, exc=sw))
        conn.script = [(1, bytes([0x7F, 0x31, 0x22]))]
        how, verdict, log = outcome(conn, lambda: client.start_routine(0x1234))
        if verdict != 'negative:34':
            bad('start_routine(0x1234) <- 7F 31 22; switches %s' % (sw,), '%s %s' % (how, verdict), 'negative:34')

elif what == 'subclass_exceptions':
    # an application that raises exceptions of its own, derived from the library's, from inside a client method it extended
    class AppNegative(NegativeResponseException):
        pass

    class AppInvalid(InvalidResponseException):
        pass

    class AppUnexpected(UnexpectedResponseException):
        pass

    class AppClient(Client):
        def send_request(self, request, timeout=-1):
            try:
                return Client.send_request(self, request, timeout)
            except NegativeResponseException as e:
                raise AppNegative(e.response) from e
            except InvalidResponseException as e:
                raise AppInvalid(e.response, 'app') from e
            except UnexpectedResponseException as e:
                raise AppUnexpected(e.response, 'app') from e

    replies = {'negative': b'\x7f\x11\x33', 'invalid': b'\x7f\x11', 'unexpected': b'\x50\x01'}
    import itertools
    for kind, reply in replies.items():
        for sw in itertools.product((True, False), repeat=3):
            res = {}
            for label, klass in (('library client', Client), ('application client raising subclasses', AppClient)):
                client, conn = cl.make_client(cl.Cfg(rt=2000, p2=100, p2s=300, exc=sw))
                client.__class__ = klass
                conn.script = [(1, reply)]
                how, verdict, flags, payload, exc, r = cl.observe_outer(conn, lambda: client.ecu_reset(1))
                res[label] = (how, verdict.split(':')[0], flags)
            on = sw[('negative', 'invalid', 'unexpected').index(kind)]
            for label, (how, v, flags) in res.items():
                if v != kind or how != ('exc' if on else 'ret'):
                    bad('ecu_reset(1) <- %s on the %s; switches %s' % (reply.hex(), label, sw), '%s %s %s' % (how, v, flags), '%s, %s' % (kind, 'raised' if on else 'returned with the flag set'))
            if res['library client'][2] != res['application client raising subclasses'][2]:
                bad('ecu_reset(1) <- %s; switches %s' % (reply.hex(), sw), 'flags %s' % res['application client raising subclasses'][2], 'flags %s as on the library client' % res['library client'][2])

elif what == 'memloc_subclass':
    # an application's MemoryLocation that maps logical to physical addresses: every memory-addressed service transmits what the object says
    class Mapped(MemoryLocation):
        def get_address_bytes(self):
            n = len(MemoryLocation.get_address_bytes(self))
            return (self.address | 0x08000000).to_bytes(n, 'big')

    calls = [('read_memory_by_address', lambda c, m: c.read_memory_by_address(m)), ('write_memory_by_address', lambda c, m: c.write_memory_by_address(m, b'\xAA\xBB')),
             ('request_download', lambda c, m: c.request_download(m)), ('request_upload', lambda c, m: c.request_upload(m))]
    for caf, cmf in ((None, None), (32, 16), (32, None)):
        for name, fn in calls:
            client, conn = cl.make_client(cl.Cfg(rt=64, p2=32, p2s=32), extra={'server_address_format': caf, 'server_memorysize_format': cmf})
            m = Mapped(0x1000, 2, address_format=32 if caf is None else None, memorysize_format=16 if cmf is None else None)
            cl.observe_outer(conn, lambda: fn(client, m))
            sends = [o[1] for o in conn.log if o[0] == 'send']
            s_ = sends[0].hex() if sends else None
            if not sends or bytes.fromhex('08001000') not in sends[0]:
                bad('%s(Mapped(0x1000, 2)) with server formats (%s, %s): a MemoryLocation subclass whose get_address_bytes() maps the address to 0x08001000' % (name, caf, cmf),
                    s_, 'a frame carrying the address bytes 08 00 10 00 the object gives')
            if type(m) is not Mapped or m.address != 0x1000:
                bad('%s: the argument object afterwards' % name, '%s address=%x' % (type(m).__name__, m.address), 'unchanged')
else:
    bad(what, 'unknown scenario', 'a scenario')
print(json.dumps(problems))
