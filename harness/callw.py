"""Whole client calls of every service family against the model's `callWith` (udsdrv `callw`): the request as transmitted, `send_request` over an arrival
schedule (response-pending replies, then a final reply of some kind, then junk), the method's interpretation and echo checks - inside and outside
suppress-positive-response blocks.  This is the correspondence the call-level theorems (Props/C02Call, C03Call, C06Call, C09Call, C11Call) rest on."""
import random

from . import core
from .core import Suite, b01, onat, ohx

P2, P2S, RT = 100, 300, 2000
FINALS = {
    'C02': ['good', 'good', 'good', 'good_junk_after', 'padded', 'negative', 'silence'],
    'C03': ['good', 'mutated', 'mutated', 'mutated', 'foreign', 'negative'],
    'C06': ['negative', 'negative', 'negative', 'negative_tail', 'good', 'pending_only'],
    'C09': ['good', 'negative', 'silence', 'pending_only', 'good_junk_after'],
    'C11': ['padded', 'padded', 'padded', 'good', 'negative'],
    'C08': ['negative', 'negative', 'mutated', 'mutated', 'foreign', 'good', 'padded', 'silence', 'negative_tail'],
}


def make_responder(rng, state, k, kind, c):
    """the scripted ECU of one case: answers the first frame with k response-pending replies at the window edges and a final reply of the given kind"""
    def responder(p):
        if 'frame' in state:
            return []
        state['frame'] = bytes(p)
        sid = p[0]
        t = rng.choice([0, 1, P2 - 1, P2])
        arr = []
        for _ in range(k):
            arr.append((t, bytes([0x7F, sid, 0x78]) + (b'' if rng.random() < 0.8 else b'\xAA')))
            t += rng.choice([0, 1, P2S // 2, P2S])
        good = bytes([c.rid]) + c.good
        if kind in ('good', 'good_junk_after'):
            arr.append((t, good))
        elif kind == 'padded':
            arr.append((t, good + bytes(rng.choice([1, 2, 3, 4, 5, 8, 9, 16]))))
        elif kind == 'mutated':
            b = bytearray(good)
            i = rng.randrange(1, len(b)) if len(b) > 1 else 0
            b[i] ^= rng.choice([1, 2, 0x10, 0x80, 0xFF])
            arr.append((t, bytes(b)))
        elif kind == 'foreign':
            arr.append((t, bytes([good[0] ^ 0x01]) + good[1:]))
        elif kind in ('negative', 'negative_tail'):
            code = rng.choice([0x00, 0x10, 0x11, 0x12, 0x21, 0x22, 0x31, 0x33, 0x7E, 0x7F, 0x77, 0x79, 0xFF, rng.randrange(256)])
            if code == 0x78:
                code = 0x79
            arr.append((t, bytes([0x7F, sid, code]) + (b'\x01\x02' if kind == 'negative_tail' else b'')))
        elif kind == 'silence':
            arr.append((t + P2S + P2 + 1, good))          # too late for whatever window is open
        # 'pending_only': nothing more
        if kind == 'good_junk_after':
            arr.append((t + 1, bytes(rng.randrange(256) for _ in range(3))))
            arr.append((t + 2, good))
        state['arr'] = arr
        return arr
    return responder


def suite_callw(ctx, focus):
    from . import declib, clientlib as cl
    s = Suite('callw')
    rng = ctx.rng
    svcs = cl.services_by_name()
    by_sid = {c._sid: c for c in svcs.values()}
    per = ctx.n(60, 1500)
    lines, impl = [], []
    for name, gen in declib.GENERATORS:
        for c in gen(rng, per if name != 'dtc' else per * 3):
            extra = dict(c.config)
            std = extra.pop('standard_version', 2020)
            in_block = focus == 'C09' or rng.random() < 0.15
            spr, wnrc = (True, rng.random() < 0.6) if in_block else (False, False)
            sw = None
            if focus == 'C08':
                sw = rng.choice([(False, False, False), (False, True, True), (True, False, True), (True, True, False), (False, False, True), (True, False, False), (False, True, False)])
            cb = rng.random() < 0.5
            k = rng.choice([0, 0, 1, 2, 3])
            kind = rng.choice(FINALS[focus])
            case_seed = rng.getrandbits(32)
            base = None
            if sw is not None:
                # the same call against the same replies with every switch on: the outcome that the switches may only deliver differently
                cfg0 = cl.Cfg(rt=RT, p2=P2, p2s=P2S, cb=cb, std=std, spr=spr, wnrc=wnrc)
                client0, conn0 = cl.make_client(cfg0, extra=dict(extra))
                conn0.responder = make_responder(random.Random(case_seed), {}, k, kind, c)
                with cl.Ctxs(client0, cfg0):
                    base = cl.observe_outer(conn0, lambda: c.invoke(client0))
            cfg = cl.Cfg(rt=RT, p2=P2, p2s=P2S, cb=cb, std=std, spr=spr, wnrc=wnrc, **({'exc': sw} if sw is not None else {}))
            client, conn = cl.make_client(cfg, extra=extra)
            state = {}
            conn.responder = make_responder(random.Random(case_seed), state, k, kind, c)
            with cl.Ctxs(client, cfg):
                how, verdict, flags, payload, exc, r = cl.observe_outer(conn, lambda: c.invoke(client))
            if 'frame' not in state:
                continue                    # refused before anything was sent (a generator's out-of-domain case)
            if how == 'ret' and verdict == 'ok':
                try:
                    got = 'ok ' + c.dump(r)
                except Exception as e:  # noqa
                    got = 'dump-failed:' + type(e).__name__
            elif verdict == 'none':
                got = 'none'
            else:
                got = verdict.replace('other:', '')
            frame = state['frame']
            svc_name, sf, data = cl.frame_to_req(frame, by_sid)
            params = c.dline[4:] if c.dline.startswith('dec ') else None
            if params is None:
                continue
            keys = {kv.split('=')[0] for kv in params.split(' ')}
            line = 'callw %s %s svc=%s%s data=%s arr=%s' % (params, cfg.line(), svc_name, '' if 'sf' in keys else ' sf=%s' % onat(sf), ohx(data), cl.arrivals_str(state['arr']))
            if sw is not None:
                from udsoncan import Response as _Resp
                if how == 'ret' and r is not None and not isinstance(r, _Resp):
                    continue                # a convenience wrapper that hands back a bare value: nothing of the decorator to compare
                line += ' sw=%s' % ''.join(b01(x) for x in sw)
                lines.append(line)
                impl.append('log=%s how=%s verdict=%s flags=%s' % (cl.fmt_log(conn.log), how, verdict, flags))
                # the property: the switches change how the outcome is delivered, never the outcome
                rec8 = {'site': c.site, 'input': line, 'generator': name, 'final': kind, 'switches': list(sw)}
                cls_ = verdict.split(':')[0]
                if verdict != base[1]:
                    s.fail(dict(rec8, observed='%s %s' % (how, verdict), required='verdict %s as with all switches on' % base[1]))
                elif cls_ in ('negative', 'invalid', 'unexpected'):
                    on = sw[('negative', 'invalid', 'unexpected').index(cls_)]
                    if how != ('exc' if on else 'ret'):
                        s.fail(dict(rec8, observed=how, required='raised iff the switch is on'))
                    elif payload != base[3] or flags != base[2]:
                        s.fail(dict(rec8, observed='%s payload %s' % (flags, payload.hex() if payload else payload), required='%s payload %s' % (base[2], base[3].hex() if base[3] else base[3])))
                elif how != base[0]:
                    s.fail(dict(rec8, observed=how, required=base[0]))
            else:
                lines.append(line)
                impl.append('log=%s out=%s' % (cl.fmt_log(conn.log), got))
            s.count('%s:%s:%s%s' % (name, kind, got.split(' ')[0].split(':')[0], ':in-block' if spr else ''))
            s.distinct.add(line)
            # the property, read off the implementation
            rec = {'site': c.site, 'input': line, 'generator': name, 'final': kind, 'pending_before': k, 'in_suppress_block': spr, 'wait_nrc': wnrc}
            has_sf = by_sid[frame[0]].use_subfunction()
            silent_block = spr and has_sf and not wnrc
            if silent_block:
                if got != 'none' or any(o[0] == 'wait' for o in conn.log):
                    s.fail(dict(rec, observed=got, required='None at once, nothing read (suppress block without wait_nrc)'))
                continue
            suppressed = spr and has_sf
            if kind in ('good', 'good_junk_after') and got != ('none' if suppressed else 'ok ' + c.expect):
                s.fail(dict(rec, observed=got, required='none' if suppressed else 'ok ' + c.expect))
            if kind in ('negative', 'negative_tail'):
                code = state['arr'][k][1][2]
                if got != 'negative:%d' % code:
                    s.fail(dict(rec, observed=got, required='negative:%d' % code))
            if kind in ('silence', 'pending_only') and got != ('none' if suppressed else 'timeout'):
                s.fail(dict(rec, observed=got, required='none' if suppressed else 'timeout'))
            if kind == 'foreign' and got.startswith('ok'):
                s.fail(dict(rec, observed=got, required='not accepted: the reply is not a response of the service of the request'))
    core.compare(s, lines, core.drv_batch(lines), impl)
    for i in (0, len(lines) // 2, len(lines) - 1):
        s.sample({'line': lines[i][:400], 'impl': impl[i][:300]})
    return s
