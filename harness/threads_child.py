"""child process of the C17 `threads` suite (a process of its own: it defines a BaseService subclass, which would stay in the class registry of the
check otherwise).  A user-defined service is slow to tell its identifier to ONE thread; while that thread is inside its lookup, this thread parses
ordinary frames of every service: identifiers must resolve to exactly one service whatever another thread is doing.  Prints a JSON list of problems."""
import json
import logging
import os
import sys
import threading

sys.path.insert(0, os.environ.get('UDS_REPO', '/repo'))
logging.disable(logging.CRITICAL)
from udsoncan import Request, Response  # noqa: E402
from udsoncan.BaseService import BaseService  # noqa: E402
import udsoncan.services as services  # noqa: E402


def sweep(tag, known):
    problems = []
    for svc in known:
        rid, rsp = svc.request_id(), svc.response_id()
        for payload, kind in ((bytes([rsp, 1, 2, 3]), 'positive'), (bytes([0x7F, rid, 0x22]), 'negative')):
            r = Response.from_payload(payload)
            if not r.valid or r.service is not svc or r.positive != (kind == 'positive'):
                problems.append({'when': tag, 'frame': payload.hex(), 'observed': 'valid=%s service=%s positive=%s' % (r.valid, getattr(r.service, '__name__', None), r.positive),
                                 'required': '%s response of %s' % (kind, svc.__name__)})
        q = Request.from_payload(bytes([rid, 5, 1, 2]))
        if q.service is not svc:
            problems.append({'when': tag, 'frame': bytes([rid, 5, 1, 2]).hex(), 'observed': 'request service=%s' % getattr(q.service, '__name__', None), 'required': svc.__name__})
    return problems


def main():
    known = [c for c in vars(services).values() if isinstance(c, type) and issubclass(c, BaseService) and c is not BaseService]
    problems = sweep('before', known)
    entered, release, ident = threading.Event(), threading.Event(), []

    class VendorService(BaseService):
        _sid = 0xBA
        slow = True

        @classmethod
        def request_id(cls):
            if cls.slow and ident and threading.get_ident() == ident[0]:
                cls.slow = False
                entered.set()
                release.wait(5)
            return cls._sid

    out = []

    def worker():
        ident.append(threading.get_ident())
        out.append(Request.from_payload(b'\xBA\x01\x02'))
        out.append(Response.from_payload(b'\xFA\x01\x02'))

    t = threading.Thread(target=worker, daemon=True)
    t.start()
    if not entered.wait(5):
        print(json.dumps([{'when': 'setup', 'frame': '-', 'observed': 'the worker thread never asked the user-defined service for its identifier', 'required': 'lookup over all services', 'setup': True}]))
        return
    problems += sweep('while another thread is inside its lookup', known)
    release.set()
    t.join(5)
    if len(out) != 2 or out[0].service is not VendorService or out[1].service is not VendorService or not out[1].valid:
        problems.append({'when': 'worker', 'frame': 'ba0102 / fa0102', 'observed': str([getattr(getattr(x, 'service', None), '__name__', None) for x in out]), 'required': 'the user-defined service'})
    problems += sweep('afterwards', known + [VendorService])
    print(json.dumps(problems[:20]))


main()
