"""writes statements.lock: a hash of the pretty-printed statement of every audited property theorem
(run: /venv/bin/python -m harness.lock, after a deliberate change of a statement; the checks compare against it)"""
import json
import os
import re

from . import core


def main():
    lock = {}
    for f in sorted(os.listdir(os.path.join(core.LEAN, 'Audit'))):
        m = re.match(r'(C\d\d)\.lean$', f)
        if not m:
            continue
        prop = m.group(1)
        rc, thms, out = core.audit(prop)
        if rc != 0 or not thms:
            raise SystemExit('audit of %s failed:\n%s' % (prop, out[-2000:]))
        lock[prop] = {n: info['hash'] for n, info in sorted(thms.items())}
        print(prop, len(thms), 'theorems')
    json.dump(lock, open(os.path.join(core.ROOT, 'statements.lock'), 'w'), indent=1, sort_keys=True)


if __name__ == '__main__':
    main()
