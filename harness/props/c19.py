"""C19 — fixed-width helper codecs are exact inverses over their whole finite domain."""
import sys
from .. import core, extract
from ..core import Suite

LEAN_TARGETS = ['Uds.Props.C19', 'Uds.Tie.Codecs']
ASSUMPTIONS = [
    'bit positions are those of ISO 14229-1 D.2 (status), D.3 (severity/class), B.1 (communication type), 10.x (dataFormatIdentifier), H (ALFID), B.3 (baud rates)',
    'the severity byte is the union of Dtc.Severity (bits 7-5) and Dtc.DtcClass (bits 4-0); the round trip is stated on the pair',
]
RULE = ('exhaustive: all 256 bytes and all flag combinations of each one-byte codec, 64 ALFID pairs (+ invalid widths), the baud table; '
        'the two 2^24 domains are streamed against udsdrv by rolling hash (thorough: every value; quick: stride 257 + boundaries + random), '
        'and checked directly against int.to_bytes. distinct = distinct (codec, value)')

STATUS_BITS = ['test_failed', 'test_failed_this_operation_cycle', 'pending', 'confirmed', 'test_not_completed_since_last_clear',
               'test_failed_since_last_clear', 'test_not_completed_this_operation_cycle', 'warning_indicator_requested']
SEV_BITS = {5: 'maintenance_only', 6: 'check_at_next_exit', 7: 'check_immediately'}
CLS_BITS = {0: 'class0', 1: 'class1', 2: 'class2', 3: 'class3', 4: 'class4'}
ISO_BAUD = {9600: 1, 19200: 2, 38400: 3, 57600: 4, 115200: 5, 125000: 0x10, 250000: 0x11, 500000: 0x12, 1000000: 0x13}
M = 2147483647


def generate(ctx):
    extract.generate(['Codecs'])


def suite_codecs(ctx):
    sys.path.insert(0, core.REPO)
    from udsoncan.common.dtc import Dtc
    from udsoncan.common.CommunicationType import CommunicationType
    from udsoncan.common.DataFormatIdentifier import DataFormatIdentifier
    from udsoncan.common.AddressAndLengthFormatIdentifier import AddressAndLengthFormatIdentifier
    from udsoncan.common.Baudrate import Baudrate
    from udsoncan.services import ReadDTCInformation
    s = Suite('codecs')

    def chk(site, inp, got, want, **kw):
        s.evaluations += 1
        s.distinct.add('%s:%s' % (site, inp))
        if got != want:
            s.fail(dict(site=site, input=inp, observed=got, required=want, **kw))

    def safe(f):
        try:
            return f()
        except Exception as e:  # noqa
            return 'raise ' + type(e).__name__
    # one-byte flag codecs
    for b in range(256):
        st = Dtc.Status.from_byte(b)
        chk('Status.reencode', b, st.get_byte_as_int(), b)
        chk('Status.bits', b, [getattr(st, f) for f in STATUS_BITS], [bool(b >> k & 1) for k in range(8)])
        chk('Status.bytes', b, safe(lambda: Dtc.Status.from_byte(bytes([b])).get_byte()), bytes([b]))
        sv = Dtc.Severity.from_byte(b)
        cl = Dtc.DtcClass.from_byte(b)
        chk('Severity.reencode', b, (sv.get_byte_as_int(), cl.get_byte_as_int(), sv.get_byte_as_int() | cl.get_byte_as_int()),
            (b & 0xE0, b & 0x1F, b))
        chk('Severity.bits', b, [getattr(sv, f) for f in SEV_BITS.values()], [bool(b >> k & 1) for k in SEV_BITS])
        chk('DtcClass.bits', b, [getattr(cl, f) for f in CLS_BITS.values()], [bool(b >> k & 1) for k in CLS_BITS])
        # communication type: accepted iff a message type is selected; re-encode gives the byte back
        ct = safe(lambda: CommunicationType.from_byte(b))
        if isinstance(ct, str):
            chk('CommunicationType.accept', b, ct, 'raise ValueError' if (b & 3) == 0 or (b & 0x0C) else 'accepted',
                reserved_bits=bool(b & 0x0C))
        else:
            chk('CommunicationType.reencode', b, ct.get_byte_as_int(), b, reserved_bits=bool(b & 0x0C))
            chk('CommunicationType.fields', b, (ct.subnet.value(), ct.normal_msg, ct.network_management_msg), (b >> 4, bool(b & 1), bool(b & 2)))
        d = safe(lambda: DataFormatIdentifier.from_byte(b))
        if isinstance(d, str):
            chk('DataFormatIdentifier.accept', b, d, 'accepted')
        else:
            chk('DataFormatIdentifier.reencode', b, (d.get_byte_as_int(), d.compression, d.encryption), (b, b >> 4, b & 0xF))
    # the two spellings of a byte (an int, a one-byte bytes object) decode alike: same acceptance, same re-encoding
    for name, dec in (('Status', Dtc.Status.from_byte), ('Severity', Dtc.Severity.from_byte), ('DtcClass', Dtc.DtcClass.from_byte),
                      ('CommunicationType', CommunicationType.from_byte), ('DataFormatIdentifier', DataFormatIdentifier.from_byte)):
        import inspect
        if 'bytes' not in str(inspect.signature(dec)):
            continue            # this decoder is declared for integers only
        for b in range(256):
            as_int = safe(lambda: dec(b).get_byte_as_int())
            as_bytes = safe(lambda: dec(bytes([b])).get_byte_as_int())
            chk(name + '.from_byte(bytes)', b, as_bytes, as_int)
    # decoding is a function of the byte alone: what a caller did to an earlier result (the objects are mutable: flags are set on a decoded
    # status before it is sent back, availability masks are edited) must not show in the next decode of the same byte
    def scramble(obj, depth=0):
        for k_, v_ in list(getattr(obj, '__dict__', {}).items()):
            try:
                if isinstance(v_, bool):
                    setattr(obj, k_, not v_)
                elif isinstance(v_, int):
                    setattr(obj, k_, (v_ + 1) & 0xF)
                elif hasattr(v_, '__dict__') and depth < 2:
                    scramble(v_, depth + 1)
            except Exception:  # noqa   (an object that cannot be edited cannot leak edits either)
                pass
    for name, dec, mask in (('Status', Dtc.Status.from_byte, 0xFF), ('Severity', Dtc.Severity.from_byte, 0xE0), ('DtcClass', Dtc.DtcClass.from_byte, 0x1F),
                            ('CommunicationType', CommunicationType.from_byte, 0xFF), ('DataFormatIdentifier', DataFormatIdentifier.from_byte, 0xFF)):
        for b in range(256):
            x = safe(lambda: dec(b))
            if isinstance(x, str):
                continue
            scramble(x)
            y = safe(lambda: dec(b))
            chk(name + '.decode_after_use', b, 'same object handed out twice' if y is x else safe(lambda: y.get_byte_as_int()), b & mask)
    for i in range(256):
        kw = {f: bool(i >> k & 1) for k, f in enumerate(STATUS_BITS)}
        chk('Status.encode', i, Dtc.Status(**kw).get_byte_as_int(), i)
    for sn in range(16):
        for n in (False, True):
            for m in (False, True):
                if not (n or m):
                    chk('CommunicationType.encode', (sn, n, m), safe(lambda: CommunicationType(sn, n, m)), 'raise ValueError')
                    continue
                c = CommunicationType(sn, n, m)
                chk('CommunicationType.encode', (sn, n, m), c.get_byte_as_int(), sn << 4 | (1 if n else 0) | (2 if m else 0))
                c2 = CommunicationType.from_byte(c.get_byte())
                chk('CommunicationType.decode_encode', (sn, n, m), (c2.subnet.value(), c2.normal_msg, c2.network_management_msg), (sn, n, m))
    for c in range(16):
        for e in range(16):
            chk('DataFormatIdentifier.encode', (c, e), DataFormatIdentifier(c, e).get_byte_as_int(), c << 4 | e)
    # ALFID
    for a in extract.ALFID_PROBE:
        for m in extract.ALFID_PROBE:
            got = safe(lambda: AddressAndLengthFormatIdentifier(a, m).get_byte_as_int())
            ok = a in range(8, 65, 8) and m in range(8, 65, 8)
            chk('ALFID', (a, m), got, ((m // 8) << 4 | (a // 8)) if ok else 'raise ValueError')
    # baud rates
    chk('Baudrate.map', 'table', dict(Baudrate.baudrate_map), ISO_BAUD)
    for rate, ident in ISO_BAUD.items():
        chk('Baudrate.fixed', rate, safe(lambda: Baudrate(rate, Baudrate.Type.Fixed).get_bytes()), bytes([ident]))
        chk('Baudrate.auto', rate, safe(lambda: (Baudrate(rate).baudtype, Baudrate(rate).get_bytes())), (Baudrate.Type.Fixed, bytes([ident])))
        chk('Baudrate.identifier.effective', ident, safe(lambda: Baudrate(ident, Baudrate.Type.Identifier).effective_baudrate()), rate)
        chk('Baudrate.make_new_type', ident, safe(lambda: Baudrate(ident, Baudrate.Type.Identifier).make_new_type(Baudrate.Type.Specific).get_bytes()),
            rate.to_bytes(3, 'big'))
    for i in range(256):
        chk('Baudrate.identifier', i, safe(lambda: Baudrate(i, Baudrate.Type.Identifier).get_bytes()), bytes([i]))
        if i not in ISO_BAUD:
            chk('Baudrate.auto', i, safe(lambda: (Baudrate(i).baudtype, Baudrate(i).get_bytes())), (Baudrate.Type.Identifier, bytes([i])))
    for r in (256, 9599, 9601, 0xFFFF, 0x10000, 0xFFFFFE, 0xFFFFFF):
        chk('Baudrate.auto', r, safe(lambda: (Baudrate(r).baudtype, Baudrate(r).get_bytes())), (Baudrate.Type.Specific, r.to_bytes(3, 'big')))
    for r in (0x1000000, 2 ** 32, -1):
        chk('Baudrate.reject', r, safe(lambda: Baudrate(r)), 'raise ValueError')
    s.sample({'codec': 'Status', 'byte': 0x2F, 'flags': [getattr(Dtc.Status.from_byte(0x2F), f) for f in STATUS_BITS]})

    # 2^24 domains
    rng = ctx.rng
    for what, fn in (('dtc', ReadDTCInformation.pack_dtc), ('baud', lambda n: Baudrate(n, Baudrate.Type.Specific).get_bytes())):
        if ctx.thorough:
            ranges = [(0, 1 << 24, 1)]
            s.notes.append('%s: all 2^24 values' % what)
        else:
            ranges = [(0, 1 << 24, 257), (0, 70000, 1), ((1 << 24) - 70000, 1 << 24, 1)]
            lo = rng.randrange(0, (1 << 24) - 50000)
            ranges.append((lo, lo + 50000, 1))
        for lo, hi, stride in ranges:
            h = 0
            bad = None
            for n in range(lo, hi, stride):
                try:
                    bs = fn(n)
                except Exception as e:  # noqa  (an in-range value must encode)
                    if bad is None:
                        bad = (n, ('raised ' + type(e).__name__).encode())
                    bs = b''
                if bs != n.to_bytes(3, 'big') and bad is None:
                    bad = (n, bs)
                for b in bs:
                    h = (h * 257 + b + 1) % M
            cnt = len(range(lo, hi, stride))
            s.evaluations += cnt
            s.distinct.add('%s:%d:%d:%d' % (what, lo, hi, stride))
            s.count(what + '_values', cnt)
            if bad is not None:
                s.fail({'site': 'pack24.' + what, 'input': bad[0], 'observed': bad[1].decode() if bad[1].startswith(b'raised') else bad[1].hex(), 'required': bad[0].to_bytes(3, 'big').hex()})
            line = 'codec.hash what=%s lo=%d hi=%d stride=%d' % (what, lo, hi, stride)
            m = core.drv_batch([line])[0]
            if m != str(h):
                # locate the first differing value
                first = None
                for n in ([bad[0]] if bad is not None else range(lo, hi, stride)):
                    try:
                        got = core.hx(fn(n))
                    except Exception as e:  # noqa
                        got = 'raised ' + type(e).__name__
                    if got != core.drv_batch(['codec.one what=%s n=%d' % (what, n)])[0]:
                        first = n
                        break
                s.diverge(line + ' first_diff=%s' % first, m, str(h))
    s.exhaustive = ctx.thorough
    return s


def suite_helper_frames(ctx):
    """the helper values on the wire: the byte a CommunicationType stands for is the byte communication_control transmits (every sub-network, both message flags,
    given as object / int / bytes, under every edition), and a Baudrate reaches link_control as its identifier (control type 1) or as its 24-bit rate (control type
    2) whichever of its encodings it was given in"""
    from .. import clientlib as cl
    from udsoncan.common.CommunicationType import CommunicationType
    from udsoncan.common.Baudrate import Baudrate
    s = Suite('helper_frames')

    def frames(std, fn):
        client, conn = cl.make_client(cl.Cfg(rt=4, p2=2, p2s=2, std=std))
        cl.observe_outer(conn, lambda: fn(client))
        return [o[1] for o in conn.log if o[0] == 'send']
    for std in (2006, 2013, 2020):
        for sn in range(16):
            for n, m_ in ((True, False), (False, True), (True, True)):
                b = sn << 4 | (1 if n else 0) | (2 if m_ else 0)
                for form, val in (('object', CommunicationType(sn, n, m_)), ('int', b), ('bytes', bytes([b]))):
                    got = frames(std, lambda c: c.communication_control(0, val))
                    s.evaluations += 1
                    s.distinct.add('cc:%d:%d:%s' % (std, b, form))
                    if got != [bytes([0x28, 0x00, b])]:
                        s.fail({'site': 'communication_control', 'input': 'communication type 0x%02x given as %s under the %d edition' % (b, form, std),
                                'observed': [x.hex() for x in got], 'required': bytes([0x28, 0x00, b]).hex()})
    for rate, ident in ISO_BAUD.items():
        forms = [('fixed', lambda: Baudrate(rate, Baudrate.Type.Fixed)), ('specific', lambda: Baudrate(rate, Baudrate.Type.Specific)),
                 ('identifier', lambda: Baudrate(ident, Baudrate.Type.Identifier)), ('auto from the rate', lambda: Baudrate(rate)), ('auto from the identifier', lambda: Baudrate(ident))]
        for fname, mk in forms:
            for ct, want in ((1, bytes([0x87, 1, ident])), (2, bytes([0x87, 2]) + rate.to_bytes(3, 'big'))):
                got = frames(2020, lambda c: c.link_control(ct, mk()))
                s.evaluations += 1
                s.distinct.add('lc:%d:%s:%d' % (rate, fname, ct))
                if got != [want]:
                    s.fail({'site': 'link_control', 'input': 'link_control(%d, Baudrate %d bit/s given as %s)' % (ct, rate, fname), 'observed': [x.hex() for x in got], 'required': want.hex()})
    s.exhaustive = True
    return s


SUITES = [suite_codecs, suite_helper_frames]
