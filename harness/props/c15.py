"""C15 — one call, one flushed-then-sent frame; stale frames are never taken as answers."""
from .. import core
from ..core import Suite

LEAN_TARGETS = ['Uds.Props.C15', 'Uds.Props.C15Hist', 'Uds.Props.C15Stray']
ASSUMPTIONS = [
    'the client state the model carries is {session timing, suppress flags, override}; a monitor snapshots client.__dict__ and config around every real call '
    'and fails if anything else changed, which is what ties "the model state is the whole state" to the code',
]
RULE = ('hist suite: histories with stray / late / duplicated frames left in the receive queue between calls, calls ending in every failure kind followed by further '
        'calls, configuration switches; each call is also replayed on a fresh real client with the same configuration, timing and flags and the two observations are '
        'compared; all 110 default calls x 6 outcomes checked for flush-send-wait shape; the Client context manager on 4 exit paths. '
        'distinct = distinct history lines; non-trivial = residue or a failure preceded a later call')


def snapshot(client):
    d = {}
    for k, v in client.__dict__.items():
        if k in ('conn', 'logger', 'last_response'):
            continue
        if k == 'config':
            d[k] = {a: (b if not callable(b) else 'callable') for a, b in v.items()}
        elif k == 'session_timing':
            d[k] = (v.p2_server_max, v.p2_star_server_max)
        elif k == 'suppress_positive_response':
            d[k] = (v.enabled, v.wait_nrc)
        elif k == 'payload_override':
            d[k] = (v.enabled, v.modifier if not callable(v.modifier) else 'callable')
        else:
            d[k] = repr(v)
    return d


def suite_hist(ctx):
    from .. import hist, clientlib as cl
    s = Suite('hist')
    rng = ctx.rng
    lines, impl = [], []
    _corpus, _hi = hist.corpus_histories(), 0
    for _ in range(ctx.n(500, 10000)):
        hcfg = hist.HCfg(rt=rng.choice([None, 5120, 300]), sw=tuple(rng.random() < 0.7 for _ in range(3)), std=rng.choice([2006, 2013, 2020]),
                         cb=rng.random() < 0.3)
        ops, meta = hist.gen_history(rng, rng.choice(['residue', 'residue', 'spr']), rng.randrange(3, ctx.n(9, 40)), hcfg)
        if _hi < len(_corpus):
            ops, meta = _corpus[_hi]            # fixed histories first (hist.corpus_histories)
        _hi += 1
        out, tr, client, conn = hist.run_history(hcfg, ops)
        line = hcfg.line(ops)
        lines.append(line)
        impl.append(out)
        residue = False
        sw = hcfg.sw
        stack = []
        for idx, (st, m) in enumerate(zip(tr.steps, meta)):
            op = st['op']
            if op[0] == 'stray':
                residue = True
            if op[0] == 'sw':
                sw = op[1]
            if op[0] in ('espr', 'eovr'):
                stack.append(op)
            if op[0] in ('xspr', 'xovr') and stack:
                stack.pop()
            if op[0] not in ('call', 'unlock'):
                continue
            if residue or any(x.get('kind') not in (None, 'good') for x in meta[:idx]):
                s.distinct.add(line)
            log = st['log']
            kinds = [o[0] for o in log]
            rec = {'site': 'call', 'input': line, 'op': hist.op_str(op)}
            # shape: (flush send wait*)  once, or twice for the seed/key composite, or nothing at all (rejected)
            segs, cur = [], None
            ok = True
            for k in kinds:
                if k == 'flush':
                    cur = ['flush']; segs.append(cur)
                elif cur is None:
                    ok = False
                else:
                    cur.append(k)
            for seg in segs:
                rest = [k for k in seg[1:] if k != 'callback']
                if rest[:1] not in (['send'], []) or any(k != 'wait' for k in rest[1:]) or rest.count('send') > 1:
                    ok = False
            maxseg = 2 if op[0] == 'unlock' else 1
            if not ok or len(segs) > maxseg:
                s.fail(dict(rec, observed=str(kinds), required='flush, one send, then only waits (x%d at most)' % maxseg))
                continue
            # fresh-client metamorphic check: same call on a new client in the same (config, timing, flags) state
            b = st['before']
            h2 = hist.HCfg(rt=hcfg.rt, p2=hcfg.p2, p2s=hcfg.p2s, cb=hcfg.cb, std=client.config['standard_version'] if False else hcfg.std, ust=hcfg.ust, sw=sw)
            pre = [o for o in (x['op'] for x in tr.steps[:idx]) if o[0] in ('std', 'ust')]
            ops2 = pre + [(o[0], o[1]) if o[0] == 'espr' else o for o in stack] + [op]
            # the fresh client must be given the adopted timing explicitly
            out2, tr2, c2, conn2 = run_with_timing(hist, h2, ops2, b['timing'])
            st2 = [x for x in tr2.steps if x['op'][0] in ('call', 'unlock')][-1]
            if st2['out'] != st['out']:
                s.fail(dict(rec, observed=st['out'], required='as on a fresh client: ' + st2['out']))
            s.count('kind=' + str(m.get('kind', m.get('skind'))))
    core.compare(s, lines, core.drv_batch(lines), impl, lambda i, o: False)
    s.sample({'line': lines[0], 'impl': impl[0]})
    return s


def run_with_timing(hist, hcfg, ops, timing):
    """like hist.run_history but the session timing is preset (fresh client in the same state)"""
    from .. import clientlib as cl
    orig = cl.make_client

    def patched(cfg, extra=None):
        c, conn = orig(cfg, extra)
        c.session_timing.p2_server_max, c.session_timing.p2_star_server_max = timing
        return c, conn
    cl.make_client = patched
    try:
        ops = [o + ('normal',) if o[0] in ('xspr', 'xovr') and len(o) == 1 else o for o in ops]
        # close any block that is still open so that the history is well nested
        opens = [o for o in ops if o[0] in ('espr', 'eovr')]
        closes = [('xspr' if o[0] == 'espr' else 'xovr', 'normal') for o in reversed(opens)]
        return hist.run_history(hcfg, ops + closes)
    finally:
        cl.make_client = orig


def suite_shape(ctx):
    """all default calls x outcomes: op-log shape, single transmission, state-diff monitor"""
    from .. import clientlib as cl, entries
    s = Suite('shape')
    for c in entries.default_calls():
        for kind in ('good', 'neg', 'silence', 'invalid', 'wrongsvc', 'pend3', 'sendfail'):
            cfg = cl.Cfg(rt=3000, p2=500, p2s=800)
            client, conn = cl.make_client(cfg, extra=c.config())
            conn.stale = [b'\x51\x01', b'\x7f\x22\x31']

            def responder(p, kind=kind):
                sid = p[0]
                g = entries.good_reply(p, c, client.config)
                return {'good': [(1, g)], 'neg': [(1, bytes([0x7F, sid, 0x22]))], 'silence': [], 'invalid': [(1, b'\x7f')],
                        'wrongsvc': [(1, b'\x7e\x00' if sid != 0x3E else b'\x51\x01')],
                        'pend3': [(1, bytes([0x7F, sid, 0x78])), (2, bytes([0x7F, sid, 0x78])), (3, bytes([0x7F, sid, 0x78])), (4, g)],
                        'sendfail': []}[kind]
            conn.responder = responder
            if kind == 'sendfail':
                conn.fail_send = RuntimeError('bus off')
            before = snapshot(client)
            how, verdict, flags, payload, exc, r = cl.observe_outer(conn, lambda: c.invoke(client))
            after = snapshot(client)
            kinds = [o[0] for o in conn.log if o[0] != 'callback']
            s.evaluations += 1
            s.distinct.add(c.desc() + '|' + kind)
            rec = {'site': c.name, 'call': c.desc(), 'input': kind}
            nseg = kinds.count('flush')
            maxseg = 2 if c.name == 'unlock_security_access' else 1
            shape_ok = nseg <= maxseg and kinds.count('send') == nseg
            i = 0
            while i < len(kinds) and shape_ok:
                if kinds[i] != 'flush' or i + 1 >= len(kinds) or kinds[i + 1] != 'send':
                    shape_ok = False
                i += 2
                while i < len(kinds) and kinds[i] == 'wait':
                    i += 1
            if not shape_ok or nseg < 1:
                s.fail(dict(rec, observed=str(kinds), required='(flush, send, wait*) once%s' % (' or twice' if maxseg == 2 else '')))
            if kind == 'good' and verdict not in ('ok',):
                s.fail(dict(rec, observed=verdict + ' with stale frames queued', required='ok: stale frames must be discarded, the real reply used'))
            diff = {k for k in set(before) | set(after) if before.get(k) != after.get(k)} - {'session_timing'}
            if diff:
                s.fail(dict(rec, observed='client attributes changed: %s' % sorted(diff), required='no hidden per-call state'))
            s.count(kind + ':' + verdict.split(':')[0])
    return s


def suite_ctx(ctx):
    """Client.__enter__/__exit__ open and close the connection on every exit path"""
    from .. import clientlib as cl
    from udsoncan.client import Client
    s = Suite('ctxmgr')
    class Odd(BaseException):
        pass

    def body(c, conn, path):
        if path == 'exception':
            raise KeyError('boom')
        if path == 'timeout':
            c.tester_present()
        if path == 'negative':
            conn.script = [(1, b'\x7f\x3e\x11')]
            c.tester_present()
        if path == 'keyboard-interrupt':
            raise KeyboardInterrupt()
        if path == 'system-exit':
            raise SystemExit(3)
        if path == 'base-exception':
            raise Odd()
        if path == 'interrupt-while-waiting':
            def boom(*a, **k):
                raise KeyboardInterrupt()
            conn.specific_wait_frame = boom
            c.tester_present()

    paths = ('normal', 'exception', 'timeout', 'negative', 'keyboard-interrupt', 'system-exit', 'base-exception', 'interrupt-while-waiting',
             'generator-closed', 'return', 'break')
    # every exit path, with a connection the context manager opens itself and with one the application had opened already
    for path, pre_open in [(p_, False) for p_ in paths] + [(p_, True) for p_ in paths]:
        conn = cl.stub.StubConn(cl.CLOCK)
        conn.opened = pre_open
        raised = None
        entered = []
        try:
            if path == 'generator-closed':
                def gen():
                    with Client(conn, request_timeout=1) as c:
                        entered.append(conn.is_open())
                        yield c
                        yield c
                g = gen()
                next(g)
                g.close()                      # GeneratorExit inside the with block
            elif path == 'return':
                def fn():
                    with Client(conn, request_timeout=1):
                        entered.append(conn.is_open())
                        return 1
                fn()
            elif path == 'break':
                for _ in range(2):
                    with Client(conn, request_timeout=1):
                        entered.append(conn.is_open())
                        break
            else:
                with Client(conn, request_timeout=1) as c:
                    entered.append(conn.is_open())
                    body(c, conn, path)
        except BaseException as e:  # noqa
            raised = e
        s.evaluations += 1
        label = path + (' (connection already open when the block is entered)' if pre_open else '')
        s.distinct.add(label)
        if entered != [True]:
            s.fail({'site': 'Client.__enter__', 'input': label, 'observed': 'connection not opened', 'required': 'opened'})
        if conn.is_open() or conn.close_calls != 1:
            s.fail({'site': 'Client.__exit__', 'input': label, 'observed': 'open=%s close_calls=%d' % (conn.is_open(), conn.close_calls),
                    'required': 'closed exactly once'})
        if path not in ('normal', 'generator-closed', 'return', 'break') and raised is None:
            s.fail({'site': 'Client.__exit__', 'input': label, 'observed': 'exception swallowed', 'required': 'exception propagates'})
    s.exhaustive = True
    return s


def suite_direct(ctx):
    """send_request called directly (default and per-call timeout, request-level suppress flag) with frames already queued"""
    from .. import clientlib as cl
    from udsoncan import Request
    from ..core import onat, b01
    s = Suite('direct')
    rng = ctx.rng
    svcs = cl.services_by_name()
    lines, impl = [], []
    for _ in range(ctx.n(400, 8000)):
        svc = rng.choice(['ECUReset', 'TesterPresent', 'ReadDataByIdentifier', 'RoutineControl', 'TransferData', 'RequestTransferExit'])
        sid = svcs[svc]._sid
        percall = rng.choice([None, None, 0, 7, 300, 5000])
        rt = rng.choice([None, 100, 5120])
        has_sf = svcs[svc].use_subfunction()
        rspr = has_sf and rng.random() < 0.15
        kind = rng.choice(['good', 'good', 'neg', 'silence', 'pend_good'])
        good = bytes([sid + 0x40, 1, 2])
        arr = {'good': [(1, good)], 'neg': [(1, bytes([0x7F, sid, 0x31]))], 'silence': [], 'pend_good': [(1, bytes([0x7F, sid, 0x78])), (2, good)]}[kind]
        if percall == 0:
            arr = [(0, p) for _, p in arr]
        stale = [rng.choice([good, bytes([0x7F, sid, 0x22]), bytes([0x7F, sid, 0x78]), b'\x7e\x00', b'']) for _ in range(rng.randrange(0, 4))]
        cfg = cl.Cfg(rt=rt, p2=50, p2s=80, cb=rng.random() < 0.5)
        client, conn = cl.make_client(cfg)
        conn.script = list(arr)
        conn.stale = list(stale)
        sf = 1 if has_sf else None
        req = Request(svcs[svc], subfunction=sf, suppress_positive_response=rspr)
        tmo = -1 if percall is None else percall * cl.TICK
        reuse = rng.random() < 0.3
        before = dict(vars(req))
        if reuse:
            # the same Request object was already sent once on this client, inside a suppress-positive-response block
            keep_script, keep_stale = conn.script, conn.stale
            conn.script, conn.stale = [], []
            with client.suppress_positive_response:
                try:
                    client.send_request(req)
                except Exception:  # noqa
                    pass
            conn.script, conn.stale = keep_script, keep_stale
            if dict(vars(req)) != before:
                s.fail({'site': 'send_request', 'input': 'Request(%s, subfunction=%s, suppress_positive_response=%s) sent inside a suppress-positive-response block' % (svc, sf, rspr),
                        'class': 'the call modified its argument', 'observed': str({k: v for k, v in vars(req).items() if before.get(k) != v}), 'required': 'Request object unchanged'})
            s.count('request-object-reused')
        obs = cl.observe(conn, lambda: client.send_request(req, timeout=tmo))
        if dict(vars(req)) != before and not reuse:
            s.fail({'site': 'send_request', 'input': 'send', 'class': 'the call modified its argument',
                    'observed': str({k: v for k, v in vars(req).items() if before.get(k) != v}), 'required': 'Request object unchanged'})
        line = 'send %s svc=%s sf=%s rspr=%s data=- timeout=%s arr=%s' % (cfg.line(), svc, onat(sf), b01(rspr), onat(percall), cl.arrivals_str(arr))
        lines.append(line)
        impl.append(obs)
        kinds = [o[0] for o in conn.log if o[0] != 'callback']
        rec = {'site': 'send_request', 'input': line, 'stale': [x.hex() for x in stale], 'per_call_timeout': percall}
        if kinds[:2] != ['flush', 'send'] or kinds.count('send') != 1 or kinds.count('flush') != 1 or any(k != 'wait' for k in kinds[2:]):
            s.fail(dict(rec, observed=str(kinds), required='flush, one send, then only waits'))
        # the same call with an empty queue must look the same
        client2, conn2 = cl.make_client(cfg)
        conn2.script = list(arr)
        obs2 = cl.observe(conn2, lambda: client2.send_request(Request(svcs[svc], subfunction=sf, suppress_positive_response=rspr), timeout=tmo))
        if obs2 != obs:
            s.fail(dict(rec, observed=obs, required='as with an empty receive queue: ' + obs2))
        s.count('stale=%d' % len(stale))
        s.count('timeout=' + ('default' if percall is None else 'per-call'))
    core.compare(s, lines, core.drv_batch(lines), impl, lambda i, o: True)
    s.sample({'line': lines[0], 'impl': impl[0]})
    return s


def suite_two_clients(ctx):
    """two client objects in one process: what one of them is in the middle of (a suppress block, a payload override, adopted session timing,
    changed configuration) never shows in the other one's frames or outcome"""
    from .. import clientlib as cl, entries
    s = Suite('two_clients')
    rng = ctx.rng
    calls = entries.default_calls()
    seen, sel = set(), []
    for c in calls:
        if c.name not in seen:
            seen.add(c.name)
            sel.append(c)
    if not ctx.thorough:
        sel = rng.sample(sel, 25)
    states = ['suppress', 'suppress-wait-nrc', 'override-literal', 'override-callable', 'adopted-timing', 'set_config', 'failed-call', 'reopened-adopted-timing']
    for c in sel:
        def one(conn, client):
            st = {'n': 0}

            def responder(p, st=st):
                st['n'] += 1
                return [(1, entries.good_reply(p, c, client.config))]
            conn.responder = responder
            return cl.observe(conn, lambda: c.invoke(client))
        cfg = cl.Cfg(rt=3000, p2=1000, p2s=2000)
        lone, lconn = cl.make_client(cfg, extra=c.config())
        base = one(lconn, lone)
        for state in states:
            for created in ('before', 'after'):
                a, aconn = cl.make_client(cfg)
                if created == 'before':
                    b, bconn = cl.make_client(cfg, extra=c.config())
                cms = []
                if state.startswith('suppress'):
                    cms.append(a.suppress_positive_response(wait_nrc=state.endswith('nrc')))
                elif state == 'override-literal':
                    cms.append(a.payload_override(b'\x11\x22'))
                elif state == 'override-callable':
                    cms.append(a.payload_override(lambda p: p + b'\xee'))
                elif state == 'adopted-timing':
                    aconn.responder = lambda p: [(1, bytes([0x50, p[1], 0x00, 0x07, 0x00, 0x09]))]
                    a.change_session(3)
                elif state == 'reopened-adopted-timing':
                    # both clients were closed and opened again once (each used in a with-block before, say); then the other one adopts server timing
                    a.close(); a.open()
                    if created == 'before':
                        b.close(); b.open()
                    aconn.responder = lambda p: [(1, bytes([0x50, p[1], 0x00, 0x07, 0x00, 0x09]))]
                    a.change_session(3)
                elif state == 'set_config':
                    a.set_configs({'exception_on_negative_response': False, 'tolerate_zero_padding': False, 'p2_timeout': 0.001, 'request_timeout': 0.002, 'standard_version': 2006})
                else:
                    aconn.responder = lambda p: []
                    try:
                        a.tester_present()
                    except Exception:  # noqa
                        pass
                for cm in cms:
                    cm.__enter__()
                try:
                    if created == 'after':
                        b, bconn = cl.make_client(cfg, extra=c.config())
                        if state == 'reopened-adopted-timing':
                            b.close(); b.open()
                    got = one(bconn, b)
                finally:
                    for cm in reversed(cms):
                        cm.__exit__(None, None, None)
                s.evaluations += 1
                s.distinct.add('%s|%s|%s' % (c.name, state, created))
                s.count(state)
                if got != base:
                    s.fail({'site': c.name, 'call': c.desc(), 'input': 'another client object is in state %r (this client created %s that)' % (state, created),
                            'observed': got, 'required': 'as when it is the only client: ' + base})
    return s


def suite_send_fault(ctx):
    """the transport fails while (or right after) it puts the frame on the wire - `specific_send` raises, with either of the two signatures the library supports
    (with and without a `timeout` parameter): the frame was handed to the transport exactly once, nothing is retransmitted, the exception reaches the caller"""
    from .. import clientlib as cl
    s = Suite('send_fault')
    excs = [TypeError('listener called with the wrong arity'), OSError('bus off'), ValueError('bad frame'), RuntimeError('driver'), TimeoutError('tx timeout')]
    for modern in (True, False):
        for when in ('after', 'before'):
            for exc in excs:
                for entry in ('tester_present', 'ecu_reset', 'read_data_by_identifier', 'unlock_security_access'):
                    client, conn = cl.make_client(cl.Cfg(rt=50, p2=20, p2s=20), extra={'security_algo': lambda seed, level, params: b'\x01', 'data_identifiers': {0x1234: 'H'}})
                    sent = []
                    if modern:
                        def specific_send(payload, timeout=None, sent=sent, exc=exc, when=when):
                            if when == 'after':
                                sent.append(bytes(payload))
                            raise exc
                    else:
                        def specific_send(payload, sent=sent, exc=exc, when=when):
                            if when == 'after':
                                sent.append(bytes(payload))
                            raise exc
                    conn.specific_send = specific_send
                    call = {'tester_present': lambda: client.tester_present(), 'ecu_reset': lambda: client.ecu_reset(1),
                            'read_data_by_identifier': lambda: client.read_data_by_identifier([0x1234]), 'unlock_security_access': lambda: client.unlock_security_access(1)}[entry]
                    got = None
                    try:
                        call()
                    except Exception as e:  # noqa
                        got = e
                    s.evaluations += 1
                    s.distinct.add('%s|%s|%s|%s' % (modern, when, type(exc).__name__, entry))
                    rec = {'site': 'BaseConnection.send', 'input': '%s; specific_send(%s) raises %s %s transmitting' % (entry, 'payload, timeout' if modern else 'payload', type(exc).__name__, when)}
                    if len(sent) > 1:
                        s.fail(dict(rec, observed='frame handed to the transport %d times: %s' % (len(sent), [x.hex() for x in sent]), required='once'))
                    elif got is not exc:
                        s.fail(dict(rec, observed=repr(got), required='the transport\'s %s reaches the caller' % type(exc).__name__))
    s.exhaustive = True
    return s


def suite_reentrant(ctx):
    """the pending-response callback uses the client it belongs to: the request in flight goes on as if the callback had done nothing (frames, outcome, instant,
    adopted timing) - harness/reentrant.py"""
    from .. import reentrant
    return reentrant.suite_reentrant(ctx)


SUITES = [suite_hist, suite_shape, suite_ctx, suite_direct, suite_two_clients, suite_send_fault, suite_reentrant]
