"""C11 — zero padding: trailing zeros are ignored when tolerated, rejected when not."""
from .. import core, extract
from ..core import Suite

LEAN_TARGETS = ['Uds.Props.C11', 'Uds.Props.C11Call', 'Uds.Tie.Groups']
ASSUMPTIONS = [
    'domain = the client methods whose docstring lists tolerate_zero_padding under ":Effective configuration:" (extracted on every run) plus read_memory_by_address',
    'data identifier 0x0000 is not configured (otherwise two zero bytes are a genuine identifier and the padding is ambiguous)',
    'a single trailing 0x00 after a reportDTCSnapshotRecordByRecordNumber reply is a whole degenerate record (record number without DTC, allowed by the standard), not padding',
]
RULE = ('padded suite: every well-formed reply of the C02 generators for the padding-aware parsers x pad lengths 0..2*record+1 (and longer) x tolerate_zero_padding x ignore_all_zero_dtc. '
        'Tolerated: same outcome and content, plus one DTC 0 per whole all-zero record when ignore_all_zero_dtc is off; not tolerated: trailing bytes that do not form whole records give an '
        'invalid / unexpected response. Model vs implementation on every case. distinct = distinct (call line, pad); non-trivial = pad > 0')

ZERO_REC = {'rec4': '0:0:0:-:-:-:-', 'rec6': '0:0:0:0:-:-:-', 'wwh': '0:0:0:-:-:-:-'}


def generate(ctx):
    from .. import extract
    extract.generate(['Groups'])


def documented_methods():
    import inspect
    import re
    from udsoncan.client import Client
    out = set()
    for n, f in inspect.getmembers(Client, inspect.isfunction):
        doc = f.__doc__ or ''
        m = re.search(r':Effective configuration:(.*)', doc)
        if m and 'tolerate_zero_padding' in m.group(1):
            out.add(n)
    return out


def with_extra(expect, recs_extra):
    """append records to a dtc dump"""
    head, recs = expect.rsplit(' recs=', 1)
    lst = [] if recs == '-' else recs.split(',')
    lst += recs_extra
    n = int(head.split(' n=')[1])
    head = head.split(' n=')[0] + ' n=%d' % (n + len(recs_extra))
    return head + ' recs=' + (','.join(lst) if lst else '-')


def suite_padded(ctx):
    from .. import declib, enclib
    s = Suite('padded')
    rng = ctx.rng
    docs = documented_methods()
    s.notes.append('%d client methods document tolerate_zero_padding' % len(docs))
    if len(docs) != 31:
        s.notes.append('expected 31 on the pinned tree')
    sf_documented = {sf for nm, (sf, _) in enclib.DTC_WRAPPERS.items() if nm in docs} | ({0x42} if 'get_wwh_obd_dtc_by_status_mask' in docs else set())
    s.notes.append('ReadDTCInformation sub-functions whose getter documents it: ' + ','.join('%02x' % x for x in sorted(sf_documented)))
    lines, impl = [], []
    per = ctx.n(40, 800)
    saved0 = enclib.DIDS.pop(0x0000)
    declib.LENIENT_IO = True
    try:
        for name, gen in declib.GENERATORS:
            if name not in ('rdbi', 'readmem', 'io', 'rft', 'dtc'):
                continue
            for c in gen(rng, per if name != 'dtc' else per * 6):
                if c.padclass is None:
                    continue
                if name == 'dtc' and c.sf not in sf_documented:
                    continue
                unit = getattr(c, 'padunit', None)
                pads = list(range(0, (2 * unit + 2) if unit else 8)) + [rng.randrange(8, 40)]
                for n in pads:
                    d = c.good + bytes(n)
                    got = declib.run_reply(c, d)
                    line = '%s d=%s' % (c.dline, core.hx(d))
                    lines.append(line)
                    impl.append(got)
                    if n:
                        s.distinct.add(line)
                    rec = {'site': c.site, 'input': line, 'generator': name, 'pad': n, 'tolerate_zero_padding': c.padclass == 'tol'}
                    grp = getattr(c, 'group', name)
                    rec['group'] = grp
                    ok = got.startswith('ok ')
                    s.count('%s:%s:%s' % (grp, c.padclass, 'ok' if ok else got.split(' ')[0]))
                    if n == 0:
                        if got != 'ok ' + c.expect:
                            s.fail(dict(rec, observed=got, required='ok ' + c.expect))
                        continue
                    if c.padclass == 'tol':
                        want = c.expect
                        if name == 'dtc':
                            ign = c.ign
                            if grp in ZERO_REC and not ign:
                                want = with_extra(c.expect, [ZERO_REC[grp]] * (n // unit))
                            elif grp == 'g3' and not ign:
                                k = n // 4
                                if c.sf == 0x14:
                                    want = with_extra(c.expect, ['0:0:0:-:0:-:-'] * k)
                                elif k:
                                    want = with_extra(c.expect, ['0:0:0:-:-:%s:-' % '+'.join(['0/-/-'] * k)])
                            elif grp == 'extrec' and not ign:
                                ext = c.zero_ext            # size of the extended data of DTC 0 (None: sizes per DTC without an entry for DTC 0)
                                k = 0 if ext is None else n // (4 + ext)
                                if k == 1:
                                    recno = c.good[1]
                                    want = with_extra(c.expect, ['0:0:0:-:-:-:%d/%s' % (recno, ('00' * ext) or '-')])
                                elif k >= 2:
                                    rec['class'] = 'two whole zero records, ignore_all_zero_dtc off'
                                    want = None
                        if want is None:
                            if not got.startswith('ok '):
                                s.fail(dict(rec, observed=got, required='ok: each whole all-zero record is one more DTC 0'))
                        elif got != 'ok ' + want:
                            s.fail(dict(rec, observed=got, required='ok ' + want))
                    else:
                        whole = unit is not None and n % unit == 0
                        if c.padclass == 'notol' and whole:
                            continue        # whole all-zero records are records, not padding
                        if grp == 'snaprec' and n == 1:
                            continue        # a record number without DTC
                        if grp in ('snapdtc', 'extdtc', 'snaprec') or name in ('rdbi',) or c.padclass == 'notol-any' or not whole:
                            if ok:
                                s.fail(dict(rec, observed=got, required='invalid (or unexpected) response: trailing bytes with tolerance off'))
    finally:
        enclib.DIDS[0x0000] = saved0
        declib.LENIENT_IO = False
    core.compare(s, lines, core.drv_batch(lines), impl)
    for i in (0, len(lines) // 2, len(lines) - 1):
        s.sample({'line': lines[i], 'impl': impl[i]})
    return s


def suite_callw(ctx):
    """whole client calls of every service family against the model's callWith (udsdrv callw): the correspondence the call-level theorems rest on"""
    from .. import callw
    return callw.suite_callw(ctx, 'C11')


def suite_races(ctx):
    """several threads use the library at the same moment, each on objects of its own, from the first use in a fresh process: what each thread gets is what the same call
    gives single-threaded (child processes: harness/race_child.py padding)"""
    return core.suite_races(['padding'], ctx.n(10, 24))


SUITES = [suite_padded, suite_callw, suite_races]
