"""C10 — server P2/P2* are adopted only from an accepted session change, correctly scaled."""
import struct
from .. import core
from ..core import Suite

LEAN_TARGETS = ['Uds.Props.C10', 'Uds.Props.C10Hist', 'Uds.Props.C05']
ASSUMPTIONS = [
    'exact comparison with the model uses server values that are multiples of 125 ms (P2) / 25 (P2* field) and configuration times that are multiples '
    'of 2^-10 s, so every float operation is exact; arbitrary 16-bit pairs are checked on the real client against a/1000 and b*10/1000 directly',
]
RULE = ('hist suite: histories of session changes (accepted / negative / invalid / echo mismatch / wrong length / silence) interleaved with other requests '
        '(incl. 0x78 chains so that P2* is observed), standard_version and use_server_timing changes; every 16-bit boundary pair + random pairs on the real client. '
        'distinct = distinct history lines / (a,b,std,ust) tuples; non-trivial = a session change was accepted')


def suite_hist(ctx):
    from .. import hist
    s = Suite('hist')
    rng = ctx.rng
    lines, impl = [], []
    for _ in range(ctx.n(500, 10000)):
        hcfg = hist.HCfg(rt=rng.choice([None, 5120, 300, 100000]), p2=rng.choice([1024, 100]), p2s=rng.choice([5120, 200]), cb=rng.random() < 0.3,
                         std=rng.choice([2006, 2013, 2020]), ust=rng.random() < 0.8)
        ops, meta = hist.gen_history(rng, 'timing', rng.randrange(3, ctx.n(10, 30)), hcfg)
        out, tr, client, conn = hist.run_history(hcfg, ops)
        line = hcfg.line(ops)
        lines.append(line)
        impl.append(out)
        std, ust = hcfg.std, hcfg.ust
        accepted = False
        last = (None, None)                     # the timing in force after the previous step
        for st, m in zip(tr.steps, meta):
            op = st['op']
            if op[0] == 'std':
                std = op[1]
            elif op[0] == 'ust':
                ust = op[1]
            if op[0] not in ('call', 'unlock'):
                # configuration changes, block entries / exits, stray frames: none of them is a session change
                if st.get('after') is not None:
                    if st['after']['timing'] != last:
                        s.fail({'site': 'session timing', 'input': line, 'op': hist.op_str(op), 'observed': 'timing changed from %s to %s' % (last, st['after']['timing']),
                                'required': 'unchanged: only an accepted session change adopts (or replaces) server timing'})
                    last = st['after']['timing']
                continue
            last = st['after']['timing']
            b, a = st['before']['timing'], st['after']['timing']
            rec = {'site': 'session timing', 'input': line, 'op': hist.op_str(op), 'std': std, 'use_server_timing': ust}
            if op[0] == 'call' and op[1][0] == 'cs' and st['verdict'] == 'ok' and std > 2006 and ust:
                accepted = True
                pa, pb = m['p2']
                want = (pa / 1000, pb * 10 / 1000)
                if a != want:
                    s.fail(dict(rec, observed=str(a), required=str(want)))
            elif a != b:
                s.fail(dict(rec, observed='timing changed to %s' % (a,), required='unchanged %s (verdict %s)' % (b, st['verdict'])))
            # the timings in force: first wait = min(P2eff, request timeout); after a 0x78: P2*eff (capped by the deadline)
            waits = [(o[1], o[2]) for o in st['log'] if o[0] == 'wait']
            if waits and op[0] == 'call' and not st['before']['spr']:
                tick = hist.stub.TICK
                p2eff = b[0] / tick if b[0] is not None else hcfg.p2
                p2seff = b[1] / tick if b[1] is not None else hcfg.p2s
                want0 = p2eff if hcfg.rt is None else min(p2eff, hcfg.rt)
                if waits[0][1] != want0:
                    s.fail(dict(rec, observed='first wait %s' % waits[0][1], required='min(P2 in force %s, request timeout %s)' % (p2eff, hcfg.rt)))
                for (t, w) in waits[1:]:
                    wantw = p2seff if hcfg.rt is None else min(p2seff, max(hcfg.rt - t, 0))
                    if w != wantw:
                        s.fail(dict(rec, observed='wait %s at %s' % (w, t), required='min(P2* in force %s, remaining %s)' % (p2seff, hcfg.rt)))
                        break
        if accepted:
            s.distinct.add(line)
    core.compare(s, lines, core.drv_batch(lines), impl, lambda i, o: False)
    s.sample({'line': lines[0], 'impl': impl[0]})
    return s


def suite_pairs(ctx):
    """arbitrary 16-bit pairs on the real client (no model): accessor values and the waits of the next request"""
    from .. import clientlib as cl
    s = Suite('pairs')
    rng = ctx.rng
    vals = [0, 1, 2, 49, 50, 124, 125, 255, 256, 999, 1000, 1001, 0x7FFF, 0x8000, 0xFFFE, 0xFFFF]
    pairs = [(a, b) for a in vals for b in vals] + [(rng.randrange(65536), rng.randrange(65536)) for _ in range(ctx.n(300, 5000))]
    for (a, b) in pairs:
        for std in (2006, 2013, 2020):
            for ust in (True, False):
                for kind in ('ok', 'neg', 'badecho', 'short', 'long', 'rec4', 'rec2'):
                    if kind in ('rec4', 'rec2'):
                        # 2006 edition: the reply may carry a manufacturer-specific parameter record of any length - also one of exactly four
                        # bytes, which is not a timing record there: accepted, nothing adopted
                        if std != 2006 or rng.random() < 0.5:
                            continue
                    elif kind != 'ok' and rng.random() < 0.7:
                        continue
                    cfg = cl.Cfg(rt=None, p2=1024, p2s=5120, std=std)
                    client, conn = cl.make_client(cfg, extra={'use_server_timing': ust})
                    tim = struct.pack('>HH', a, b)
                    reply = {'ok': bytes([0x50, 3]) + (tim if std >= 2013 else b''), 'neg': b'\x7f\x10\x22', 'badecho': bytes([0x50, 2]) + tim,
                             'short': bytes([0x50, 3]) + tim[:3], 'long': bytes([0x50, 3]) + tim + b'\x00',
                             'rec4': bytes([0x50, 3]) + tim, 'rec2': bytes([0x50, 3]) + tim[:2]}[kind]
                    conn.script = [(1, reply)]
                    how, verdict, flags, payload, exc, r = cl.observe_outer(conn, lambda: client.change_session(3))
                    t = client.get_session_timing()
                    got = (t.p2_server_max, t.p2_star_server_max)
                    adopt = verdict == 'ok' and std > 2006 and ust
                    want = (a / 1000, b * 10 / 1000) if adopt else (None, None)
                    s.evaluations += 1
                    s.distinct.add('%d,%d,%d,%s,%s' % (a, b, std, ust, kind))
                    rec = {'site': 'change_session', 'a': a, 'b': b, 'std': std, 'use_server_timing': ust, 'reply': reply.hex(), 'input': kind}
                    if kind in ('ok', 'rec4', 'rec2') and verdict != 'ok':
                        s.fail(dict(rec, observed=verdict, required='accepted'))
                        continue
                    if kind in ('neg', 'badecho') and verdict == 'ok':
                        s.fail(dict(rec, observed='accepted', required='rejected'))
                    if kind in ('short', 'long') and std >= 2013 and verdict == 'ok':
                        s.fail(dict(rec, observed='accepted, timing %s' % (got,), required='invalid response: from the 2013 edition on the reply carries exactly the four timing bytes; nothing is adopted'))
                        continue
                    if got != want:
                        s.fail(dict(rec, observed=str(got), required=str(want)))
                        continue
                    if rng.random() < 0.2:
                        # closing and opening the connection again is no session change: the timing in force stays
                        client.close(); client.open()
                        t = client.get_session_timing()
                        if (t.p2_server_max, t.p2_star_server_max) != want:
                            s.fail(dict(rec, observed='after close() / open(): %s' % ((t.p2_server_max, t.p2_star_server_max),), required=str(want)))
                            continue
                    # next request waits the adopted P2, then P2* after a 0x78
                    conn.script = [(0, b'\x7f\x3e\x78')]
                    conn.log = []
                    cl.observe_outer(conn, lambda: client.tester_present())
                    waits = [o[2] * cl.TICK for o in conn.log if o[0] == 'wait']
                    w0 = a / 1000 if adopt else 1024 * cl.TICK
                    w1 = b * 10 / 1000 if adopt else 5120 * cl.TICK
                    if len(waits) != 2 or abs(waits[0] - w0) > 1e-9 or abs(waits[1] - w1) > 1e-9:
                        s.fail(dict(rec, observed='waits %s' % waits, required='waits [%s, %s]' % (w0, w1)))
                    s.count(kind + ':' + verdict.split(':')[0])
    # a client that does not mention use_server_timing behaves as the documented default says
    dd = cl.documented_defaults()
    if isinstance(dd.get('use_server_timing'), bool):
        from udsoncan.client import Client
        conn = cl.stub.StubConn(cl.CLOCK)
        client = Client(conn, config={'standard_version': 2020})
        conn.opened = True
        conn.script = [(1, bytes([0x50, 3]) + struct.pack('>HH', 50, 20))]
        cl.observe_outer(conn, lambda: client.change_session(3))
        t = client.get_session_timing()
        got = (t.p2_server_max, t.p2_star_server_max)
        want = (0.05, 0.2) if dd['use_server_timing'] else (None, None)
        s.evaluations += 1
        if got != want:
            s.fail({'site': 'change_session', 'input': 'client configured with standard_version only; reply 50 03 00 32 00 14', 'observed': str(got),
                    'required': '%s (documented default use_server_timing = %s)' % (want, dd['use_server_timing'])})
    s.sample({'a': pairs[20][0], 'b': pairs[20][1]})
    return s


def suite_two_clients(ctx):
    """a second client object in the same process (inside a suppress block, a payload override, with adopted timing, reconfigured, after a failed call) never shows
    in this client's frames, waits or outcome: the C15 two_clients suite, run here as well"""
    from . import c15
    return c15.suite_two_clients(ctx)


def suite_reentrant(ctx):
    """the pending-response callback uses the client it belongs to: the request in flight goes on as if the callback had done nothing (frames, outcome, instant,
    adopted timing) - harness/reentrant.py"""
    from .. import reentrant
    return reentrant.suite_reentrant(ctx)


SUITES = [suite_hist, suite_pairs, suite_two_clients, suite_reentrant]
