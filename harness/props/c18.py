"""C18 — features of a later ISO-14229 edition are refused under an earlier edition."""
from .. import core, extract
from ..core import Suite

LEAN_TARGETS = ['Uds.Props.C18', 'Uds.Tie.Editions', 'Uds.Tie.Groups']
ASSUMPTIONS = [
    'editions of features as the property and the code comments state them: 2020 for the eight ReadDTCInformation subfunctions and for MemorySelection on '
    'ClearDiagnosticInformation; 2013 for nodeIdentificationNumber and for the timing bytes of the session-change reply',
]
RULE = ('exhaustive: the service-level matrix is extracted from the running code and compared by the kernel (Tie.Editions); at client level every (edition, ReadDTCInformation '
        'subfunction 0..0xFF), (edition, control type 0..0x7F, node id given or not), (edition, memory selection), (edition, reply length 0..8) is run on the real client and '
        'checked for "refused before anything is sent" / "demanded"; configuration histories (construction + set_config / set_configs with valid and invalid editions). '
        'distinct = distinct (edition, feature) cells / history lines')


def generate(ctx):
    extract.generate(['Editions', 'Groups'])


ALL_PARAMS = dict(status_mask=0x0F, severity_mask=0x20, dtc=0x123456, snapshot_record_number=1, extended_data_record_number=2,
                  extended_data_size=1, memory_selection=3, functional_group_id=0x33)
ONLY2020 = {0x16, 0x17, 0x18, 0x19, 0x1A, 0x42, 0x55, 0x56}
DEFINED = set(range(1, 0x1B)) | {0x42, 0x55, 0x56}      # ISO 14229-1:2020 ReadDTCInformation subfunctions the library defines


def suite_matrix(ctx):
    from .. import clientlib as cl
    s = Suite('matrix')
    s.exhaustive = True

    def run(std, fn, reply=None, extra=None):
        client, conn = cl.make_client(cl.Cfg(std=std), extra=dict({'data_identifiers': {}, 'extended_data_size': 1}, **(extra or {})))
        if reply is not None:
            conn.script = [(1, reply)]
        how, verdict, flags, payload, exc, r = cl.observe_outer(conn, lambda: fn(client))
        sends = [o[1] for o in conn.log if o[0] == 'send']
        touched = bool(conn.log)
        return verdict, sends, touched
    for std in (2006, 2013, 2020):
        for sf in range(0, 0x100):
            verdict, sends, touched = run(std, lambda c: c.read_dtc_information(sf, **ALL_PARAMS))
            s.evaluations += 1
            s.distinct.add('dtc:%d:%d' % (std, sf))
            rec = {'site': 'read_dtc_information', 'edition': std, 'subfunction': sf, 'input': 'std=%d sf=0x%02x' % (std, sf)}
            if sf in ONLY2020 and std < 2020:
                if verdict != 'other:notimpl' or touched:
                    s.fail(dict(rec, observed='%s, connection touched=%s' % (verdict, touched), required='refused (NotImplementedError) before anything is sent'))
            elif sf not in DEFINED:
                if touched:
                    s.fail(dict(rec, observed='sent %s' % [x.hex() for x in sends], required='rejected'))
            elif not sends:
                s.fail(dict(rec, observed=verdict, required='request sent (feature exists in this edition)'))
        for ct in range(0x80):
            for node in (None, 0x1234):
                verdict, sends, touched = run(std, lambda c: c.communication_control(ct, 0x01, node), bytes([0x68, ct]))
                need = std >= 2013 and ct in (4, 5)
                s.evaluations += 1
                s.distinct.add('cc:%d:%d:%s' % (std, ct, node))
                rec = {'site': 'communication_control', 'edition': std, 'control_type': ct, 'node_id': node, 'input': 'std=%d ct=%d node=%s' % (std, ct, node)}
                if need != (node is not None):
                    if touched or verdict != 'other:ValueError':
                        s.fail(dict(rec, observed='%s touched=%s' % (verdict, touched), required='refused before anything is sent'))
                else:
                    want = bytes([0x28, ct, 0x01]) + (b'\x12\x34' if node is not None else b'')
                    if sends != [want]:
                        s.fail(dict(rec, observed=[x.hex() for x in sends], required=want.hex()))
        for ms in (None, 0, 7, 255):
            verdict, sends, touched = run(std, lambda c: c.clear_dtc(0x123456, ms), b'\x54')
            s.evaluations += 1
            s.distinct.add('clr:%d:%s' % (std, ms))
            rec = {'site': 'clear_dtc', 'edition': std, 'memory_selection': ms, 'input': 'std=%d ms=%s' % (std, ms)}
            if ms is not None and std < 2020:
                if touched or verdict != 'other:notimpl':
                    s.fail(dict(rec, observed='%s touched=%s' % (verdict, touched), required='refused (NotImplementedError) before anything is sent'))
            else:
                want = b'\x14\x12\x34\x56' + (bytes([ms]) if ms is not None else b'')
                if sends != [want]:
                    s.fail(dict(rec, observed=[x.hex() for x in sends], required=want.hex()))
        for n in range(0, 9):
            for ust in (True, False):       # the four timing bytes are demanded from 2013 on whether the client is going to use them or not
                reply = bytes([0x50] + ([3] + [0] * (n - 1) if n else []))
                verdict, sends, touched = run(std, lambda c: c.change_session(3), reply, extra={'use_server_timing': ust})
                s.evaluations += 1
                s.distinct.add('dsc:%d:%d:%s' % (std, n, ust))
                ok = (n == 5) if std >= 2013 else (n >= 1)
                if (verdict == 'ok') != ok:
                    s.fail({'site': 'change_session', 'edition': std, 'reply_len': n, 'use_server_timing': ust, 'input': reply.hex(), 'observed': verdict,
                            'required': 'accepted' if ok else 'invalid response'})
    s.sample({'edition': 2013, 'call': 'read_dtc_information(0x42)', 'required': 'NotImplementedError, nothing sent'})
    return s


def suite_config(ctx):
    from .. import clientlib as cl
    from udsoncan.client import Client
    from udsoncan.exceptions import ConfigError
    s = Suite('config')
    rng = ctx.rng
    cands = extract.EDITION_CANDIDATES
    # construction
    lines, impl = [], []
    for v in cands + [1999, 2012, 2016, 9999]:
        conn = cl.stub.StubConn(cl.CLOCK)
        try:
            c = Client(conn, config={'standard_version': v})
            got = 'ok:%d' % c.config['standard_version']
        except ConfigError:
            got = 'config'
        except Exception as e:  # noqa
            got = type(e).__name__
        lines.append('ed.init v=%d' % v)
        impl.append(got)
        if (got.startswith('ok')) != (v in (2006, 2013, 2020)):
            s.fail({'site': 'Client.__init__', 'input': v, 'observed': got, 'required': 'accepted iff 2006/2013/2020'})
    # histories of configuration changes
    for _ in range(ctx.n(300, 5000)):
        c0 = rng.choice([2006, 2013, 2020])
        changes = [rng.choice(cands) if rng.random() < 0.5 else rng.choice([2006, 2013, 2020]) for _ in range(rng.randrange(1, ctx.n(6, 30)))]
        conn = cl.stub.StubConn(cl.CLOCK)
        if rng.random() < 0.3:
            # the edition comes from a direct assignment to the configuration dictionary (the style of the documentation's examples), not from the constructor
            c = Client(conn, config={'standard_version': rng.choice([2006, 2013, 2020])})
            c.config['standard_version'] = c0
        else:
            c = Client(conn, config={'standard_version': c0})
        outs = []
        for i, v in enumerate(changes):
            raised = False
            before = c.config['standard_version']
            try:
                if rng.random() < 0.5:
                    c.set_config('standard_version', v)
                else:
                    c.set_configs({'standard_version': v, 'p2_timeout': 2})
            except ConfigError:
                raised = True
            stored = c.config['standard_version']
            outs.append('%d:%s' % (stored, '1' if raised else '0'))
            if stored not in (2006, 2013, 2020):
                s.fail({'site': 'set_config', 'input': 'start=%d changes=%s' % (c0, changes[:i + 1]), 'value': v, 'observed': 'edition in force %d (raised=%s)' % (stored, raised),
                        'required': 'edition in force is always 2006, 2013 or 2020'})
                break
            if raised and stored != before:
                s.fail({'site': 'set_config', 'input': 'start=%d changes=%s' % (c0, changes[:i + 1]), 'value': v, 'observed': 'after the refused change the edition in force is %d' % stored,
                        'required': 'the edition that was in force before the refused change: %d' % before})
                break
            if (v not in (2006, 2013, 2020)) != raised:
                s.fail({'site': 'set_config', 'input': 'start=%d changes=%s' % (c0, changes[:i + 1]), 'value': v, 'observed': 'raised=%s' % raised, 'required': 'raises iff invalid'})
        else:
            lines.append('ed.hist c=%d changes=%s' % (c0, ','.join(str(x) for x in changes)))
            impl.append('%d %s' % (c.config['standard_version'], ','.join(outs)))
    # the edition a client enforces when the caller does not say: the documented default
    dd = cl.documented_defaults()
    if 'standard_version' in dd:
        c = Client(cl.stub.StubConn(cl.CLOCK))
        s.evaluations += 1
        if c.config['standard_version'] != dd['standard_version']:
            s.fail({'site': 'Client.__init__', 'input': 'no configuration given', 'observed': 'standard_version %r' % (c.config['standard_version'],),
                    'required': 'the documented default %r' % (dd['standard_version'],)})
    # values that are not one of the three integers: texts, floats, bytes, booleans, containers (accepted: nothing but 2006 / 2013 / 2020, and what equals them)
    odd = ['2013', ' 2013 ', '2020', b'2020', 2006.5, 2013.5, 2020.9, None, True, False, [2013], (2020,), {2013}, 2013.000001, -2013, '2013.0']
    for v in odd:
        for how in ('init', 'set_config', 'set_configs', 'item'):
            conn = cl.stub.StubConn(cl.CLOCK)
            raised = False
            try:
                if how == 'init':
                    c = Client(conn, config={'standard_version': v})
                else:
                    c = Client(conn, config={'standard_version': 2013})
                    if how == 'set_config':
                        c.set_config('standard_version', v)
                    elif how == 'set_configs':
                        c.set_configs({'standard_version': v})
                    else:
                        continue
            except ConfigError:
                raised = True
            except Exception as e:  # noqa
                raised = True
            s.evaluations += 1
            s.distinct.add('odd %r %s' % (v, how))
            if not raised:
                s.fail({'site': 'Client.' + ('__init__' if how == 'init' else how), 'input': repr(v), 'observed': 'accepted; edition in force %r' % (c.config['standard_version'],),
                        'required': 'refused: only 2006, 2013 and 2020 are editions'})
            elif how != 'init' and c.config['standard_version'] != 2013:
                s.fail({'site': 'Client.' + how, 'input': repr(v), 'observed': 'edition in force %r after the refusal' % (c.config['standard_version'],), 'required': '2013 (unchanged)'})
    # a change of several keys is applied completely or not at all, wherever the edition stands among the keys
    def iv(x):
        return int(x) if not isinstance(x, bool) else (1 if x else 0)
    for _ in range(ctx.n(200, 3000)):
        conn = cl.stub.StubConn(cl.CLOCK)
        c = Client(conn, config={'standard_version': rng.choice([2006, 2013, 2020]), 'p2_timeout': 1, 'p2_star_timeout': 5, 'request_timeout': 8})
        before = dict(c.config)
        keys = [('p2_timeout', 3), ('p2_star_timeout', 7), ('request_timeout', 9), ('tolerate_zero_padding', not c.config['tolerate_zero_padding']),
                ('use_server_timing', not c.config['use_server_timing']), ('exception_on_negative_response', not c.config['exception_on_negative_response'])]
        rng.shuffle(keys)
        keys = keys[:rng.randrange(1, 5)]
        ed = rng.choice([2012, 0, 2021, 2007, 2006, 2013, 2020])
        pos = rng.randrange(len(keys) + 1)
        items = keys[:pos] + [('standard_version', ed)] + keys[pos:]
        if rng.random() < 0.2:
            items = keys                                     # the edition is not mentioned: the current one stays
        raised = False
        try:
            c.set_configs(dict(items))
        except ConfigError:
            raised = True
        s.evaluations += 1
        names = sorted(set(k for k, _ in items) | {'standard_version'})
        line = 'ed.cfgs c=%s d=%s' % (','.join('%s:%d' % (k, iv(before[k])) for k in names), ','.join('%s:%d' % (k, iv(v)) for k, v in items))
        lines.append(line)
        impl.append('raised=%s %s' % (core.b01(raised), ','.join('%s:%d' % (k, iv(c.config[k])) for k in names)))
        s.distinct.add(line)
        changed = {k: c.config[k] for k in before if c.config.get(k) != before[k]}
        valid = dict(items).get('standard_version', before['standard_version']) in (2006, 2013, 2020)
        if not valid and (not raised or changed):
            s.fail({'site': 'Client.set_configs', 'input': 'set_configs(%s)' % ', '.join('%s=%r' % kv for kv in items), 'observed': 'raised=%s, keys changed: %s' % (raised, changed),
                    'required': 'ConfigError and the previous configuration in force for every key'})
        if valid and (raised or any(c.config[k] != v for k, v in items)):
            s.fail({'site': 'Client.set_configs', 'input': 'set_configs(%s)' % ', '.join('%s=%r' % kv for kv in items), 'observed': 'raised=%s, config %s' % (raised, {k: c.config[k] for k, _ in items}),
                    'required': 'accepted, every key of the call in force'})
    core.compare(s, lines, core.drv_batch(lines), impl)
    s.sample({'line': lines[-1], 'impl': impl[-1]})
    return s


SUITES = [suite_matrix, suite_config]
