"""C07 — out-of-domain arguments are rejected before sending; nothing silently truncated."""
import inspect
import typing

from .. import core, extract
from ..core import Suite
from . import c01

LEAN_TARGETS = ['Uds.Props.C07', 'Uds.Tie.Tables', 'Uds.Tie.Groups', 'Uds.Tie.Bounds']
ASSUMPTIONS = [
    'documented domain = the parameter descriptions of the client / service docstrings and helper classes, transcribed per call kind in harness/enclib.py (in_domain) and in Uds/Props/C07.lean; '
    'bool counts as int (Python typing)',
    'a parameter the chosen ReadDTCInformation sub-function / Authentication task does not take is out of domain (property text: "missing or superfluous")',
]
RULE = ('enc suite as C01 with the out-of-domain stream in focus: every integer at min-1 / max+1 / far outside, missing and superfluous parameters, identifiers without codec, values that do not fit '
        'their codec / width, invalid helper objects; required: nothing is sent and the connection is not touched; and every in-domain call is transmitted (the accepted domain is exactly the '
        'documented one). types suite: every int-annotated parameter of every public client method replaced by float / str / bytes / list / None (where not optional). '
        'distinct = distinct call lines; non-trivial = out-of-domain calls')


def generate(ctx):
    extract.generate(['Tables', 'Groups', 'Bounds'])


def suite_enc(ctx):
    return c01.suite_enc(ctx, focus='C07')


def suite_types(ctx):
    from .. import clientlib as cl, entries
    from udsoncan.client import Client
    s = Suite('types')
    bad_values = [1.5, '1', b'\x01', [1], object()]
    for call in entries.default_calls():
        fn = getattr(Client, call.name)
        sig = inspect.signature(fn)
        params = list(sig.parameters.values())[1:]
        args, kwargs = call.fresh_args()
        for i, p in enumerate(params):
            ann = p.annotation
            is_int = ann is int
            is_opt_int = ann == typing.Optional[int]
            if not (is_int or is_opt_int):
                continue
            if i >= len(args):
                continue
            if call.name in ('read_data_by_identifier', 'read_data_by_identifier_first', 'test_data_identifier') and p.name == 'didlist':
                continue
            for bv in bad_values + ([None] if is_int and p.default is inspect.Parameter.empty else []):
                if bv == [1] and p.name == 'didlist':
                    continue
                a2, k2 = call.fresh_args()
                a2 = list(a2)
                a2[i] = bv
                client, conn = cl.make_client(cl.Cfg(rt=4, p2=2, p2s=2), extra=call.config())
                how, verdict, flags, payload, exc, r = cl.observe_outer(conn, lambda: getattr(client, call.name)(*a2, **k2))
                s.evaluations += 1
                s.distinct.add('%s:%s:%s' % (call.name, p.name, type(bv).__name__))
                if conn.log:
                    sends = [o[1].hex() for o in conn.log if o[0] == 'send']
                    cls = 'decode-side size parameter' if p.name in ('data_size', 'extended_data_size') else 'wrong type'
                    s.fail({'site': call.name, 'input': '%s=%r' % (p.name, bv), 'class': cls, 'observed': 'connection touched, sent %s' % sends,
                            'required': 'rejected before anything is sent'})
                s.count(type(bv).__name__)
    # the numbers of a MemoryLocation: anything that is not an integer (a float, integral or not, a Decimal, a Fraction, a numeric string, bytes) is out of
    # the domain - refused by the constructor or by the call, never converted to some integer and sent
    import decimal
    import fractions
    from udsoncan import MemoryLocation, DynamicDidDefinition
    odd = [4660.75, 4660.0, decimal.Decimal('4660.9'), decimal.Decimal(4660), fractions.Fraction(9321, 2), '4660', b'\x12\x34', [4660], None]
    kinds = [('read_memory_by_address', lambda c, m: c.read_memory_by_address(m)), ('write_memory_by_address', lambda c, m: c.write_memory_by_address(m, b'\x01\x02\x03\x04')),
             ('request_download', lambda c, m: c.request_download(m)), ('request_upload', lambda c, m: c.request_upload(m)),
             ('dynamically_define_did', lambda c, m: c.dynamically_define_did(0xF200, m))]
    for name, fn in kinds:
        for which in ('address', 'memorysize'):
            for bv in odd:
                for formats in ((None, None), (16, 8)):
                    client, conn = cl.make_client(cl.Cfg(rt=4, p2=2, p2s=2))

                    def go():
                        m = MemoryLocation(bv, 4, *formats) if which == 'address' else MemoryLocation(0x1234, bv, *formats)
                        return fn(client, m)
                    cl.observe_outer(conn, go)
                    s.evaluations += 1
                    s.distinct.add('%s:MemoryLocation.%s:%s' % (name, which, type(bv).__name__))
                    s.count('MemoryLocation ' + type(bv).__name__)
                    if conn.log:
                        s.fail({'site': name, 'input': 'MemoryLocation(%s=%r, formats %s)' % (which, bv, formats), 'class': 'wrong type',
                                'observed': 'connection touched, sent %s' % [o[1].hex() for o in conn.log if o[0] == 'send'], 'required': 'rejected before anything is sent'})
    # byte strings given as another bytes-like object: refused, or taken for exactly the bytes it holds - what is sent for x is what is sent for bytes(x), and
    # what is refused as bytes is refused as any other spelling of the same bytes (a view whose len() is not its byte count included)
    import array
    for call in entries.default_calls():
        sig = inspect.signature(getattr(Client, call.name))
        params = list(sig.parameters.values())[1:]
        args, kwargs = call.fresh_args()
        for i, p in enumerate(params):
            if p.annotation not in (bytes, typing.Optional[bytes]):
                continue
            given = args[i] if i < len(args) else kwargs.get(p.name)
            if not isinstance(given, bytes):
                continue
            even = given if len(given) % 2 == 0 else given + b'\x00'
            spellings = [('bytearray', bytearray(given)), ('memoryview', memoryview(given)), ('memoryview of 16-bit items', memoryview(array.array('H', even))),
                         ('memoryview of 0x8000 16-bit items', memoryview(array.array('H', [0x4142] * 0x8000)))]
            for label, x in spellings:
                outs = []
                for val in (bytes(x), x):
                    a2, k2 = call.fresh_args()
                    a2 = list(a2)
                    if i < len(a2):
                        a2[i] = val
                    else:
                        k2[p.name] = val
                    client, conn = cl.make_client(cl.Cfg(rt=4, p2=2, p2s=2), extra=call.config())
                    cl.observe_outer(conn, lambda: getattr(client, call.name)(*a2, **k2))
                    outs.append([o[1] for o in conn.log if o[0] == 'send'])
                s.evaluations += 1
                s.distinct.add('%s:%s:%s' % (call.name, p.name, label))
                s.count('bytes-like: ' + label)
                if outs[1] and outs[1] != outs[0]:
                    s.fail({'site': call.name, 'input': '%s given as %s holding %d bytes' % (p.name, label, len(bytes(x))), 'class': 'bytes-like argument',
                            'observed': 'sent %s' % outs[1][0].hex()[:80], 'required': ('what the same bytes give: ' + outs[0][0].hex()[:80]) if outs[0] else 'refused, as the same bytes are (nothing sent)'})
    return s


def suite_ddd_widths(ctx):
    """dynamic definitions by memory address whose entries disagree on the widths, or whose values do not fit them, send nothing (the C14 suite, run here for its refusal half)"""
    from . import c14
    s = c14.suite_ddd(ctx)
    s.name = 'ddd_widths'
    return s


def suite_codec_refusals(ctx):
    """the library's own codecs refuse what they cannot transmit as it is (out-of-range integers, non-ASCII or wrong-length texts): the C12 codec suite, run here for its refusal half"""
    from . import c12
    s = c12.suite_codec(ctx)
    s.name = 'codec_refusals'
    return s


def suite_mem_reuse(ctx):
    """memory-addressed requests incl. MemoryLocation objects used again (re-pointed, after a refusal, under another configuration): a value that does not fit the
    widths in force is refused and nothing is sent, a value that fits is transmitted untruncated (the C14 memloc suite, run here for its refusal half)"""
    from . import c14
    s = c14.suite_memloc(ctx)
    s.name = 'mem_reuse'
    return s


def suite_reassigned(ctx):
    """argument objects whose public attribute was assigned anew after construction (the helper classes are plain mutable objects): the call validates what it
    is about to transmit - an out-of-domain value is refused and nothing is sent, an in-domain value gives the frame of a freshly built object"""
    from .. import clientlib as cl, enclib, hist
    from udsoncan import Baudrate
    s = Suite('reassigned')
    rng = ctx.rng
    types = {'f': Baudrate.Type.Fixed, 's': Baudrate.Type.Specific, 'i': Baudrate.Type.Identifier}
    start = {'f': 9600, 's': 123456, 'i': 0x12}
    values = [0, 1, 0x12, 0x13, 0xFF, 0x100, 9600, 500000, 123456, 0xFFFFFF, 0x1000000, 0x1123456, -1]
    for ty in ('f', 's', 'i'):
        for ct in (1, 2):
            for v in values:
                obj = Baudrate(start[ty], types[ty])
                try:
                    obj.baudrate = v
                except Exception:  # noqa   (an object that refuses the assignment has refused the value)
                    s.count('assignment-refused')
                    continue
                client, conn = cl.make_client(cl.Cfg(rt=4, p2=2, p2s=2))
                how, verdict, flags, payload, exc, r = cl.observe_outer(conn, lambda: client.link_control(ct, obj))
                sends = [o[1] for o in conn.log if o[0] == 'send']
                # "nothing silently truncated": whatever is sent carries exactly the rate the object holds now (an identifier stands for its standard
                # rate); a rate the frame cannot carry must be refused.  (Whether an object in this state is accepted at all is left open.)
                s.evaluations += 1
                s.distinct.add('lc:%s:%d:%d' % (ty, ct, v))
                rec = {'site': 'link_control', 'input': 'Baudrate(%d, %s) then .baudrate = %d; link_control(%d, obj)' % (start[ty], ty, v, ct)}
                rate = enclib.BAUD_BY_ID.get(v) if ty == 'i' else v
                if ct == 2:
                    carry = bytes([0x87, 2]) + rate.to_bytes(3, 'big') if rate is not None and 0 <= rate <= 0xFFFFFF else None
                else:
                    ident = v if ty == 'i' else {r_: i_ for i_, r_ in enclib.BAUD_BY_ID.items()}.get(v)
                    carry = bytes([0x87, 1, ident]) if ident is not None and 0 <= ident <= 0xFF else None
                s.count('representable' if carry else 'not-representable')
                if sends and sends != [carry]:
                    s.fail(dict(rec, observed='sent ' + sends[0].hex(), required=('exactly ' + carry.hex() + ' or a refusal') if carry else 'rejected before anything is sent: the frame cannot carry this rate'))
    s.exhaustive = True
    return s


SUITES = [suite_enc, suite_types, suite_ddd_widths, suite_codec_refusals, suite_mem_reuse, suite_reassigned]
