"""C02 — well-formed positive responses decode to exactly the values the server encoded."""
from .. import core, extract
from ..core import Suite

LEAN_TARGETS = ['Uds.Props.C02', 'Uds.Props.C02Call', 'Uds.Props.C02Hist', 'Uds.Tie.Groups']
ASSUMPTIONS = [
    'ISO 14229-1:2020 positive-response layouts as written in harness/declib.py (reference encoder in Python) and Uds/Spec/Response.lean (reference encoder in Lean)',
    'DID / IO codecs: decode is user code, modelled as the identity on the raw bytes; dumps compare the raw bytes',
    'DTC severity: the library keeps the three severity bits (7-5) of the severity byte; the class bits are not part of the property',
]
RULE = ('valid suite: for every family of client calls (simple services, Read/WriteDataByIdentifier, DynamicallyDefineDataIdentifier, ReadMemoryByAddress, RequestDownload/Upload, IO control, '
        'RequestFileTransfer, Authentication, all ReadDTCInformation response groups) random semantic reply values at field minima / maxima (8-byte fields with bit 63 set, 0..N records, DID '
        'sizes 1..8, extended-data sizes incl. per-DTC dict) are encoded by the reference encoder and fed to the real client; the decoded data must equal the semantic value, and the Lean '
        'model must decode the same bytes to the same dump. distinct = distinct (call line, reply); non-trivial = all')



def generate(ctx):
    from .. import extract
    extract.generate(['Groups'])

def suite_valid(ctx):
    from .. import declib
    s = Suite('valid')
    rng = ctx.rng
    lines, impl = [], []
    per = ctx.n(250, 6000)
    for name, gen in declib.GENERATORS:
        for c in gen(rng, per if name != 'dtc' else per * 4):
            got = declib.run_reply(c, c.good)
            line = '%s d=%s' % (c.dline, core.hx(c.good))
            lines.append(line)
            impl.append(got)
            s.count('%s:%s' % (name, got.split(' ')[0]))
            if name == 'dtc':
                s.count('dtc-group:' + c.group)
            if got != 'ok ' + c.expect:
                s.fail({'site': c.site, 'input': line, 'generator': name, 'observed': got, 'required': 'ok ' + c.expect})
                continue
            if rng.random() < 0.3:
                # decode, let the caller edit what it was given, decode the same reply again (same client / a new one)
                same = rng.random() < 0.5
                got2 = declib.run_reply_again(c, c.good, same)
                s.evaluations += 1
                s.count('again:' + ('same-client' if same else 'new-client'))
                if got2 is not None and got2 != 'ok ' + c.expect:
                    s.fail({'site': c.site, 'input': line, 'generator': name, 'class': 'second decode after the first result was edited (%s)' % ('same client' if same else 'new client'),
                            'observed': got2, 'required': 'ok ' + c.expect})
            if name == 'rdbi' and c.expect != 'rdbi -':
                # the composite read_data_by_identifier_first hands back the value of the first identifier asked for
                import copy
                from .. import declib as _d
                ids = [int(x) for x in c.dline.split('dids=')[1].split()[0].split(',')]
                c1 = copy.copy(c)
                c1.invoke = lambda cl_, ids=ids: cl_.read_data_by_identifier_first(list(ids))
                c1.dump = lambda v, ids=ids: 'first %d=%s' % (ids[0], _d.bh(_d.raw(v)) if v is not None else 'None')
                got1 = declib.run_reply(c1, c.good)
                want1 = 'ok first ' + c.expect[len('rdbi '):].split(',')[0]
                s.count('rdbi-first:' + got1.split(' ')[0])
                if got1 != want1:
                    s.fail({'site': 'read_data_by_identifier_first', 'input': line, 'generator': name, 'observed': got1, 'required': want1})
                # ... also when the server lists the records in another order than they were asked for (the client accepts that: it compares sets)
                recs = c.expect[len('rdbi '):].split(',')
                if len(ids) >= 2 and len(set(ids)) == len(ids) and len(recs) == len(ids) and all((_d.DIDS.get(i_) or ('x', 1))[1] is not None for i_ in ids):
                    parts = []
                    for r_ in recs:
                        d_, v_ = r_.split('=')
                        parts.append(int(d_).to_bytes(2, 'big') + (bytes.fromhex(v_) if v_ != '-' else b''))
                    rev = b''.join(reversed(parts))
                    if rev != c.good:
                        got2 = declib.run_reply(c1, rev)
                        s.evaluations += 1
                        s.count('rdbi-first-reordered:' + got2.split(' ')[0])
                        if got2.startswith('ok') and got2 != want1:
                            s.fail({'site': 'read_data_by_identifier_first', 'input': line + ' (records sent in reverse order)', 'generator': name, 'observed': got2, 'required': want1})
    core.compare(s, lines, core.drv_batch(lines), impl)
    for i in (0, len(lines) // 2, len(lines) - 1):
        s.sample({'line': lines[i], 'impl': impl[i]})
    return s


def suite_callw(ctx):
    """whole client calls of every service family against the model's callWith (udsdrv callw): the correspondence the call-level theorems rest on"""
    from .. import callw
    return callw.suite_callw(ctx, 'C02')


SUITES = [suite_valid, suite_callw]
