"""C14 — memory address/size widths: explicit, else configured, else smallest; lossless."""
from .. import core, extract
from ..core import Suite, hx

LEAN_TARGETS = ['Uds.Props.C14', 'Uds.Props.C14Reuse', 'Uds.Tie.Codecs']
ASSUMPTIONS = [
    'ISO 14229-1 Annex H: bits 7-4 of addressAndLengthFormatIdentifier = number of memorySize bytes, bits 3-0 = number of memoryAddress bytes; both unsigned big-endian',
    'documented widths are 8..64 bits in steps of 8; a value is in domain iff 0 <= v < 2**width for the width that will be transmitted',
]
RULE = ('each case = (kind of request, address, size, explicit formats, configured server formats) run through the real client on a recording connection and '
        'through udsdrv (Model.MemLoc); boundary classes: every byte-width boundary 2^(8k)-1 / 2^(8k), 0, 2^63-1, 2^63, 2^64-1, 2^64, -1, formats None / the eight widths / '
        'invalid (0, 12, 72). P_spec on the implementation: an independent Annex-H decode of the sent frame gives the widths of the precedence rule and the caller\'s numbers; '
        'out-of-domain input sends nothing; echo decoding accepted iff it is the echo. distinct = distinct input tuples; non-trivial = a frame was sent or the rejection was '
        'decided after construction')

VALUES = sorted(set([0, 1, 0x7F, 0x80] + [2 ** (8 * k) - 1 for k in range(1, 9)] + [2 ** (8 * k) for k in range(1, 9)] + [2 ** 63 - 1, 2 ** 63, 2 ** 64 + 1, -1, -256]))
FORMATS = [None, 8, 16, 24, 32, 40, 48, 56, 64, 0, 12, 72]
VALID = (8, 16, 24, 32, 40, 48, 56, 64)
KINDS = ['read', 'write', 'download', 'upload']


def generate(ctx):
    extract.generate(['Codecs'])


def oi(x):
    return '-' if x is None else str(x)


def smallest(v):
    return max(1, (v.bit_length() + 7) // 8) * 8


def expected_widths(a, s, af, mf, caf, cmf):
    """the precedence rule of the property, written independently; None if the call is out of domain"""
    def res(v, e, c):
        if e is not None:
            return e
        if v < 0 or v >= 2 ** 64:     # construction needs the automatic width first
            return None
        if c is not None:
            return c
        return smallest(v)
    wa, ws = res(a, af, caf), res(s, mf, cmf)
    if wa not in VALID or ws not in VALID:
        return None
    if not (0 <= a < 2 ** wa) or not (0 <= s < 2 ** ws):
        return None
    return wa, ws


def iso_decode(frame, skip):
    """Annex-H decode of frame[skip:] -> (addr_len, size_len, address, size, rest)"""
    f = frame[skip]
    al, sl = f & 0xF, f >> 4
    body = frame[skip + 1:]
    if al == 0 or sl == 0 or len(body) < al + sl:
        return None
    return al, sl, int.from_bytes(body[:al], 'big'), int.from_bytes(body[al:al + sl], 'big'), body[al + sl:]


def run_case(cl, kind, a, s, af, mf, caf, cmf, data, dfi, reply=None):
    """returns (driver-format observation, frames, memory location object or None, verdict)"""
    from udsoncan import MemoryLocation, DataFormatIdentifier
    client, conn = cl.make_client(cl.Cfg(rt=4, p2=2, p2s=2), extra={'server_address_format': caf, 'server_memorysize_format': cmf})
    try:
        ml = MemoryLocation(a, s, af, mf)
    except Exception:  # noqa
        return 'reject', [], None, 'ctor'
    # how the object reaches the call: as built, or as a copy / deep copy / unpickled copy of what was built (an application that keeps its memory map in a
    # template, a work queue, a file).  A copy stands for the same address, size and requested widths as its original.
    import copy
    import pickle
    way = (a + s + (af or 0) + (mf or 0) + (caf or 0) * 3 + (cmf or 0)) % 4
    ml = (lambda x: x, copy.copy, copy.deepcopy, lambda x: pickle.loads(pickle.dumps(x)))[way](ml)
    if reply is not None:
        conn.script = [(1, reply)]

    def call():
        if kind == 'read':
            return client.read_memory_by_address(ml)
        if kind == 'write':
            return client.write_memory_by_address(ml, data)
        if kind == 'download':
            return client.request_download(ml, DataFormatIdentifier(dfi >> 4, dfi & 0xF))
        return client.request_upload(ml, DataFormatIdentifier(dfi >> 4, dfi & 0xF))
    how, verdict, flags, payload, exc, r = cl.observe_outer(conn, call)
    sends = [o[1] for o in conn.log if o[0] == 'send']
    obj = 'af=%s mf=%s' % (oi(ml.address_format), oi(ml.memorysize_format))
    if not sends:
        return 'reject ' + obj, sends, ml, verdict
    return 'sent:%s %s' % (sends[0].hex(), obj), sends, ml, verdict


def suite_memloc(ctx):
    from .. import clientlib as cl
    s = Suite('memloc')
    rng = ctx.rng
    cases = []
    # every value x explicit format x configured format, for the address and (symmetrically) the size
    for v in VALUES:
        for e in FORMATS:
            for c in FORMATS:
                other = rng.choice([0, 1, 0x1234, 2 ** 32, 2 ** 64 - 1])
                oe, oc = rng.choice(FORMATS[:9]), rng.choice(FORMATS[:9])
                if oe is None and oc is None and rng.random() < 0.5:
                    pass
                elif oe is not None and other >= 2 ** oe:
                    oe = 64
                elif oe is None and oc is not None and other >= 2 ** oc:
                    oc = 64
                k = rng.choice(KINDS)
                cases.append((k, v, other, e, oe, c, oc))
                cases.append((k, other, v, oe, e, oc, c))
    for _ in range(ctx.n(1500, 40000)):
        bits = rng.choice([0, 1, 7, 8, 9, 15, 16, 17, 31, 32, 33, 39, 40, 41, 47, 48, 55, 56, 57, 63, 64])
        a = rng.getrandbits(bits) if bits else 0
        bits = rng.choice([0, 1, 8, 9, 16, 24, 32, 33, 40, 48, 56, 63, 64])
        z = rng.getrandbits(bits) if bits else 0
        cases.append((rng.choice(KINDS), a, z, rng.choice(FORMATS[:9]), rng.choice(FORMATS[:9]), rng.choice(FORMATS[:9]), rng.choice(FORMATS[:9])))
    lines, impl = [], []
    for (k, a, z, af, mf, caf, cmf) in cases:
        data = bytes(rng.randrange(256) for _ in range(rng.randrange(0, 4))) if k == 'write' else b''
        dfi = rng.randrange(256)
        line = 'ml.req kind=%s a=%d s=%d af=%s mf=%s caf=%s cmf=%s data=%s dfi=%d' % (k, a, z, oi(af), oi(mf), oi(caf), oi(cmf), hx(data), dfi)
        obs, sends, ml, verdict = run_case(cl, k, a, z, af, mf, caf, cmf, data, dfi)
        lines.append(line)
        impl.append(obs)
        s.count('sent' if sends else 'reject')
        s.count('kind:' + k)
        # ---- P_spec on the implementation
        rec = {'site': k, 'input': line, 'address': a, 'size': z, 'address_format': af, 'memorysize_format': mf, 'server_address_format': caf, 'server_memorysize_format': cmf}
        exp = expected_widths(a, z, af, mf, caf, cmf)
        if len(sends) > 1:
            s.fail(dict(rec, observed='%d frames' % len(sends), required='one frame'))
        if exp is None:
            if sends:
                s.fail(dict(rec, observed='sent ' + sends[0].hex(), required='out of domain: rejected, nothing sent'))
        else:
            if not sends:
                s.fail(dict(rec, observed='rejected (%s)' % verdict, required='in domain: transmitted with widths %s' % (exp,)))
            else:
                f = sends[0]
                skip = {'read': 1, 'write': 1, 'download': 2, 'upload': 2}[k]
                sid = {'read': 0x23, 'write': 0x3D, 'download': 0x34, 'upload': 0x35}[k]
                dec = iso_decode(f, skip)
                want = (exp[0] // 8, exp[1] // 8, a, z, data)
                if f[0] != sid or (skip == 2 and f[1] != dfi) or dec != want:
                    s.fail(dict(rec, observed='frame %s decodes to %s' % (f.hex(), dec), required='sid %02x, widths/values/rest %s' % (sid, want)))
    # a request refused because of an unusable configured format must leave the caller's MemoryLocation as it was:
    # the same object, used again under a corrected configuration, follows the precedence rule
    from udsoncan import MemoryLocation
    for _ in range(ctx.n(300, 6000)):
        a = rng.choice([0, 0x12, 0x1234, 0x123456, 2 ** 32])
        z = rng.choice([1, 0x100, 0x10000])
        bad = rng.choice([0, 12, 72, 7])
        if rng.random() < 0.5:      # the configured address format is unusable and would be applied (no explicit address format)
            af, mf = None, rng.choice([None, 24, 64])
            caf1, cmf1 = bad, rng.choice(FORMATS[:9])
            af_eff = af
        else:                       # the configured size format is unusable and would be applied; the address format was settled first
            af, mf = rng.choice([None, 32, 40]), None
            caf1, cmf1 = rng.choice([None, 32, 48]), bad
            af_eff = af if af is not None else caf1
        caf2, cmf2 = rng.choice(FORMATS[:9]), rng.choice(FORMATS[:9])
        k = rng.choice(KINDS)
        try:
            ml = MemoryLocation(a, z, af, mf)
        except Exception:  # noqa
            continue

        def call(client):
            if k == 'read':
                return client.read_memory_by_address(ml)
            if k == 'write':
                return client.write_memory_by_address(ml, b'\x01')
            return client.request_download(ml) if k == 'download' else client.request_upload(ml)
        c1, conn1 = cl.make_client(cl.Cfg(rt=4, p2=2, p2s=2), extra={'server_address_format': caf1, 'server_memorysize_format': cmf1})
        cl.observe_outer(conn1, lambda: call(c1))
        first_sent = [o for o in conn1.log if o[0] == 'send']
        c2, conn2 = cl.make_client(cl.Cfg(rt=4, p2=2, p2s=2), extra={'server_address_format': caf2, 'server_memorysize_format': cmf2})
        cl.observe_outer(conn2, lambda: call(c2))
        sends = [o[1] for o in conn2.log if o[0] == 'send']
        exp = expected_widths(a, z, af_eff, mf, caf2, cmf2)
        s.evaluations += 1
        rec = {'site': k + ' after a refused request', 'input': 'a=%d s=%d af=%s mf=%s refused under server formats (%s, %s), then retried under (%s, %s)' % (a, z, af, mf, caf1, cmf1, caf2, cmf2)}
        s.distinct.add(rec['input'])
        if first_sent:
            s.fail(dict(rec, observed='first call sent a frame', required='refused: unusable configured format'))
        elif exp is None:
            if sends:
                s.fail(dict(rec, observed='sent ' + sends[0].hex(), required='out of domain'))
        elif not sends:
            s.fail(dict(rec, observed='rejected', required='transmitted with widths %s' % (exp,)))
        else:
            dec = iso_decode(sends[0], {'read': 1, 'write': 1, 'download': 2, 'upload': 2}[k])
            if dec is None or dec[:4] != (exp[0] // 8, exp[1] // 8, a, z):
                s.fail(dict(rec, observed='frame %s decodes to %s' % (sends[0].hex(), dec), required='widths %s, address %d, size %d' % (exp, a, z)))
        s.count('reuse')
    # the caller re-points one MemoryLocation object (address / memorysize assigned anew) between two calls: the second request is sized for the new values
    for _ in range(ctx.n(300, 6000)):
        bits1, bits2 = rng.choice([1, 8, 9, 16, 17, 24, 32, 40, 64]), rng.choice([1, 8, 9, 16, 17, 24, 32, 40, 64])
        a1, a2 = rng.getrandbits(bits1), rng.getrandbits(bits2)
        z1, z2 = rng.getrandbits(rng.choice([1, 8, 9, 16, 32])), rng.getrandbits(rng.choice([1, 8, 9, 16, 32]))
        af, mf = rng.choice([(None, None), (None, None), (rng.choice(VALID), None), (None, rng.choice(VALID))])
        caf, cmf = rng.choice([(None, None), (None, None), (rng.choice(VALID), rng.choice(VALID))])
        k = rng.choice(KINDS)
        try:
            ml = MemoryLocation(a1, z1, af, mf)
        except Exception:  # noqa
            continue

        def call(client):
            if k == 'read':
                return client.read_memory_by_address(ml)
            if k == 'write':
                return client.write_memory_by_address(ml, b'\x01')
            return client.request_download(ml) if k == 'download' else client.request_upload(ml)
        c1, conn1 = cl.make_client(cl.Cfg(rt=4, p2=2, p2s=2), extra={'server_address_format': caf, 'server_memorysize_format': cmf})
        cl.observe_outer(conn1, lambda: call(c1))
        # formats the first call left on the object (a configured format is taken over; automatic sizing leaves None)
        af2, mf2 = ml.address_format, ml.memorysize_format
        ml.address, ml.memorysize = a2, z2
        conn1.log = []
        cl.observe_outer(conn1, lambda: call(c1))
        sends = [o[1] for o in conn1.log if o[0] == 'send']
        exp = expected_widths(a2, z2, af2, mf2, caf, cmf)
        s.evaluations += 1
        rec = {'site': k + ' with a re-pointed MemoryLocation', 'input': 'first a=%d s=%d af=%s mf=%s under server formats (%s, %s); then the same object with address=%d memorysize=%d' % (a1, z1, af, mf, caf, cmf, a2, z2)}
        s.distinct.add(rec['input'])
        if exp is None:
            if sends:
                s.fail(dict(rec, observed='sent ' + sends[0].hex(), required='out of domain: the new value does not fit the width in force'))
        elif not sends:
            s.fail(dict(rec, observed='rejected', required='transmitted with widths %s' % (exp,)))
        else:
            dec = iso_decode(sends[0], {'read': 1, 'write': 1, 'download': 2, 'upload': 2}[k])
            if dec is None or dec[:4] != (exp[0] // 8, exp[1] // 8, a2, z2):
                s.fail(dict(rec, observed='frame %s decodes to %s' % (sends[0].hex(), dec), required='widths %s, address %d, size %d' % (exp, a2, z2)))
        s.count('re-pointed')
    # one MemoryLocation object, first sent by a client with one configuration, then by a client with another one (a tool that talks to two ECUs, or a
    # configuration change between two calls): the second request follows the formats the object carries now, else the second configuration, else
    # the smallest width - and a value that does not fit the width then in force is refused, never cut
    for _ in range(ctx.n(300, 6000)):
        a = rng.getrandbits(rng.choice([1, 8, 9, 16, 17, 24, 32, 40, 64]))
        z = rng.getrandbits(rng.choice([1, 8, 9, 12, 13, 16, 17, 32]))
        af, mf = rng.choice([(None, None), (None, None), (None, None), (rng.choice(VALID), None), (None, rng.choice(VALID))])
        caf1, cmf1 = rng.choice([(None, None), (None, None), (rng.choice(VALID), None), (None, rng.choice(VALID))])
        caf2, cmf2 = rng.choice([(rng.choice(VALID), rng.choice(VALID)), (None, 8), (8, None), (None, rng.choice(VALID)), (rng.choice(VALID), None)])
        k = rng.choice(KINDS)
        try:
            ml = MemoryLocation(a, z, af, mf)
        except Exception:  # noqa
            continue

        def call(client):
            if k == 'read':
                return client.read_memory_by_address(ml)
            if k == 'write':
                return client.write_memory_by_address(ml, b'\x01')
            return client.request_download(ml) if k == 'download' else client.request_upload(ml)
        c1, conn1 = cl.make_client(cl.Cfg(rt=4, p2=2, p2s=2), extra={'server_address_format': caf1, 'server_memorysize_format': cmf1})
        cl.observe_outer(conn1, lambda: call(c1))
        af2, mf2 = ml.address_format, ml.memorysize_format
        c2, conn2 = cl.make_client(cl.Cfg(rt=4, p2=2, p2s=2), extra={'server_address_format': caf2, 'server_memorysize_format': cmf2})
        cl.observe_outer(conn2, lambda: call(c2))
        sends = [o[1] for o in conn2.log if o[0] == 'send']
        exp = expected_widths(a, z, af2, mf2, caf2, cmf2)
        s.evaluations += 1
        rec = {'site': k + ' with a MemoryLocation used under two configurations', 'input': 'a=%d s=%d af=%s mf=%s first under server formats (%s, %s) [object formats afterwards (%s, %s)], then under (%s, %s)' % (
            a, z, af, mf, caf1, cmf1, af2, mf2, caf2, cmf2)}
        s.distinct.add(rec['input'])
        if exp is None:
            if sends:
                s.fail(dict(rec, observed='sent ' + sends[0].hex(), required='out of domain: the value does not fit the width in force for the second call'))
        elif not sends:
            s.fail(dict(rec, observed='rejected', required='transmitted with widths %s' % (exp,)))
        else:
            dec = iso_decode(sends[0], {'read': 1, 'write': 1, 'download': 2, 'upload': 2}[k])
            if dec is None or dec[:4] != (exp[0] // 8, exp[1] // 8, a, z):
                s.fail(dict(rec, observed='frame %s decodes to %s' % (sends[0].hex(), dec), required='widths %s, address %d, size %d' % (exp, a, z)))
        s.count('two_configs:' + ('refused' if exp is None else 'sent'))
    core.compare(s, lines, core.drv_batch(lines), impl, nontrivial=lambda i, o: o != 'reject')
    s.sample({'line': lines[5], 'impl': impl[5]})
    s.sample({'line': lines[-1], 'impl': impl[-1]})
    return s


def suite_echo(ctx):
    """write_memory_by_address: the echo in the transmitted widths is decoded symmetrically; anything else is refused"""
    from .. import clientlib as cl
    s = Suite('echo')
    rng = ctx.rng
    lines, impl = [], []
    for wa in VALID:
        for ws in VALID:
            for rep in range(ctx.n(3, 30)):
                a = rng.choice([0, 2 ** wa - 1, rng.getrandbits(wa), 2 ** (wa - 8) if wa > 8 else 1])
                z = rng.choice([0, 2 ** ws - 1, rng.getrandbits(ws)])
                mode = rng.choice(['explicit', 'config', 'auto'])
                if mode == 'auto':
                    af = mf = caf = cmf = None
                elif mode == 'explicit':
                    af, mf, caf, cmf = wa, ws, rng.choice(FORMATS[:9]), rng.choice(FORMATS[:9])
                else:
                    af, mf, caf, cmf = None, None, wa, ws
                exp = expected_widths(a, z, af, mf, caf, cmf)
                if exp is None:
                    continue
                na, ns = exp[0] // 8, exp[1] // 8
                good = bytes([(ns << 4) | na]) + a.to_bytes(na, 'big') + z.to_bytes(ns, 'big')
                variants = [('good', good), ('good+tail', good + b'\x55\x00'), ('short', good[:-1]), ('empty', b'')]
                i = rng.randrange(len(good))
                bad = bytearray(good)
                bad[i] ^= 1 << rng.randrange(8)
                variants.append(('flip@%d' % i, bytes(bad)))
                for name, d in variants:
                    line = 'ml.echo a=%d s=%d af=%s mf=%s caf=%s cmf=%s d=%s' % (a, z, oi(af), oi(mf), oi(caf), oi(cmf), hx(d))
                    obs, sends, ml, verdict = run_case(cl, 'write', a, z, af, mf, caf, cmf, b'\xAA', 0, reply=b'\x7D' + d)
                    if verdict == 'ok':
                        client_obs = None
                    lines.append(line)
                    # re-run to fetch the decoded echo (observe_outer returned the response object through run_case's verdict only)
                    from udsoncan import MemoryLocation
                    client, conn = cl.make_client(cl.Cfg(rt=4, p2=2, p2s=2), extra={'server_address_format': caf, 'server_memorysize_format': cmf})
                    conn.script = [(1, b'\x7D' + d)]
                    how, verdict2, flags, payload, exc, r = cl.observe_outer(conn, lambda: client.write_memory_by_address(MemoryLocation(a, z, af, mf), b'\xAA'))
                    if verdict2 == 'ok':
                        e = r.service_data
                        got = 'ok alfid=%d a=%d s=%d' % (e.alfid_echo, e.memory_location_echo.address, e.memory_location_echo.memorysize)
                    else:
                        got = verdict2.replace('other:', '')
                    impl.append(got)
                    s.count(name.split('@')[0] + ':' + got.split(' ')[0])
                    rec = {'site': 'write_memory_by_address', 'input': line, 'variant': name}
                    if name in ('good', 'good+tail'):
                        want = 'ok alfid=%d a=%d s=%d' % ((ns << 4) | na, a, z)
                        if got != want:
                            s.fail(dict(rec, observed=got, required=want))
                    elif got.startswith('ok'):
                        s.fail(dict(rec, observed=got, required='not accepted: the reply does not echo the request'))
    core.compare(s, lines, core.drv_batch(lines), impl)
    s.sample({'line': lines[0], 'impl': impl[0]})
    return s


def suite_ddd(ctx):
    """dynamically_define_did by memory address: common widths, every entry lossless"""
    from .. import clientlib as cl
    from udsoncan import MemoryLocation, DynamicDidDefinition
    s = Suite('ddd')
    rng = ctx.rng
    lines, impl = [], []
    def random_scenario():
        n = rng.randrange(1, 5)
        caf, cmf = rng.choice(FORMATS[:9]), rng.choice(FORMATS[:9])
        same = rng.random() < 0.7
        eaf, emf = rng.choice(FORMATS[:9]), rng.choice(FORMATS[:9])
        odd = None
        if same and n >= 2 and rng.random() < 0.4:
            odd = rng.randrange(n)          # every entry agrees except one (at any position, the last included)
        entries = []
        for i in range(n):
            if rng.random() < 0.75:     # mostly values that fit the widths in force
                wa = eaf or caf or rng.choice(VALID)
                wz = emf or cmf or rng.choice(VALID)
                a = rng.choice([0, 2 ** wa - 1, rng.getrandbits(wa), 2 ** (wa - 8)])
                z = rng.choice([0, 2 ** wz - 1, rng.getrandbits(wz)])
            else:
                a = rng.choice(VALUES + [rng.getrandbits(16), rng.getrandbits(32)])
                z = rng.choice([0, 1, 0xFF, 0x100, rng.getrandbits(8), rng.getrandbits(16)])
            if same and i == odd:
                entries.append((a, z, rng.choice([f for f in FORMATS[:9] if f != eaf]), emf) if rng.random() < 0.5 else (a, z, eaf, rng.choice([f for f in FORMATS[:9] if f != emf])))
            elif same:
                entries.append((a, z, eaf, emf))
            else:
                entries.append((a, z, rng.choice(FORMATS[:9]), rng.choice(FORMATS[:9])))
        did = rng.choice([0xF200, 0xF3FF, 0, 0xFFFF, 0x10000, -1])
        return did, caf, cmf, entries, rng.random() < 0.3, len(entries) == 1 and rng.random() < 0.5

    # fixed scenarios first (whatever the seed): entries without / with explicit widths x configured widths that differ from the smallest ones x the definition read
    # before it is handed over x a single range handed over bare
    corpus = []
    for caf, cmf in ((None, None), (32, 16), (8, 8), (64, 64), (None, 24), (40, None)):
        for ents in ([(0x1234, 4, None, None)], [(0x1234, 4, None, None), (0x20, 0x10, None, None)], [(0x12, 4, 16, 8)], [(0x12, 4, 16, 8), (0x3456, 0x44, 16, 8)],
                     [(0x123456, 0x100, None, None), (0x12, 1, None, None), (0x1234, 0x20, None, None)], [(0x12, 4, 16, None), (0x12, 4, None, 8)],
                     [(0x12, 4, 24, 8), (0x3456, 0x44, 16, 8)], [(0, 0, None, None)], [(0xFFFFFFFFFF, 0xFFFF, None, None)]):
            for read_first in (False, True):
                for bare in ((False, True) if len(ents) == 1 else (False,)):
                    corpus.append((0xF200, caf, cmf, list(ents), read_first, bare))
    todo = ctx.n(600, 12000)
    for k in range(len(corpus) + todo):
        did, caf, cmf, entries, read_first, bare_form = corpus[k] if k < len(corpus) else random_scenario()
        line = 'ml.ddd did=%d caf=%s cmf=%s entries=%s' % (did, oi(caf), oi(cmf), ';'.join('%d:%d:%s:%s' % (a, z, oi(x), oi(y)) for a, z, x, y in entries))
        client, conn = cl.make_client(cl.Cfg(rt=4, p2=2, p2s=2), extra={'server_address_format': caf, 'server_memorysize_format': cmf})
        sends = []
        try:
            ddd = DynamicDidDefinition()
            for a, z, x, y in entries:
                ddd.add(MemoryLocation(a, z, x, y))
            ok = True
        except Exception:  # noqa
            ok = False
        if ok:
            if read_first:
                # the application looks at the definition before handing it over (reading must not change what is sent later)
                try:
                    ddd.get_alfid()
                except Exception:  # noqa
                    pass
                s.count('definition read before the call')
            if bare_form:
                # a single range may be handed over as the MemoryLocation itself (documented): same precedence of explicit / configured / smallest widths
                a_, z_, x_, y_ = entries[0]
                bare = MemoryLocation(a_, z_, x_, y_)
                cl.observe_outer(conn, lambda: client.dynamically_define_did(did, bare))
                s.count('bare MemoryLocation')
            else:
                cl.observe_outer(conn, lambda: client.dynamically_define_did(did, ddd))
            sends = [o[1] for o in conn.log if o[0] == 'send']
        lines.append(line)
        impl.append('sent:' + sends[0].hex() if sends else 'reject')
        s.count('sent' if sends else 'reject')
        rec = {'site': 'dynamically_define_did', 'input': line}
        exps = [expected_widths(a, z, x, y, caf, cmf) for a, z, x, y in entries]
        in_dom = 0 <= did <= 0xFFFF and all(e is not None for e in exps) and len(set(exps)) == 1
        if not in_dom:
            if sends:
                s.fail(dict(rec, observed='sent ' + sends[0].hex(), required='out of domain (value does not fit, or entries disagree on the widths): nothing sent'))
        elif not sends:
            s.fail(dict(rec, observed='rejected', required='in domain: transmitted'))
        else:
            f = sends[0]
            na, ns = exps[0][0] // 8, exps[0][1] // 8
            want = bytes([0x2C, 0x02]) + did.to_bytes(2, 'big') + bytes([(ns << 4) | na]) + b''.join(a.to_bytes(na, 'big') + z.to_bytes(ns, 'big') for a, z, _, _ in entries)
            if f != want:
                s.fail(dict(rec, observed=f.hex(), required=want.hex()))
    core.compare(s, lines, core.drv_batch(lines), impl, nontrivial=lambda i, o: o != 'reject')
    s.sample({'line': lines[0], 'impl': impl[0]})
    return s


def suite_races(ctx):
    """several threads use the library at the same moment, each on objects of its own, from the first use in a fresh process: what each thread gets is what the same call
    gives single-threaded (child processes: harness/race_child.py memloc)"""
    return core.suite_races(['memloc'], ctx.n(10, 24))


def suite_user_code(ctx):
    """an application that extends the library with classes of its own (child process: harness/user_child.py memloc_subclass)"""
    return core.suite_user_code('memloc_subclass', 'memory-addressed request')


SUITES = [suite_memloc, suite_echo, suite_ddd, suite_races, suite_user_code]
