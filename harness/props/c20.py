"""C20 — identifier-to-name lookups are faithful for every identifier value (complete domains)."""
import inspect
import sys
from .. import core, extract
from ..core import Suite

LEAN_TARGETS = ['Uds.Props.C20', 'Uds.Tie.Tables', 'Uds.Tie.Names']
ASSUMPTIONS = [
    'Spec.didSegs / Spec.ridSegs are my transcription of ISO 14229-1:2006 Annex C.1 / F.1 (names as the library spells them)',
    'Dtc.Format.get_name returning None for an unknown format is read as that table\'s documented fallback (Optional[str]) (DESIGN D7)',
]
RULE = ('iso_consts: every named sub-function constant of the standard (Spec.isoSubfn, read from the Lean driver) must be defined by the library with the ISO value and get_name must answer every ISO value with that name; '
        'exhaustive: every identifier 0..0xFFFF for the two 16-bit lookups, every value 0..0xFF of every BaseSubfunction table, '
        'ResponseCode and Dtc.Format; real lookup vs Lean Spec lookup (udsdrv). distinct = distinct (table, value); non-trivial = all')


def generate(ctx):
    extract.generate(['Tables', 'Names'])


def suite_names(ctx):
    sys.path.insert(0, core.REPO)
    import udsoncan
    import udsoncan.services
    from udsoncan.BaseService import BaseSubfunction
    from udsoncan.common.dids import DataIdentifier
    from udsoncan.common.Routine import Routine
    from udsoncan.common.dtc import Dtc
    from udsoncan.ResponseCode import ResponseCode
    s = Suite('names')
    s.exhaustive = True
    safe = extract._safe
    # 16-bit tables
    for tname, fn, cls in (('did', DataIdentifier.name_from_id, DataIdentifier), ('rid', Routine.name_from_id, Routine)):
        lines = ['spec.didrange t=%s lo=%d hi=%d' % (tname, lo, lo + 4096) for lo in range(0, 65536, 4096)]
        spec = []
        for o in core.drv_batch(lines):
            spec += o.split(',')
        for i in range(65536):
            got = safe(fn, i)
            s.evaluations += 1
            if got != spec[i]:
                s.fail({'site': tname + '.name_from_id', 'input': i, 'observed': got, 'required': spec[i]})
        s.distinct.update('%s:%d' % (tname, i) for i in range(65536))
        for n, v in extract.int_consts(cls):
            got = safe(fn, v)
            s.evaluations += 1
            if got not in (n, n + 'DataIdentifier'):
                s.fail({'site': tname + '.constant', 'input': '%s=%d' % (n, v), 'observed': got, 'required': n})
        s.sample({'table': tname, 'id': 0xF190, 'impl': safe(fn, 0xF190), 'spec': spec[0xF190]})
    # subfunction tables
    for c in extract.all_subclasses(BaseSubfunction):
        attrs = [a for a in inspect.getmembers(c, lambda a: not inspect.isroutine(a)) if not (a[0].startswith('__') and a[0].endswith('__'))]
        mem = []
        for n, v in attrs:
            if isinstance(v, bool):
                continue
            if isinstance(v, int):
                mem.append('%s:e:%d' % (n, v))
            elif isinstance(v, tuple) and len(v) == 2:
                mem.append('%s:r:%d:%d' % (n, v[0], v[1]))
        pretty = getattr(c, '__pretty_name__', c.__name__)
        out = core.drv_batch(['spec.subfn pretty=%s members=%s' % (pretty.encode().hex(), ','.join(mem) or '-')])[0].split(',')
        for v in range(256):
            got = safe(c.get_name, v)
            s.evaluations += 1
            s.distinct.add('%s:%d' % (c.__qualname__, v))
            if got != out[v]:
                s.fail({'site': 'BaseSubfunction.get_name', 'table': c.__qualname__, 'input': v, 'observed': got, 'required': out[v]})
        s.count('subfn_tables')
    s.sample({'table': 'ControlDTCSetting.SettingType', 'value': 5, 'impl': safe(udsoncan.services.ControlDTCSetting.SettingType.get_name, 5)})
    # Dtc.Format
    mem = ['%s:e:%d' % (n, v) for n, v in extract.int_consts(Dtc.Format)]
    out = core.drv_batch(['spec.first members=%s' % ','.join(mem)])[0].split(',')
    for v in range(256):
        got = safe(Dtc.Format.get_name, v)
        s.evaluations += 1
        s.distinct.add('fmt:%d' % v)
        if got != out[v]:
            s.fail({'site': 'Dtc.Format.get_name', 'input': v, 'observed': got, 'required': out[v]})
    # response codes: name of a constant with exactly that value, else decimal
    members = extract.int_consts(ResponseCode)
    lines = ['rc c=%d' % c for c in range(256)]
    model = core.drv_batch(lines)
    for c in range(256):
        got = safe(ResponseCode.get_name, c)
        names = [n for n, v in members if v == c]
        s.evaluations += 1
        s.distinct.add('rc:%d' % c)
        if (names and got not in names) or (not names and got != str(c)):
            s.fail({'site': 'ResponseCode.get_name', 'input': c, 'observed': got, 'required': names or str(c)})
        m = model[c].split(' ')[0][5:]
        if m != got:
            s.diverge(lines[c], m, got)
    return s


def suite_iso(ctx):
    from .. import isoconst
    return isoconst.suite_iso(ctx)


def suite_isolated(ctx):
    """name lookups through a user table that extends a library table, with identifiers that are IntEnum members, and with the documented parameter names given by keyword (child process: harness/isolated_child.py names)"""
    import json
    import os
    import subprocess
    import sys as _sys
    s = Suite('isolated')
    env = dict(os.environ, UDS_REPO=core.REPO)
    child = os.path.join(os.path.dirname(os.path.dirname(os.path.abspath(__file__))), 'isolated_child.py')
    p = subprocess.run([_sys.executable, child, 'names'], stdout=subprocess.PIPE, stderr=subprocess.PIPE, text=True, env=env, timeout=120)
    s.evaluations += 1
    s.distinct.add('names')
    try:
        problems = json.loads(p.stdout.strip().split('\n')[-1])
    except Exception:  # noqa
        problems = [{'input': 'isolated_child.py names', 'observed': 'child failed: ' + (p.stderr or p.stdout)[-500:], 'required': 'the scenarios run to their end'}]
    for pr in problems:
        s.fail({'site': 'name lookup', 'input': pr['input'], 'observed': pr['observed'], 'required': pr['required']})
    s.exhaustive = True
    return s


def suite_races(ctx):
    """several threads use the library at the same moment, each on objects of its own, from the first use in a fresh process: what each thread gets is what the same call
    gives single-threaded (child processes: harness/race_child.py names_first / lookups)"""
    return core.suite_races(['names_first', 'lookups'], ctx.n(10, 24))


SUITES = [suite_names, suite_iso, suite_isolated, suite_races]
