"""C16 — connections deliver exactly the peer's frames, in order, once; honest timeouts."""
import socket
import threading
import time

from .. import core
from ..core import Suite

LEAN_TARGETS = ['Uds.Props.C16']
ASSUMPTIONS = [
    'atomic steps of the model: queue.Queue.put/get, one iteration of the receiver loop (select -> recv -> put), sock.send; thread safety of queue.Queue, the semantics of '
    'select/recv/join in CPython and the kernel, and the accuracy of Queue.get(timeout) are assumed, not verified (partial: the model cannot exhibit a data race inside CPython)',
    'select() returns within its 0.2 s timeout, so a thread that sees exit_requested ends; a blocking recv() that never returns is outside the model',
    'frames sent over a connection-oriented message socket are non-empty (an empty read is indistinguishable from end of stream there); empty datagrams on a datagram socket are frames',
    'open() is called on a connection that is not open (a second open() on an open SocketConnection starts a second thread: misuse, not modelled)',
]
RULE = ('conn suite: random action traces (peer writes incl. frames at / one over the buffer size, peer disconnect, receiver iterations with the number of bytes the kernel hands '
        'over on a stream, faults inside the loop, reads with both exception flags, flushes, sends, close idle / racing an iteration, reopen) on the real SocketConnection whose '
        'selector and socket are scripted so that every receiver iteration happens exactly when the trace says (deterministic forcing of the interleaving), compared after every '
        'action with udsdrv; same for QueueConnection. socketpair suite: real sockets and threads, bursts, disconnect at every point, close racing reception, elapsed >= timeout, '
        'property evaluated directly on the implementation. distinct = distinct traces; non-trivial = at least one frame crossed the receiver thread')
TRUSTED_EXTRA = ['harness/props/c16.py: scripted socket and selector (stand-ins for the kernel) and the gating of the receiver thread']


# ----------------------------------------------------------------------------------------------------------------
# scripted kernel: a socket whose buffer the harness fills, and a selector that parks the receiver thread until told
# ----------------------------------------------------------------------------------------------------------------

class Gate:
    def __init__(self):
        self.parked = threading.Event()     # the thread is inside select(), waiting for the harness
        self.go = threading.Semaphore(0)
        self.race = False                   # close() racing an iteration that already passed the loop test
        self.conn = None


class FakeSock:
    def __init__(self, kind):
        self.kind = kind
        self.type = {'dgram': socket.SOCK_DGRAM, 'seqpacket': socket.SOCK_SEQPACKET, 'stream': socket.SOCK_STREAM}[kind]
        self.msgs = []
        self.stream = bytearray()
        self.peer_closed = False
        self.fault = False
        self.k = 0
        self.tx = []
        self.gate = Gate()

    def readable(self):
        if self.fault:
            return True
        if self.kind == 'stream':
            return bool(self.stream) or self.peer_closed
        return bool(self.msgs) or (self.peer_closed and self.kind != 'dgram')

    def recv(self, n):
        if self.fault:
            self.fault = False
            raise OSError('scripted fault')
        if self.kind == 'stream':
            if self.stream:
                k = max(1, min(self.k, n))
                data = bytes(self.stream[:k])
                del self.stream[:k]
                return data
            return b''
        if self.msgs:
            return self.msgs.pop(0)[:n]
        return b''

    def send(self, p):
        if self.peer_closed and self.kind != 'dgram':
            raise BrokenPipeError('peer closed')
        self.tx.append(bytes(p))
        return len(p)

    def fileno(self):
        return -1


class FakeSelectors:
    EVENT_READ = 1

    class DefaultSelector:
        def register(self, sock, ev):
            self.sock = sock

        def select(self, timeout=None):
            g = self.sock.gate
            g.parked.set()
            while not g.go.acquire(timeout=0.0005):
                c = g.conn
                if c is not None and c.exit_requested:
                    g.parked.clear()
                    if g.race and self.sock.readable():
                        return [(None, 1)]          # select had already returned: this iteration completes
                    return []
            g.parked.clear()
            return [(None, 1)] if self.sock.readable() else []

        def close(self):
            pass


def hexs(b):
    return b.hex() if b else '.'


def frames_str(l):
    return '/'.join(hexs(x) for x in l) if l else '-'


class SockRunner:
    """drives one real SocketConnection through the model's action language"""

    def __init__(self, kind, bufsize):
        import udsoncan.connections as uconn
        uconn.selectors = FakeSelectors
        self.uconn = uconn
        self.sock = FakeSock(kind)
        self.conn = uconn.SocketConnection(self.sock, bufsize=bufsize)
        self.sock.gate.conn = self.conn
        self.delivered = []

    def thread_alive(self):
        t = self.conn.rxthread
        return t is not None and t.is_alive()

    def wait_parked_or_dead(self):
        t0 = time.monotonic()
        while time.monotonic() - t0 < 5:
            if not self.thread_alive():
                return
            if self.sock.gate.parked.is_set():
                return
            time.sleep(0.0002)
        raise core.Broken('receiver thread neither parked nor dead (the unchanged connection always parks in select() or ends)')

    def act(self, a):
        from udsoncan.exceptions import TimeoutException
        k = a[0]
        g = self.sock.gate
        if k == 'open':
            g.race = False
            self.conn.open()
            self.wait_parked_or_dead()
            return '-'
        if k in ('close', 'closer'):
            g.race = (k == 'closer')
            self.sock.k = self.conn.bufsize     # a racing iteration on a stream is handed a full buffer (as in the model)
            self.conn.close()
            g.race = False
            return '-'
        if k == 'ps':
            if not self.sock.peer_closed:
                if self.sock.kind == 'stream':
                    self.sock.stream += a[1]
                else:
                    self.sock.msgs.append(a[1])
            return '-'
        if k == 'pc':
            self.sock.peer_closed = True
            return '-'
        if k in ('rx', 'rf'):
            if not self.thread_alive():
                return '-'
            self.wait_parked_or_dead()
            if not self.thread_alive():
                return '-'
            self.sock.k = a[1] if k == 'rx' else 0
            self.sock.fault = (k == 'rf')
            g.parked.clear()
            g.go.release()
            time.sleep(0)
            t0 = time.monotonic()
            while g.parked.is_set() is False and self.thread_alive() and time.monotonic() - t0 < 5:
                time.sleep(0.0002)
            self.sock.fault = False
            return '-'
        if k == 'get':
            try:
                f = self.conn.wait_frame(timeout=0.002, exception=a[1])
            except TimeoutException:
                return 'timeout'
            except RuntimeError:
                return 'RuntimeError'
            if f is None:
                return '-'
            self.delivered.append(bytes(f))
            return 'f:' + hexs(f)
        if k == 'flush':
            self.conn.empty_rxqueue()
            return '-'
        if k == 'send':
            try:
                self.conn.send(a[1])
            except RuntimeError:
                return 'RuntimeError'
            except OSError:
                return 'OSError'
            return '-'
        raise ValueError(a)

    def final(self):
        if self.thread_alive():
            self.wait_parked_or_dead()
        return 'q=%d alive=%s opened=%s del=%s tx=%s' % (qlen(self.conn.rxqueue), core.b01(self.thread_alive()), core.b01(self.conn.is_open()),
                                                       frames_str(self.delivered), frames_str(self.sock.tx))

    def cleanup(self):
        if self.thread_alive():
            self.conn.close()


def act_str(a):
    k = a[0]
    if k in ('ps', 'send', 'pp'):
        return '%s:%s' % (k, hexs(a[1]))
    if k == 'rx':
        return 'rx:%d' % a[1]
    if k == 'get':
        return 'get:%s' % core.b01(a[1])
    return k


def gen_trace(rng, kind, buf, n):
    acts = []
    opened = False
    seq = 0
    for _ in range(n):
        r = rng.random()
        if not opened and r < 0.8:
            acts.append(('open',)); opened = True; continue
        if r < 0.28:
            ln = rng.choice([1, 1, 2, buf - 1, buf, buf + 1, 2 * buf + 1]) if buf > 1 else rng.choice([1, 2, 3])
            ln = min(max(ln, 1), 40)
            if kind == 'dgram' and rng.random() < 0.1:
                ln = 0
            seq += 1
            acts.append(('ps', bytes((seq * 16 + i) & 0xFF for i in range(ln))))
        elif r < 0.56:
            acts.append(('rx', rng.choice([0, 1, 2, buf, buf + 3])))
        elif r < 0.80:
            acts.append(('get', rng.random() < 0.5))
        elif r < 0.83:
            acts.append(('flush',))
        elif r < 0.87:
            acts.append(('send', bytes(rng.randrange(256) for _ in range(rng.randrange(1, 4)))))
        elif r < 0.90 and kind != 'dgram':
            acts.append(('pc',))
        elif r < 0.92:
            acts.append(('rf',))
        elif r < 0.97 and opened:
            acts.append((rng.choice(['close', 'closer']),)); opened = False
        else:
            acts.append(('get', True))
    return acts


def suite_conn(ctx):
    s = Suite('conn')
    rng = ctx.rng
    lines, impl = [], []
    for _ in range(ctx.n(500, 10000)):
        kind = rng.choice(['seqpacket', 'seqpacket', 'stream', 'stream', 'dgram'])
        buf = rng.choice([1, 2, 3, 4, 8, 4095])
        acts = gen_trace(rng, kind, buf, rng.randrange(4, ctx.n(24, 60)))
        line = 'conn kind=%s buf=%d acts=%s' % (kind, buf, ','.join(act_str(a) for a in acts))
        r = SockRunner(kind, buf)
        outs = []
        sent = []
        try:
            for a in acts:
                if a[0] == 'ps' and not r.sock.peer_closed:
                    sent.append(a[1])
                outs.append(r.act(a))
            fin = r.final()
        finally:
            r.cleanup()
        lines.append(line)
        impl.append(','.join(outs) + ' || ' + fin)
        # ---- P_spec on the implementation: nothing invented, order kept, at most once
        rec = {'site': 'SocketConnection', 'input': line, 'kind': kind}
        dl = r.delivered
        if kind == 'stream':
            flushed = any(a[0] == 'flush' for a in acts)
            if not flushed and not b''.join(sent).startswith(b''.join(dl)):
                s.fail(dict(rec, observed='delivered bytes ' + b''.join(dl).hex(), required='a prefix of the bytes sent ' + b''.join(sent).hex()))
            if any(len(x) == 0 for x in dl):
                s.fail(dict(rec, observed='an empty frame was delivered', required='no frame is invented (end of stream is not a frame)'))
        else:
            cut = [x[:buf] for x in sent]
            i = 0
            ok = True
            for f in dl:
                while i < len(cut) and cut[i] != f:
                    i += 1
                if i == len(cut):
                    ok = False
                    break
                i += 1
            if not ok:
                s.fail(dict(rec, observed='delivered ' + frames_str(dl), required='a subsequence, in order, of the frames sent ' + frames_str(cut)))
        if any(a[0] == 'rx' for a in acts) and dl:
            s.distinct.add(line)
        s.count('kind=' + kind)
        s.count('delivered=%d' % min(len(dl), 5))
    core.compare(s, lines, core.drv_batch(lines), impl, lambda i, o: False)
    s.sample({'line': lines[0], 'impl': impl[0]})
    return s


def suite_queue(ctx):
    from udsoncan.connections import QueueConnection
    from udsoncan.exceptions import TimeoutException
    s = Suite('queue')
    rng = ctx.rng
    lines, impl = [], []
    for _ in range(ctx.n(400, 8000)):
        mtu = rng.choice([1, 2, 4, 4095])
        conn = QueueConnection(mtu=mtu)
        q_in, q_out = conn.fromuserqueue, conn.touserqueue        # the peer keeps the two queue handles it was given
        acts, outs, dl, sent = [], [], [], []
        opened = False
        pending, sure = [], True                                  # reference FIFO: frames the peer put while the connection was open, not yet delivered or flushed
        oracle_fail = None
        for _ in range(rng.randrange(3, 16)):
            r = rng.random()
            if not opened and r < 0.5:
                acts.append(('open',)); conn.open(); opened = True; outs.append('-'); continue
            if r < 0.35:
                f = bytes(rng.randrange(256) for _ in range(rng.choice([0, 1, mtu, mtu + 1, 2 * mtu + 1])))
                acts.append(('pp', f)); q_in.put(f); sent.append(f); outs.append('-')
                if opened:
                    pending.append(f)
                else:
                    sure = False                                  # a frame sent while closed: the property says nothing about it
            elif r < 0.70:
                e = rng.random() < 0.5
                acts.append(('get', e))
                try:
                    f = conn.wait_frame(timeout=0.001, exception=e)
                    if f is None:
                        outs.append('-')
                    else:
                        outs.append('f:' + hexs(f)); dl.append(bytes(f))
                except TimeoutException:
                    outs.append('timeout')
                except RuntimeError:
                    outs.append('RuntimeError')
                if sure and opened and oracle_fail is None:
                    want = ('f:' + hexs(pending.pop(0)[:mtu])) if pending else ('timeout' if e else '-')
                    if outs[-1] != want:
                        oracle_fail = (len(acts), outs[-1], want)
            elif r < 0.78:
                acts.append(('flush',)); conn.empty_rxqueue(); outs.append('-'); pending, sure = [], True
            elif r < 0.90:
                p = bytes(rng.randrange(256) for _ in range(rng.choice([1, mtu, mtu + 2])))
                acts.append(('send', p))
                try:
                    conn.send(p); outs.append('-')
                except RuntimeError:
                    outs.append('RuntimeError')
            elif opened:
                acts.append(('close',)); conn.close(); opened = False; outs.append('-'); pending, sure = [], True
            else:
                acts.append(('get', True))
                try:
                    conn.wait_frame(timeout=0.001, exception=True); outs.append('?')
                except RuntimeError:
                    outs.append('RuntimeError')
        tx = []
        while not q_out.empty():
            tx.append(q_out.get())
        line = 'qconn mtu=%d acts=%s' % (mtu, ','.join(act_str(a) for a in acts))
        lines.append(line)
        impl.append('%s || q=%d opened=%s del=%s tx=%s' % (','.join(outs), q_in.qsize(), core.b01(conn.is_open()), frames_str(dl), frames_str(tx)))
        if conn.fromuserqueue is not q_in or conn.touserqueue is not q_out:
            s.fail({'site': 'QueueConnection', 'input': line, 'class': 'the queues handed to the peer were replaced', 'observed': 'fromuserqueue / touserqueue is a new object',
                    'required': 'frames the peer puts into the queue it was given are delivered'})
        if oracle_fail is not None:
            s.fail({'site': 'QueueConnection', 'input': line, 'class': 'not delivered exactly once, in order', 'observed': 'action %d gave %s' % (oracle_fail[0], oracle_fail[1]),
                    'required': oracle_fail[2]})
        cut = [x[:mtu] for x in sent]
        i, ok = 0, True
        for f in dl:
            while i < len(cut) and cut[i] != f:
                i += 1
            if i == len(cut):
                ok = False
                break
            i += 1
        if not ok:
            s.fail({'site': 'QueueConnection', 'input': line, 'observed': frames_str(dl), 'required': 'subsequence in order of ' + frames_str(cut)})
        if dl:
            s.distinct.add(line)
    core.compare(s, lines, core.drv_batch(lines), impl, lambda i, o: False)
    s.sample({'line': lines[0], 'impl': impl[0]})
    return s


def qlen(q):
    """number of frames waiting in the connection's receive buffer, whatever container it is"""
    try:
        return q.qsize()
    except AttributeError:
        return len(q)


def suite_socketpair(ctx):
    """real sockets, real receiver thread: bursts, disconnect, close racing reception, honest timeouts (property on the implementation)"""
    import importlib
    import selectors as real_selectors
    import udsoncan.connections as uconn
    from udsoncan.exceptions import TimeoutException
    uconn.selectors = real_selectors
    s = Suite('socketpair')
    rng = ctx.rng
    kinds = [('seqpacket', socket.SOCK_SEQPACKET), ('stream', socket.SOCK_STREAM), ('dgram', socket.SOCK_DGRAM)]
    for rep in range(ctx.n(6, 60)):
        for kname, ktype in kinds:
            a, b = socket.socketpair(socket.AF_UNIX, ktype)
            conn = uconn.SocketConnection(a, bufsize=rng.choice([64, 4095]))
            conn.open()
            n = rng.choice([0, 1, 5, ctx.n(100, 2000)])
            frames = [bytes([(i * 7 + j) & 0xFF or 1 for j in range(rng.randrange(1, 40))]) for i in range(n)]
            cut_at = rng.randrange(0, n + 1)         # the peer disconnects after this many frames
            rec = {'site': 'SocketConnection over socketpair', 'input': '%s n=%d disconnect_after=%d' % (kname, n, cut_at), 'kind': kname}
            got = []

            def producer():
                for f in frames[:cut_at]:
                    b.send(f)
                if kname != 'dgram':
                    b.close()
            t = threading.Thread(target=producer)
            t.start()
            deadline = time.monotonic() + 20
            want_bytes = sum(len(f) for f in frames[:cut_at])
            t_done = None
            while time.monotonic() < deadline:
                try:
                    f = conn.wait_frame(timeout=0.05, exception=True)
                except TimeoutException:
                    if t.is_alive():
                        continue
                    if t_done is None:
                        t_done = time.monotonic()
                    # the producer is done: stop once everything it sent has come out, or after 2 s of patience for a starved receiver thread
                    # (on a loaded machine the thread may lag; a frame that is really lost is still missing after 2 s)
                    have = sum(len(x) for x in got) if kname == 'stream' else len(got)
                    if have >= (want_bytes if kname == 'stream' else cut_at) or time.monotonic() - t_done > 2.0:
                        break
                    continue
                got.append(f)
            t.join()
            # drain what is left, then the timeout must be honest
            t0 = time.monotonic()
            try:
                extra = conn.wait_frame(timeout=0.08, exception=True)
                got.append(extra)
                s.fail(dict(rec, observed='frame %r after everything was read' % (extra,), required='no frame is invented (also after the peer disconnects)'))
            except TimeoutException:
                el = time.monotonic() - t0
                if el < 0.08 - 0.002:
                    s.fail(dict(rec, observed='gave up after %.4f s' % el, required='no earlier than the timeout 0.08 s'))
            none_ret = conn.wait_frame(timeout=0.01, exception=False)
            if none_ret is not None:
                s.fail(dict(rec, observed='wait_frame(exception=False) returned %r' % (none_ret,), required='None on timeout'))
            sent = frames[:cut_at]
            if kname == 'stream':
                if b''.join(got) != b''.join(sent):
                    s.fail(dict(rec, observed='%d bytes received' % len(b''.join(got)), required='exactly the %d bytes sent, in order' % len(b''.join(sent))))
            elif got != [f[:conn.bufsize] for f in sent]:
                s.fail(dict(rec, observed='%d frames (first difference at %s)' % (len(got), next((i for i, (x, y) in enumerate(zip(got, sent)) if x != y), min(len(got), len(sent)))),
                            required='exactly the %d frames sent, in order, once' % len(sent)))
            if qlen(conn.rxqueue) != 0:
                s.fail(dict(rec, observed='queue size %d after draining' % qlen(conn.rxqueue), required='0'))
            t0 = time.monotonic()
            conn.close()
            if conn.rxthread.is_alive() or time.monotonic() - t0 > 5.0:
                s.fail(dict(rec, observed='thread alive=%s after close (%.2f s)' % (conn.rxthread.is_alive(), time.monotonic() - t0), required='close() terminates the receiver thread'))
            for what, fn in (('wait_frame', lambda: conn.wait_frame(timeout=5, exception=False)), ('send', lambda: conn.send(b'\x01'))):
                t0 = time.monotonic()
                try:
                    fn()
                    s.fail(dict(rec, observed='%s on a closed connection returned' % what, required='raises RuntimeError'))
                except RuntimeError:
                    pass
                except Exception as e:  # noqa
                    s.fail(dict(rec, observed='%s raised %s' % (what, type(e).__name__), required='RuntimeError'))
                if time.monotonic() - t0 > 3.0:
                    s.fail(dict(rec, observed='%s blocked %.2f s on a closed connection' % (what, time.monotonic() - t0), required='raises instead of blocking'))
            # reopen: frames sent after reopening are delivered
            if kname == 'dgram':
                conn.open()
                b.send(b'\xAB\xCD')
                try:
                    f = conn.wait_frame(timeout=1, exception=True)
                    if f != b'\xAB\xCD':
                        s.fail(dict(rec, observed=repr(f), required='frame sent after reopen delivered'))
                except TimeoutException:
                    s.fail(dict(rec, observed='timeout after reopen', required='frame sent after reopen delivered'))
                conn.close()
                b.close()
            a.close()
            s.evaluations += 1
            s.distinct.add(rec['input'])
            s.count('kind=' + kname)
    # several consumers: a waiter whose frame another consumer took still waits its whole timeout; the frame comes out exactly once
    T = 0.4
    for rep in range(ctx.n(5, 30)):
        a, b = socket.socketpair(socket.AF_UNIX, socket.SOCK_SEQPACKET)
        conn = uconn.SocketConnection(a, bufsize=64)
        conn.open()
        res, taken, stop = {}, [], threading.Event()

        def waiter():
            t0 = time.monotonic()
            try:
                f = conn.wait_frame(timeout=T, exception=True)
                res['w'] = ('frame', f, time.monotonic() - t0)
            except TimeoutException:
                res['w'] = ('timeout', None, time.monotonic() - t0)
            except Exception as e:  # noqa
                res['w'] = (type(e).__name__, None, time.monotonic() - t0)

        def poller():
            while not stop.is_set():
                try:
                    f = conn.wait_frame(timeout=0, exception=False)
                except Exception:  # noqa
                    return
                if f is not None:
                    taken.append(f)
        npoll = rep % 5
        ths = [threading.Thread(target=waiter)] + [threading.Thread(target=poller, daemon=True) for _ in range(npoll)]
        for th in ths:
            th.start()
        time.sleep(0.03)
        frame = bytes([0x50 + rep, 1, 2])
        b.send(frame)
        ths[0].join(T + 5)
        stop.set()
        for th in ths[1:]:
            th.join(2)
        rec = {'site': 'SocketConnection, several consumers', 'input': 'one waiter (timeout %.1f s) and %d polling consumers, one frame sent after 0.03 s' % (T, npoll), 'kind': 'seqpacket'}
        s.evaluations += 1
        s.count('consumers=%d' % (npoll + 1))
        how, f, el = res.get('w', ('still waiting', None, 0))
        outs = ([f] if how == 'frame' else []) + taken
        late = conn.wait_frame(timeout=0.05 if outs else 2.0, exception=False)      # a starved receiver thread may not have queued it yet: it is still there to be read
        if late is not None:
            outs.append(late)
        if outs != [frame]:
            s.fail(dict(rec, observed='delivered %r' % (outs,), required='the frame exactly once'))
        elif how == 'timeout' and el < T - 0.002:
            s.fail(dict(rec, observed='the waiter gave up after %.4f s with nothing delivered to it' % el, required='no earlier than its timeout %.1f s' % T))
        elif how not in ('frame', 'timeout'):
            s.fail(dict(rec, observed=how, required='a frame or a timeout'))
        conn.close()
        a.close()
        b.close()
    # a backlog nobody reads, then close(): the receiver thread must still terminate
    for kname, ktype in kinds:
        for n in (10, 300, ctx.n(1200, 6000)):
            a, b = socket.socketpair(socket.AF_UNIX, ktype)
            b.settimeout(2)
            conn = uconn.SocketConnection(a, bufsize=64)
            conn.open()
            sent_n = 0
            try:
                for i in range(n):
                    b.send(bytes([1 + i % 255, 2, 3]))
                    sent_n += 1
            except OSError:
                pass
            time.sleep(0.05)
            closer = threading.Thread(target=conn.close, daemon=True)
            t0 = time.monotonic()
            closer.start()
            closer.join(8)
            rec = {'site': 'SocketConnection.close with unread backlog', 'input': '%s backlog=%d' % (kname, sent_n), 'kind': kname}
            if closer.is_alive() or (conn.rxthread is not None and conn.rxthread.is_alive()):
                s.fail(dict(rec, observed='close() still blocked after 8 s (receiver thread alive=%s)' % conn.rxthread.is_alive(), required='close() always terminates the receiver thread'))
                conn.exit_requested = True
                try:
                    while True:
                        conn.rxqueue.get_nowait()
                except Exception:  # noqa
                    pass
            s.evaluations += 1
            s.distinct.add(rec['input'])
            s.count('backlog')
            a.close()
            b.close()
    # a wait without a limit (timeout=None) on an empty queue waits for the frame: it is delivered when it arrives, for both connection classes
    for cname in ('QueueConnection', 'SocketConnection'):
        for delay in (0.0, 0.05, 0.15):
            if cname == 'QueueConnection':
                conn = uconn.QueueConnection(name='q', mtu=4095)
                conn.open()
                feed = lambda f: conn.fromuserqueue.put(f)
                a = b = None
            else:
                a, b = socket.socketpair(socket.AF_UNIX, socket.SOCK_DGRAM)
                conn = uconn.SocketConnection(a, bufsize=64)
                conn.open()
                feed = lambda f: b.send(f)
            box = {}

            def waiter():
                try:
                    box['frame'] = conn.wait_frame(timeout=None, exception=True)
                except Exception as e:  # noqa
                    box['exc'] = type(e).__name__
            w = threading.Thread(target=waiter, daemon=True)
            w.start()
            time.sleep(delay)
            feed(b'\x12\x34\x56')
            w.join(5)
            rec = {'site': cname + '.wait_frame(timeout=None)', 'input': 'frame arrives after %.2f s' % delay, 'kind': cname}
            if box.get('frame') != b'\x12\x34\x56':
                s.fail(dict(rec, observed='returned %r / raised %s / still waiting=%s' % (box.get('frame'), box.get('exc'), w.is_alive()),
                            required='the frame, once it has arrived (a wait without limit gives up on nothing)'))
                if w.is_alive():
                    feed(b'\x00')
            conn.close()
            for x in (a, b):
                if x is not None:
                    x.close()
            s.evaluations += 1
            s.distinct.add(rec['site'] + rec['input'])
            s.count('unbounded-wait:' + cname)
    s.sample({'kind': 'seqpacket', 'n': 100, 'disconnect_after': 37, 'required': 'the 37 frames, then an honest timeout, thread ends, close returns'})
    return s


SUITES = [suite_conn, suite_queue, suite_socketpair]
