"""C04 — any received bytes give a result or a documented exception, never a crash/hang."""
import signal

from .. import core, extract
from ..core import Suite

LEAN_TARGETS = ['Uds.Props.C04', 'Uds.Tie.Groups']
ASSUMPTIONS = [
    'the client configuration is itself valid (dtc_snapshot_did_size in 1..8, extended_data_size given and in range, IO / DID entries well formed); user codecs decode any byte string of their length',
    'documented outcomes: a returned response, NegativeResponse / InvalidResponse / UnexpectedResponse / Timeout exceptions, ConfigError, NotImplementedError (fields wider than 64 bits)',
]
RULE = ('malformed suite: for every family of client calls ~N well-formed replies (as C02), each cut at random prefixes, mutated bytewise over the boundary alphabet '
        '{00..08,10,40,7F,80,F0,FF}, extended with junk and with zeros; plus every 1..3-byte reply over the alphabet after the response id for each call kind. The real client must end in a '
        'documented outcome within a step budget (5 s alarm per call), with the three exception_on_* switches on and off; the Lean model must give the same outcome and dump. '
        'distinct = distinct (call line, reply); non-trivial = the reply differs from the well-formed one')

DOCUMENTED = ('ok', 'none', 'negative', 'invalid', 'unexpected', 'timeout', 'config', 'notimpl')


class Hang(Exception):
    pass



def generate(ctx):
    from .. import extract
    extract.generate(['Groups'])

def _alarm(*a):
    raise Hang()


def suite_malformed(ctx):
    from .. import declib
    s = Suite('malformed')
    rng = ctx.rng
    lines, impl = [], []
    per = ctx.n(70, 1500)
    signal.signal(signal.SIGALRM, _alarm)
    alpha = [0x00, 0x01, 0x02, 0x04, 0x05, 0x10, 0x7F, 0x80, 0xFF]
    for name, gen in declib.GENERATORS:
        cases = gen(rng, per if name != 'dtc' else per * 5)
        for ci, c in enumerate(cases):
            replies = declib.mutations(rng, c.good, ctx.n(5, 8))
            if ci < 12:      # short replies, exhaustively over the alphabet for the first few calls of each kind
                replies += [bytes([a]) for a in alpha] + [bytes([c.good[0] if c.good else 0, a]) for a in alpha]
                replies += [bytes([c.good[0] if c.good else 0, a, b]) for a in alpha[:5] for b in alpha[:5]]
            for d in replies:
                exc = rng.choice([(True, True, True), (False, False, False)])
                signal.alarm(5)
                try:
                    got = declib.run_reply(c, d, exc=exc)
                except Hang:
                    got = 'HANG'
                finally:
                    signal.alarm(0)
                line = '%s d=%s' % (c.dline, core.hx(d))
                lines.append(line)
                impl.append(got)
                tag = got.split(' ')[0].split(':')[0]
                s.count('%s:%s' % (name, tag))
                if tag not in DOCUMENTED:
                    s.fail({'site': c.site, 'input': line, 'generator': name, 'switches': exc, 'observed': got, 'required': 'a result or a documented exception'})
    core.compare(s, lines, core.drv_batch(lines), impl)
    for i in (0, len(lines) // 2, len(lines) - 1):
        s.sample({'line': lines[i], 'impl': impl[i]})
    return s


def suite_codec_raises(ctx):
    """a codec whose decode() raises (the library's AsciiCodec on a byte >= 0x80, a user codec raising anything): reported as an invalid response"""
    from .. import clientlib as cl
    from udsoncan import AsciiCodec, DidCodec
    s = Suite('codec_raises')

    class Boom(DidCodec):
        def __init__(self, exc):
            self.exc = exc

        def decode(self, b):
            raise self.exc

        def encode(self, v):
            return b'\x00\x00'

        def __len__(self):
            return 2
    for exc in (None, ValueError('x'), KeyError('k'), IndexError('i'), ZeroDivisionError()):
        for site in ('read_data_by_identifier', 'snapshot', 'io_control'):
            for sw in ((True, True, True), (False, False, False)):
                codec = AsciiCodec(2) if exc is None else Boom(exc)
                cfg = cl.Cfg(rt=50, p2=20, p2s=20, exc=sw)
                client, conn = cl.make_client(cfg, extra={'data_identifiers': {0x1234: codec}, 'input_output': {0x1234: codec}, 'dtc_snapshot_did_size': 2})
                if site == 'read_data_by_identifier':
                    conn.script = [(1, bytes.fromhex('621234ff80'))]
                    fn = lambda: client.read_data_by_identifier(0x1234)
                elif site == 'snapshot':
                    conn.script = [(1, bytes.fromhex('5904123456240101') + bytes.fromhex('1234ff80'))]
                    fn = lambda: client.get_dtc_snapshot_by_dtc_number(0x123456, 1)
                else:
                    conn.script = [(1, bytes.fromhex('6f1234ff80'))]
                    fn = lambda: client.io_control(0x1234)
                how, verdict, flags, payload, e, r = cl.observe_outer(conn, fn)
                s.evaluations += 1
                s.distinct.add('%s:%s:%s' % (site, type(exc).__name__, sw))
                if verdict != 'invalid':
                    s.fail({'site': site, 'input': 'codec.decode raises %s' % (type(exc).__name__ if exc else 'UnicodeDecodeError (AsciiCodec)'), 'switches': sw,
                            'observed': verdict, 'required': 'invalid response'})
    return s


SUITES = [suite_malformed, suite_codec_raises]
