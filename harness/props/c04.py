"""C04 — any received bytes give a result or a documented exception, never a crash/hang."""
import signal

from .. import core, extract
from ..core import Suite

LEAN_TARGETS = ['Uds.Props.C04', 'Uds.Tie.Groups', 'Uds.Props.C04Unlock', 'Uds.Props.C04Hist']
ASSUMPTIONS = [
    'the client configuration is itself valid (dtc_snapshot_did_size in 1..8, extended_data_size given and in range, IO / DID entries well formed); user codecs decode any byte string of their length',
    'documented outcomes: a returned response, NegativeResponse / InvalidResponse / UnexpectedResponse / Timeout exceptions, ConfigError, NotImplementedError (fields wider than 64 bits)',
]
RULE = ('malformed suite: for every family of client calls ~N well-formed replies (as C02), each cut at random prefixes, mutated bytewise over the boundary alphabet '
        '{00..08,10,40,7F,80,F0,FF}, extended with junk and with zeros; plus every 1..3-byte reply over the alphabet after the response id for each call kind. The real client must end in a '
        'documented outcome within a step budget (5 s alarm per call), with the three exception_on_* switches on and off; the Lean model must give the same outcome and dump. '
        'distinct = distinct (call line, reply); non-trivial = the reply differs from the well-formed one. frames suite: every client entry point x whole frames as the connection delivers them '
        '(empty, 7F alone, 7F + id, truncated / over-long negative responses, foreign and impossible ids, junk, short positive replies; short frames also after a response-pending reply) x the three switches: '
        'documented outcome on the real client, and the same log / verdict as the model for everything send_request decides')

DOCUMENTED = ('ok', 'none', 'negative', 'invalid', 'unexpected', 'timeout', 'config', 'notimpl')


class Hang(Exception):
    pass



def generate(ctx):
    from .. import extract
    extract.generate(['Groups'])

def _alarm(*a):
    raise Hang()


def suite_malformed(ctx):
    from .. import declib
    s = Suite('malformed')
    rng = ctx.rng
    lines, impl = [], []
    per = ctx.n(70, 1500)
    signal.signal(signal.SIGALRM, _alarm)
    alpha = [0x00, 0x01, 0x02, 0x04, 0x05, 0x10, 0x7F, 0x80, 0xFF]
    for name, gen in declib.GENERATORS:
        cases = gen(rng, per if name != 'dtc' else per * 5)
        for ci, c in enumerate(cases):
            replies = declib.mutations(rng, c.good, ctx.n(5, 8))
            if ci < 12:      # short replies, exhaustively over the alphabet for the first few calls of each kind
                replies += [bytes([a]) for a in alpha] + [bytes([c.good[0] if c.good else 0, a]) for a in alpha]
                replies += [bytes([c.good[0] if c.good else 0, a, b]) for a in alpha[:5] for b in alpha[:5]]
            for d in replies:
                exc = rng.choice([(True, True, True), (False, False, False)])
                signal.alarm(5)
                try:
                    got = declib.run_reply(c, d, exc=exc)
                except Hang:
                    got = 'HANG'
                finally:
                    signal.alarm(0)
                line = '%s d=%s' % (c.dline, core.hx(d))
                lines.append(line)
                impl.append(got)
                tag = got.split(' ')[0].split(':')[0]
                s.count('%s:%s' % (name, tag))
                if tag not in DOCUMENTED:
                    s.fail({'site': c.site, 'input': line, 'generator': name, 'switches': exc, 'observed': got, 'required': 'a result or a documented exception'})
    core.compare(s, lines, core.drv_batch(lines), impl)
    for i in (0, len(lines) // 2, len(lines) - 1):
        s.sample({'line': lines[i], 'impl': impl[i]})
    return s


def suite_codec_raises(ctx):
    """a codec whose decode() raises (the library's AsciiCodec on a byte >= 0x80, a user codec raising anything): reported as an invalid response"""
    from .. import clientlib as cl
    from udsoncan import AsciiCodec, DidCodec
    s = Suite('codec_raises')

    class Boom(DidCodec):
        def __init__(self, exc):
            self.exc = exc

        def decode(self, b):
            raise self.exc

        def encode(self, v):
            return b'\x00\x00'

        def __len__(self):
            return 2
    for exc in (None, ValueError('x'), KeyError('k'), IndexError('i'), ZeroDivisionError()):
        for site in ('read_data_by_identifier', 'snapshot', 'io_control'):
            for sw in ((True, True, True), (False, False, False)):
                codec = AsciiCodec(2) if exc is None else Boom(exc)
                cfg = cl.Cfg(rt=50, p2=20, p2s=20, exc=sw)
                client, conn = cl.make_client(cfg, extra={'data_identifiers': {0x1234: codec}, 'input_output': {0x1234: codec}, 'dtc_snapshot_did_size': 2})
                if site == 'read_data_by_identifier':
                    conn.script = [(1, bytes.fromhex('621234ff80'))]
                    fn = lambda: client.read_data_by_identifier(0x1234)
                elif site == 'snapshot':
                    conn.script = [(1, bytes.fromhex('5904123456240101') + bytes.fromhex('1234ff80'))]
                    fn = lambda: client.get_dtc_snapshot_by_dtc_number(0x123456, 1)
                else:
                    conn.script = [(1, bytes.fromhex('6f1234ff80'))]
                    fn = lambda: client.io_control(0x1234)
                how, verdict, flags, payload, e, r = cl.observe_outer(conn, fn)
                s.evaluations += 1
                s.distinct.add('%s:%s:%s' % (site, type(exc).__name__, sw))
                if verdict != 'invalid':
                    s.fail({'site': site, 'input': 'codec.decode raises %s' % (type(exc).__name__ if exc else 'UnicodeDecodeError (AsciiCodec)'), 'switches': sw,
                            'observed': verdict, 'required': 'invalid response'})
    return s


def suite_frames(ctx):
    """whole frames as the connection delivers them (empty, truncated negative responses, foreign ids, junk), through every client entry point"""
    from .. import clientlib as cl, entries
    from ..core import b01, onat, ohx
    s = Suite('frames')
    rng = ctx.rng
    svcs = cl.services_by_name()
    by_sid = {c._sid: c for c in svcs.values()}
    calls = entries.default_calls()
    if not ctx.thorough:
        seen, sel = set(), []
        for c in calls:
            if c.name not in seen:
                seen.add(c.name)
                sel.append(c)
        calls = sel
    signal.signal(signal.SIGALRM, _alarm)
    lines, impl = [], []
    for c in calls:
        # learn the request id from a dry run
        client, conn = cl.make_client(cl.Cfg(rt=50000, p2=1000, p2s=5000), extra=c.config())
        first = {}
        conn.responder = lambda p, first=first: first.setdefault('p', p) and []
        cl.observe_outer(conn, lambda: c.invoke(client))
        if 'p' not in first:
            continue
        sid = first['p'][0]
        other = 0x10 if sid != 0x10 else 0x11
        frames = [b'', b'\x7f', bytes([0x7F, sid]), bytes([0x7F, sid, 0x31]), bytes([0x7F, sid, 0x00]), bytes([0x7F, sid, 0xFF, 0x01, 0x02]), bytes([0x7F, other]),
                  bytes([0x7F, other, 0x31]), bytes([0x7F, 0x00]), bytes([0x7F, 0xFF]), bytes([0x7F, 0xFF, 0x31]), bytes([0x7F, 0x7F]), bytes([0x7F, sid + 0x40]), bytes([0x7F, sid + 0x40, 0x31]),
                  bytes([sid + 0x40]), bytes([sid]), bytes([other + 0x40]), bytes([other + 0x40, 1, 2, 3]), b'\x00', b'\xff', b'\x3f', b'\x40', bytes([sid + 0x41]), bytes([sid + 0x3F])]
        frames += [bytes(rng.randrange(256) for _ in range(rng.randrange(1, 13))) for _ in range(ctx.n(6, 60))]
        frames += [bytes([sid + 0x40]) + bytes(rng.choice([0, 1, 0x7F, 0x80, 0xFF, rng.randrange(256)]) for _ in range(rng.randrange(0, 9))) for _ in range(ctx.n(4, 40))]
        for f in frames:
            for k in ((0, 1) if len(f) <= 3 else (0,)):          # short frames also after a response-pending reply
                sw = rng.choice([(True, True, True), (False, False, False), tuple(rng.random() < 0.5 for _ in range(3))])
                cfg = cl.Cfg(rt=50000, p2=1000, p2s=5000, cb=True, exc=sw)
                client, conn = cl.make_client(cfg, extra=c.config())
                state = {'first': None}

                def responder(p, state=state, f=f, k=k):
                    if state['first'] is None:
                        state['first'] = p
                        return [(10 * (i + 1), bytes([0x7F, p[0], 0x78])) for i in range(k)] + [(10 * (k + 1), f)]
                    return []
                conn.responder = responder
                signal.alarm(5)
                try:
                    how, verdict, flags, payload, exc, r = cl.observe_outer(conn, lambda: c.invoke(client))
                except Hang:
                    how, verdict, flags = 'exc', 'other:HANG', '-'
                finally:
                    signal.alarm(0)
                frame = state['first']
                if frame is None:
                    continue
                log = list(conn.log)
                name, sf, data = cl.frame_to_req(frame, by_sid)
                arr = [(10 * (i + 1), bytes([0x7F, frame[0], 0x78])) for i in range(k)] + [(10 * (k + 1), f)]
                line = 'sendd sw=%s%s%s %s svc=%s sf=%s rspr=0 data=%s timeout=- arr=%s' % (b01(sw[0]), b01(sw[1]), b01(sw[2]), cfg.line(), name, onat(sf), ohx(data), cl.arrivals_str(arr))
                s.evaluations += 1
                s.distinct.add('%s %s %d' % (c.name, f.hex(), k))
                tag = verdict.split(':')[1] if verdict.startswith('other:') else verdict.split(':')[0]
                s.count('%s' % tag)
                if tag not in DOCUMENTED:
                    s.fail({'site': c.name, 'call': c.desc(), 'input': line, 'frame': f.hex(), 'pending_replies_before': k, 'switches': sw, 'observed': verdict,
                            'required': 'a result or a documented exception'})
                # the model decides everything send_request decides: frames that are not a positive reply of this service
                if not (len(f) >= 1 and f[0] == frame[0] + 0x40) and tag != 'HANG':
                    lines.append(line)
                    impl.append('log=%s how=%s verdict=%s flags=%s' % (cl.fmt_log(log), how, verdict, flags))
    core.compare(s, lines, core.drv_batch(lines), impl)
    if lines:
        s.sample({'line': lines[0], 'impl': impl[0]})
    s.notes.append('%d entry points' % len(calls))
    return s


def suite_reentrant(ctx):
    """the pending-response callback uses the client it belongs to: the call still terminates with a result or a documented exception (harness/reentrant.py)"""
    from .. import reentrant
    return reentrant.suite_reentrant(ctx)


def suite_hist(ctx):
    """whole histories against the model's hrun, read for this property (harness/histsw.py)"""
    from .. import histsw
    return histsw.suite_hist(ctx, 'C04')


SUITES = [suite_malformed, suite_codec_raises, suite_frames, suite_reentrant, suite_hist]
