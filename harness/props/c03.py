"""C03 — a response is accepted only if it answers the request that was actually sent."""
from .. import core, extract
from ..core import Suite, onat, b01, ohx

LEAN_TARGETS = ['Uds.Props.C03', 'Uds.Props.C03Call', 'Uds.Props.C03Hist', 'Uds.Tie.Tables']
ASSUMPTIONS = [
    'positions of the request echoes inside each positive response are those of ISO 14229-1:2020 (written in harness/declib.py next to the reference encoder, '
    'and as statements over the wire bytes in Uds/Props/C03.lean)',
    'echoed parameters are the ones the property lists (sub-function, data / routine identifier, block sequence counter, addressAndLengthFormatIdentifier, address, size, '
    'mode of operation, data format, memory selection, record number, functional group, authentication task); the DTC number of ReadDTCInformation replies is not in that '
    'list: the client compares it for snapshot replies (checked here as well) and not for extended-data replies (mutated, compared with the model, not required)',
    'record numbers 0xFF (snapshot: all records) and 0xF0..0xFF (extended data: groups of records) are selectors, not echoes; no comparison is required for them',
]
RULE = ('echo suite: for every family of client calls ~N well-formed replies (reference encoder of C02 + write_memory_by_address), and for each echoed field of each reply, the field is '
        'replaced by wrong values: one-byte fields by all 255 other values (quick: all 255 for the first calls of each family, then +-1, 0, 0xFF and the 8 single-bit flips), wider fields '
        'by every single-bit flip, +-1, 0, all-ones, byte-swapped and random values. The real client must not return the response (unexpected / invalid response required), with the '
        'exception switches on and off; the Lean model must agree on every outcome. service_id suite: each of the 80 client entry points x every first byte 0..255 other than the matching '
        'response id and 0x7F, followed by the well-formed data: never returned. distinct = distinct (call line, reply); non-trivial = the reply differs from the matching one in exactly '
        'one echoed field / in the service identifier')

REJECTED = ('unexpected', 'invalid')


def generate(ctx):
    extract.generate(['Tables'])


def wrong_values(rng, cur, width, full):
    n = 1 << (8 * width)
    if width == 1 and full:
        return [v for v in range(256) if v != cur]
    vals = {(cur + 1) % n, (cur - 1) % n, 0, n - 1, cur ^ (n >> 1)} | ({1, 2, 3, 4, 5, 6} if width == 1 else {1, 0x100})     # the small values the named constants have
    for b in range(8 * width):
        vals.add(cur ^ (1 << b))
    if width > 1:
        vals.add(int.from_bytes(cur.to_bytes(width, 'big')[::-1], 'big'))
        for _ in range(3):
            vals.add(rng.randrange(n))
    vals.discard(cur)
    return sorted(vals)


def suite_echo(ctx):
    from .. import declib, enclib
    BAD_IO_ENTRIES = {d for d, e in enclib.IO.items() if 'mask' in e and e.get('mask_size') is not None and any(m > 2 ** (8 * e['mask_size']) - 1 for m in e['mask'].values())}
    s = Suite('echo')
    rng = ctx.rng
    lines, impl = [], []
    per = ctx.n(60, 300)
    for name, gen in declib.ECHO_GENERATORS:
        cases = gen(rng, per if name != 'dtc' else per * 6)
        for ci, c in enumerate(cases):
            if not c.echo_fields:
                continue
            # the matching reply is accepted (otherwise the mutations prove nothing)
            base = declib.run_reply(c, c.good)
            if not base.startswith('ok'):
                s.fail({'site': c.site, 'input': '%s d=%s' % (c.dline, core.hx(c.good)), 'generator': name, 'observed': base, 'required': 'the matching response is returned'})
                continue
            for (fname, off, ln) in c.echo_fields:
                # the reply cut right before this echo, and inside it: an echo that is not there cannot repeat what was transmitted
                for cut in sorted({off, off + ln - 1}):
                    if cut >= len(c.good) or 'not compared' in fname or name == 'dtc' or 'named again' in fname:
                        # (an identifier named twice in the request: the reply cut before its second record still holds every identifier requested)
                        continue            # (ReadDTCInformation: a reply cut at a record boundary is a complete reply with fewer records)
                    d = c.good[:cut]
                    got = declib.run_reply(c, d)
                    line = '%s d=%s' % (c.dline, core.hx(d))
                    lines.append(line)
                    impl.append(got)
                    s.count('%s/%s:cut:%s' % (name, fname, got.split(' ')[0]))
                    if got.split(' ')[0] not in REJECTED:
                        s.fail({'site': c.site, 'input': line, 'generator': name, 'field': fname, 'class': 'reply cut before / inside the echo',
                                'observed': got, 'required': 'unexpected (or invalid) response: the %s echo is missing' % fname})
                cur = int.from_bytes(c.good[off:off + ln], 'big')
                full = ctx.thorough or ci < 6
                wv = wrong_values(rng, cur, ln, full)
                todo = [c.good[:off] + v.to_bytes(ln, 'big') + c.good[off + ln:] for v in wv]
                vals = list(wv)
                k = 0
                while k < len(todo):
                    d, v = todo[k], vals[k]
                    k += 1
                    exc = rng.choice([(True, True, True), (True, True, True), (False, False, False)])
                    got = declib.run_reply(c, d, exc=exc)
                    if got == 'invalid' and k <= len(wv) and len(d) <= 64:
                        # the wrong value may announce a longer layout (e.g. a power-down time after reset type 4): complete the reply so that it is well formed for that value
                        todo += [d + bytes([rng.randrange(1, 256)]), d + bytes(rng.randrange(1, 256) for _ in range(4))]
                        vals += [v, v]
                    line = '%s d=%s' % (c.dline, core.hx(d))
                    lines.append(line)
                    impl.append(got)
                    tag = got.split(' ')[0]
                    s.count('%s/%s:%s' % (name, fname, tag))
                    if 'not compared' in fname:
                        continue
                    if fname.startswith('data identifier') and 'dids=' in c.dline:
                        req_dids = [int(x) for x in c.dline.split('dids=')[1].split(' ')[0].split(',')]
                        if v in req_dids and req_dids.count(cur) >= 2:
                            # one of the two records of an identifier named twice now carries another identifier of the same request: every identifier
                            # requested is still answered (by the other record) and nothing else is - the set of identifiers is what the reply is compared with
                            continue
                    if fname == 'record number' and v == 0 and c.config.get('tolerate_zero_padding') and not any(d[off:]):
                        # a zero record number followed by zeros only, with padding tolerated, *is* padding after the matching reply (C11), not a second echo
                        s.count('%s/%s:zero-tail-is-padding' % (name, fname))
                        continue
                    if name == 'io' and fname == 'data identifier' and tag == 'ValueError' and v in BAD_IO_ENTRIES:
                        # the wrong echo is an identifier whose own configuration entry is unusable (a mask wider than its declared size): the reply is
                        # refused with the library's error for that entry - not handed over, which is all the property asks; the theorems assume a valid configuration
                        s.count('io/echo lands on an unusable configuration entry')
                        continue
                    if tag not in REJECTED:
                        s.fail({'site': c.site, 'input': line, 'generator': name, 'field': fname, 'sent': cur, 'echoed': v, 'switches': list(exc),
                                'observed': got, 'required': 'unexpected (or invalid) response: the %s echo differs from the transmitted value' % fname})
    core.compare(s, lines, core.drv_batch(lines), impl)
    for i in (0, len(lines) // 2, len(lines) - 1):
        s.sample({'line': lines[i], 'impl': impl[i]})
    return s


def suite_service_id(ctx):
    """every entry point, every other first byte: the response is never returned"""
    from .. import clientlib as cl, entries
    s = Suite('service_id')
    rng = ctx.rng
    svcs = cl.services_by_name()
    by_sid = {c._sid: c for c in svcs.values()}
    calls = entries.default_calls()
    if not ctx.thorough:
        seen, sel = set(), []
        for c in calls:
            if c.name not in seen:
                seen.add(c.name)
                sel.append(c)
        calls = sel
    lines, impl = [], []
    for c in calls:
        # the frame this call sends, and the matching reply
        client, conn = cl.make_client(cl.Cfg(rt=50, p2=20, p2s=20), extra=c.config())
        state = {}

        def responder(p, state=state, c=c):
            if 'frame' not in state:
                state['frame'] = p
                state['good'] = entries.good_reply(p, call=c, config=c.config())
                return [(1, state['good'])]
            return [(1, entries.good_reply(p, call=c, config=c.config()))]
        conn.responder = responder
        how, verdict, flags, payload, exc, r = cl.observe_outer(conn, lambda: c.invoke(client))
        if 'frame' not in state:
            s.fail({'site': c.desc(), 'input': 'well-formed reply', 'observed': 'nothing sent: %s' % verdict, 'required': 'a request'})
            continue
        if verdict != 'ok':
            s.notes.append('%s: matching reply gives %s' % (c.desc(), verdict))
        frame, good = state['frame'], state['good']
        name, sf, data = cl.frame_to_req(frame, by_sid)
        firsts = [b for b in range(256) if b != good[0] and b != 0x7F]
        if not ctx.thorough:
            known = [b for b in firsts if (b - 0x40) in by_sid]
            firsts = known + rng.sample([b for b in firsts if b not in known and b != frame[0]], 24)
            firsts.append(frame[0])        # the request identifier itself (a bus that echoes the tester's own frames)
        # an earlier exchange of the same service that ended with a negative response (whatever the parser learnt from `7F sid ..` must not make
        # a frame that starts with the request identifier look like a response)
        c0, conn0 = cl.make_client(cl.Cfg(rt=50, p2=20, p2s=20), extra=c.config())
        conn0.responder = lambda p: [(1, bytes([0x7F, p[0], 0x22]))]
        cl.observe_outer(conn0, lambda: c.invoke(c0))
        for b in firsts:
            sw = rng.choice([(True, True, True), (False, False, False)])
            cfg = cl.Cfg(rt=50, p2=20, p2s=20, exc=sw)
            client, conn = cl.make_client(cfg, extra=c.config())
            st2 = {'n': 0}

            def responder2(p, st2=st2, b=b, good=good, c=c):
                st2['n'] += 1
                if st2['n'] == 1:
                    return [(1, bytes([b]) + good[1:])]
                return [(1, entries.good_reply(p, call=c, config=c.config()))]
            conn.responder = responder2
            how, verdict, flags, payload, exc, r = cl.observe_outer(conn, lambda: c.invoke(client))
            log = list(conn.log)
            arr = [(1, bytes([b]) + good[1:])]
            line = 'sendd sw=%s %s svc=%s sf=%s rspr=0 data=%s timeout=- arr=%s' % (''.join(b01(x) for x in sw), cfg.line(), name, onat(sf), ohx(data), cl.arrivals_str(arr))
            lines.append(line)
            impl.append('log=%s how=%s verdict=%s flags=%s' % (cl.fmt_log(log), how, verdict, flags))
            tag = verdict.replace('other:', '')
            s.count('%s:%s' % ('known-service' if (b - 0x40) in by_sid else 'unknown-id', tag))
            if tag not in REJECTED:
                s.fail({'site': c.name, 'call': c.desc(), 'input': line, 'first_byte': b, 'switches': list(sw), 'observed': '%s %s' % (how, verdict),
                        'required': 'unexpected (or invalid) response: the response service identifier does not match the request'})
    core.compare(s, lines, core.drv_batch(lines), impl)
    for i in (0, len(lines) // 2, len(lines) - 1):
        s.sample({'line': lines[i], 'impl': impl[i]})
    s.notes.append('entry points: %d calls' % len(calls))
    return s


def suite_unlock_echo(ctx):
    """the seed/key composite: both of its exchanges are answered by the server, and each reply must echo the sub-function of its own request - a seed reply or a
    key reply that echoes another level is never returned as success"""
    from .. import clientlib as cl
    s = Suite('unlock_echo')
    rng = ctx.rng
    levels = [1, 2, 7, 0x10, 0x7D, 0x7E]
    for level in levels:
        k = (level + 1) // 2
        seed_sf, key_sf = 2 * k - 1, 2 * k
        for which in ('seed', 'key'):
            cur = seed_sf if which == 'seed' else key_sf
            wrong = [v for v in range(256) if v != cur] if (ctx.thorough or level in (1, 0x7E)) else wrong_values(rng, cur, 1, False)
            for v in wrong:
                sw = rng.choice([(True, True, True), (False, False, False), (True, True, False)])
                client, conn = cl.make_client(cl.Cfg(rt=50, p2=20, p2s=20, exc=sw), extra={'security_algo': lambda seed, level, params: b'\xAA' + seed, 'security_algo_params': None})

                def responder(p, v=v, which=which):
                    if p[1] % 2 == 1:
                        return [(1, bytes([0x67, v if which == 'seed' else p[1]]) + b'\x11\x22')]
                    return [(1, bytes([0x67, v if which == 'key' else p[1]]))]
                conn.responder = responder
                how, verdict, flags, payload, e, r = cl.observe_outer(conn, lambda: client.unlock_security_access(level))
                s.evaluations += 1
                s.distinct.add('%d:%s:%d' % (level, which, v))
                s.count('%s:%s' % (which, verdict.split(':')[0]))
                if verdict.replace('other:', '') not in REJECTED:
                    s.fail({'site': 'unlock_security_access', 'input': 'unlock_security_access(%d); the %s reply echoes sub-function 0x%02x (sent 0x%02x); switches %s' % (level, which, v, cur, sw),
                            'field': 'security level (%s reply)' % which, 'sent': cur, 'echoed': v, 'observed': '%s %s' % (how, verdict),
                            'required': 'unexpected (or invalid) response: the echo differs from the transmitted sub-function'})
    return s


def suite_callw(ctx):
    """whole client calls of every service family against the model's callWith (udsdrv callw): the correspondence the call-level theorems rest on"""
    from .. import callw
    return callw.suite_callw(ctx, 'C03')


def suite_reentrant(ctx):
    """the pending-response callback uses the client it belongs to (the documentation suggests sending TesterPresent from it): the request in flight goes on as if the
    callback had done nothing - harness/reentrant.py, metamorphic against a callback that only counts"""
    from .. import reentrant
    return reentrant.suite_reentrant(ctx)


def suite_after(ctx):
    """echoes are compared with what was transmitted also when the transmitted bytes are not what a fresh call would send: (1) calls made after a payload-override
    block was left by an exception, (2) helper objects whose attributes were assigned anew between two calls.  A reply is scripted from the frame actually sent."""
    from .. import clientlib as cl
    from udsoncan import DataFormatIdentifier, Filesize
    s = Suite('after')
    # (1) -------------------------------------------------------------------------------------------------------------------------------------
    plain = [('ecu_reset(1)', lambda c: c.ecu_reset(1), bytes([0x11, 0x01]), lambda f: bytes([0x51, f[1] & 0x7F])),
             ('start_routine(0x1234)', lambda c: c.start_routine(0x1234), bytes([0x31, 0x01, 0x12, 0x34]), lambda f: bytes([0x71, f[1] & 0x7F]) + f[2:4]),
             ('transfer_data(5, aabb)', lambda c: c.transfer_data(5, b'\xaa\xbb'), bytes([0x36, 0x05, 0xAA, 0xBB]), lambda f: bytes([0x76, f[1]])),
             ('change_session(3)', lambda c: c.change_session(3), bytes([0x10, 0x03]), lambda f: bytes([0x50, f[1] & 0x7F, 0, 0x32, 1, 0xF4]))]
    mods = [('literal 1103', b'\x11\x03'), ('callable adding 2 to the last byte', lambda p: p[:-1] + bytes([(p[-1] + 2) & 0xFF])), ('callable p + 00', lambda p: p + b'\x00')]
    exits = [('a negative response raised inside', [(1, b'\x7f\x3e\x22')], None), ('a timeout raised inside', [], None), ('an application exception', [(1, b'\x7e\x00')], KeyError('app')),
             ('a normal end', [(1, b'\x7e\x00')], None)]
    for mname, mod in mods:
        for xname, arr, appexc in exits:
            for pname, call, want_frame, answer in plain:
                for sw in ((True, True, True), (False, False, False)):
                    client, conn = cl.make_client(cl.Cfg(rt=64, p2=32, p2s=32, exc=(True, True, True)))
                    try:
                        with client.payload_override(mod):
                            conn.script = list(arr)
                            client.tester_present()
                            if appexc is not None:
                                raise appexc
                    except Exception:  # noqa
                        pass
                    client.set_configs({'exception_on_negative_response': sw[0], 'exception_on_invalid_response': sw[1], 'exception_on_unexpected_response': sw[2]})
                    sent = {}

                    def responder(p, sent=sent, answer=answer):
                        sent['f'] = bytes(p)
                        return [(1, answer(bytes(p)))]          # the reply that answers the frame on the wire
                    conn.responder = responder
                    how, verdict, flags, payload, exc, r = cl.observe_outer(conn, lambda: call(client))
                    conn.responder = None
                    s.evaluations += 1
                    label = '%s after a payload_override block (%s) left by %s; switches %s' % (pname, mname, xname, sw)
                    s.distinct.add(label)
                    s.count('left by ' + xname)
                    f = sent.get('f')
                    if f != want_frame:
                        # what C01 / C15 are about; here: a reply that answers another request than the one the caller made must not be handed back as its answer
                        if verdict == 'ok':
                            s.fail({'site': pname, 'input': label, 'class': 'after a block', 'observed': 'sent %s, accepted %s' % (f.hex() if f else None, answer(f).hex() if f else None),
                                    'required': 'the request of the call (%s) on the wire, and only its answer accepted' % want_frame.hex()})
                    elif verdict != 'ok':
                        s.fail({'site': pname, 'input': label, 'class': 'after a block', 'observed': '%s %s' % (how, verdict), 'required': 'the matching reply is returned'})
    # (2) -------------------------------------------------------------------------------------------------------------------------------------
    for c1, e1, c2, e2 in ((5, 2, 0, 2), (0, 0, 5, 2), (1, 1, 1, 2), (15, 15, 0, 0), (3, 0, 3, 0)):
        for which in ('add_file', 'request_download'):
            for echo_kind in ('the byte sent', 'the byte of the object as it is now', 'the byte of the object as it was first', 'another byte'):
                client, conn = cl.make_client(cl.Cfg(rt=64, p2=32, p2s=32))
                dfi = DataFormatIdentifier(compression=c1, encryption=e1)
                first = (c1 << 4) | e1

                def go():
                    if which == 'add_file':
                        return client.add_file('a.bin', dfi, Filesize(uncompressed=0x100, compressed=0x80, width=2))
                    from udsoncan import MemoryLocation
                    return client.request_download(MemoryLocation(0x1234, 0x10, 16, 8), dfi)
                conn.script = []
                cl.observe_outer(conn, go)                # first transfer: nobody answers, the object has been used once
                dfi.compression, dfi.encryption = c2, e2
                now = (c2 << 4) | e2
                sent = {}

                def responder(p, sent=sent):
                    p = bytes(p)
                    if which == 'add_file':
                        pl = int.from_bytes(p[2:4], 'big')
                        b = p[4 + pl]
                    else:
                        b = p[1]
                    sent['b'] = b
                    e = {'the byte sent': b, 'the byte of the object as it is now': now, 'the byte of the object as it was first': first, 'another byte': b ^ 0x11}[echo_kind]
                    sent['e'] = e
                    if which == 'add_file':
                        return [(1, bytes([0x78, p[1], 0x02, 0x10, 0x00, e]))]
                    return [(1, bytes([0x74, 0x20, 0x10, 0x00]))]          # (RequestDownload's reply echoes nothing: it is accepted whatever was sent)
                conn.responder = responder
                how, verdict, flags, payload, exc, r = cl.observe_outer(conn, go)
                conn.responder = None
                s.evaluations += 1
                label = '%s with a DataFormatIdentifier used before as (%d, %d) and now holding (%d, %d); the reply echoes %s' % (which, c1, e1, c2, e2, echo_kind)
                s.distinct.add(label)
                s.count(which + ': ' + echo_kind)
                if 'b' not in sent:
                    s.fail({'site': which, 'input': label, 'class': 'reassigned helper object', 'observed': '%s %s, nothing sent' % (how, verdict), 'required': 'the request is transmitted'})
                elif which == 'add_file':
                    if verdict == 'ok' and sent['e'] != sent['b']:
                        s.fail({'site': which, 'input': label, 'class': 'reassigned helper object', 'observed': 'sent data format 0x%02X, accepted the echo 0x%02X' % (sent['b'], sent['e']),
                                'required': 'unexpected response: the echo differs from the byte transmitted'})
                    if verdict != 'ok' and sent['e'] == sent['b']:
                        s.fail({'site': which, 'input': label, 'class': 'reassigned helper object', 'observed': '%s %s for the echo 0x%02X of the byte sent' % (how, verdict, sent['e']),
                                'required': 'the matching reply is returned'})
    s.exhaustive = True
    s.sample({'scenario': 'ecu_reset(1) after `with client.payload_override(b"\\x11\\x03"): tester_present()` raised NegativeResponseException', 'required': '11 01 on the wire, 51 01 accepted'})
    return s


def suite_user_code(ctx):
    """an application that extends the library with classes of its own (child process: harness/user_child.py vendor_service)"""
    return core.suite_user_code('vendor_service', 'send_request')


SUITES = [suite_echo, suite_service_id, suite_callw, suite_reentrant, suite_unlock_echo, suite_after, suite_user_code]
