"""C17 — Request/Response objects round-trip via payloads; service ids are unambiguous."""
import sys
from .. import core, extract
from ..core import Suite, hx, ohx, onat, b01

LEAN_TARGETS = ['Uds.Props.C17', 'Uds.Tie.Tables']
ASSUMPTIONS = [
    'absent and empty data are the same message (stated in the theorem)',
    're-encoding is required for payloads the message format admits: a service flagged _no_response_data carries no bytes after its id (DESIGN D2)',
]
RULE = ('msg suite: exhaustive over the first two payload bytes (x tails) for both parsers; all 27 classes x 128 subfunctions x '
        'suppression x data shapes x override for Request; 27 x 256 codes x data shapes for Response. distinct = distinct input lines; '
        'non-trivial = the parse found a service / the build succeeded')


def generate(ctx):
    extract.generate(['Tables'])


def _imports():
    sys.path.insert(0, core.REPO)
    import udsoncan  # noqa
    from udsoncan import Request, Response, services
    from udsoncan.BaseService import BaseService
    return Request, Response, BaseService


def show_req(r):
    return 'svc=%s sf=%s spr=%s data=%s' % (r.service.__name__ if r.service is not None else '-', onat(r.subfunction),
                                         b01(r.suppress_positive_response), ohx(r.data))


def show_resp(r):
    return 'valid=%s svc=%s positive=%s code=%s name=%s reason=%s data=%s' % (
        b01(r.valid), r.service.__name__ if r.service is not None else '-', b01(r.positive), onat(r.code),
        r.code_name if r.code_name else '-', b01(bool(r.invalid_reason)), hx(r.data))


def show_py(f):
    try:
        return 'ok ' + hx(f())
    except Exception as e:  # noqa
        import struct
        if isinstance(e, struct.error):
            return 'err struct.error'
        return 'err ' + type(e).__name__


TAILS = [b'', b'\x00', b'\x7f', b'\xaa\xbb', b'\x01\x02\x03']


def suite_msg(ctx):
    Request, Response, BaseService = _imports()
    s = Suite('msg')
    rng = ctx.rng
    classes = extract.all_subclasses(BaseService)
    byname = {c.__name__: c for c in classes}

    # ---- identifiers (P_spec on impl, exhaustive)
    for i in range(256):
        a = [c for c in classes if c.request_id() == i]
        b = [c for c in classes if c.response_id() == i]
        s.evaluations += 1
        if len(a) > 1 or len(b) > 1:
            s.fail({'site': 'ids', 'input': i, 'observed': [c.__name__ for c in a + b], 'required': 'at most one class per id'})
        ra = BaseService.from_request_id(i)
        rb = BaseService.from_response_id(i)
        if (a and ra is not a[0]) or (not a and ra is not None) or (b and rb is not b[0]) or (not b and rb is not None):
            s.fail({'site': 'ids', 'input': i, 'observed': str((ra, rb)), 'required': 'lookup returns the unique class with this id'})
        if b and i == 0x7F:
            s.fail({'site': 'ids', 'input': i, 'observed': b[0].__name__, 'required': 'no response id equals 0x7F'})
    lines = ['svc.req id=%d' % i for i in range(256)] + ['svc.resp id=%d' % i for i in range(256)]
    impl = [(lambda c: c.__name__ if c else '-')(BaseService.from_request_id(i)) for i in range(256)] + \
           [(lambda c: c.__name__ if c else '-')(BaseService.from_response_id(i)) for i in range(256)]
    core.compare(s, lines, core.drv_batch(lines), impl, lambda i, o: o != '-')

    # ---- parsers: exhaustive over the first two bytes
    payloads = [b'']
    payloads += [bytes([a]) for a in range(256)]
    for a in range(256):
        for b in range(256):
            payloads.append(bytes([a, b]))
            if ctx.thorough:
                for t in TAILS[1:]:
                    payloads.append(bytes([a, b]) + t)
            else:
                payloads.append(bytes([a, b]) + TAILS[1 + (a * 7 + b) % 4])
    for _ in range(ctx.n(2000, 20000)):
        payloads.append(bytes(rng.randrange(256) for _ in range(rng.choice([3, 4, 5, 8, 17, 64]))))
    s.exhaustive = False
    s.notes.append('parsers: exhaustive over the first two bytes; tails sampled')
    # response parser
    lines, impl = [], []
    for p in payloads:
        lines.append('resp.parse p=%s' % hx(p))
        try:
            r = Response.from_payload(p)
        except Exception as e:
            s.fail({'site': 'Response.from_payload', 'input': p.hex(), 'observed': type(e).__name__, 'required': 'parsing is total'})
            impl.append('raise ' + type(e).__name__)
            continue
        re_ = show_py(r.get_payload)
        impl.append(show_resp(r) + ' re=' + re_)
        s.count('resp.valid' if r.valid else 'resp.invalid')
        # P_spec: valid xor reason
        if (not r.valid) and not r.invalid_reason:
            s.fail({'site': 'Response.from_payload', 'input': p.hex(), 'observed': 'invalid without reason', 'required': 'invalid with a reason'})
        if r.valid:
            admissible = r.service.has_response_data() or not r.data
            if admissible and re_ != 'ok ' + hx(p):
                s.fail({'site': 'Response.reencode', 'input': p.hex(), 'observed': re_, 'required': 'ok ' + hx(p)})
        if r.valid and r.service.has_response_data() and (len(p) < 2 or p[1] % 8 == 0):
            # a parsed object is an object like any other: with its data assigned anew, its payload is the payload of the object it now is
            r3 = Response.from_payload(p)
            newd = bytes([len(p) & 0xFF, 0xA5]) if r3.positive else b'\x5a'
            r3.data = newd
            s.evaluations += 1
            try:
                q = Response.from_payload(r3.get_payload())
                got = (q.service, q.code, q.positive, q.data, q.valid)
            except Exception as e:  # noqa
                got = type(e).__name__
            want = (r3.service, r3.code, r3.positive, newd, True)
            if got != want:
                s.fail({'site': 'Response.roundtrip', 'input': p.hex(), 'class': 'parsed object whose data was assigned anew',
                        'observed': str(got), 'required': 'parse(payload) gives the fields of the object back: data %s' % newd.hex()})
        if len(p) <= 2 and (len(p) < 2 or p[1] % 16 == 0):
            # parsing is a function of the payload alone: the caller edits the object it was given, the same payload is parsed again
            from .. import declib
            before = show_resp(r)
            declib.scramble(r)
            r2 = Response.from_payload(p)
            s.evaluations += 1
            if r2 is r or show_resp(r2) != before:
                s.fail({'site': 'Response.from_payload', 'input': p.hex(), 'class': 'parsed again after the first object was edited',
                        'observed': 'same object' if r2 is r else show_resp(r2), 'required': before})
    core.compare(s, lines, core.drv_batch(lines), impl, lambda i, o: o.startswith('valid=1'))
    # request parser
    lines, impl = [], []
    for p in payloads:
        lines.append('req.parse p=%s' % hx(p))
        try:
            r = Request.from_payload(p)
        except Exception as e:
            s.fail({'site': 'Request.from_payload', 'input': p.hex(), 'observed': type(e).__name__, 'required': 'parsing is total'})
            impl.append('raise ' + type(e).__name__)
            continue
        re_ = show_py(r.get_payload)
        impl.append(show_req(r) + ' re=' + re_)
        if r.service is not None and (not r.service.use_subfunction() or len(p) >= 2):
            if re_ != 'ok ' + hx(p):
                s.fail({'site': 'Request.reencode', 'input': p.hex(), 'observed': re_, 'required': 'ok ' + hx(p)})
        if r.service is not None and (len(p) < 2 or p[1] % 8 == 0):
            r3 = Request.from_payload(p)
            r3.data = b'\x5a\x00'
            if r3.service.use_subfunction():
                r3.subfunction = 0x2B
                r3.suppress_positive_response = not r3.suppress_positive_response
            s.evaluations += 1
            try:
                q = Request.from_payload(r3.get_payload())
                got = (q.service, q.subfunction, q.suppress_positive_response, q.data)
            except Exception as e:  # noqa
                got = type(e).__name__
            want = (r3.service, r3.subfunction if r3.service.use_subfunction() else None, r3.suppress_positive_response, b'\x5a\x00')
            if got != want:
                s.fail({'site': 'Request.roundtrip', 'input': p.hex(), 'class': 'parsed object whose fields were assigned anew',
                        'observed': str(got), 'required': str(want)})
    core.compare(s, lines, core.drv_batch(lines), impl, lambda i, o: not o.startswith('svc=-'))

    # ---- builders
    datas = [None, b'', b'\x01', b'\x80\x00\xff']
    lines, impl = [], []
    for c in classes:
        for sf in list(range(128)) + [None, 128, 255, 256]:
            for spr in (False, True):
                ds = datas + [bytes(rng.randrange(256) for _ in range(rng.randrange(1, 12)))]
                for d in ds:
                    ovrs = (None, True, False) if (ctx.thorough or rng.random() < 0.15) else (None,)
                    for ovr in ovrs:
                        lines.append('req.build svc=%s sf=%s spr=%s data=%s ovr=%s' % (c.__name__, onat(sf), b01(spr), ohx(d),
                                                                                    '-' if ovr is None else b01(ovr)))

                        def build(c=c, sf=sf, spr=spr, d=d, ovr=ovr):
                            return Request(c, subfunction=sf, suppress_positive_response=spr, data=d).get_payload(ovr)
                        o = show_py(build)
                        impl.append(o)
                        # P_spec (independent of the model): parse(build) gives the fields back
                        if o.startswith('ok') and ovr is None and sf is not None and sf < 128:
                            p = build()
                            q = Request.from_payload(p)
                            want = (c, sf if c.use_subfunction() else None, spr, d if d else None)
                            got = (q.service, q.subfunction, q.suppress_positive_response, q.data if q.data else None)
                            if want != got:
                                s.fail({'site': 'Request.roundtrip', 'input': lines[-1], 'observed': show_req(q), 'required': str(want)})
                        if sf is not None and sf < 128 and ovr is None and (not spr or c.use_subfunction()) and not o.startswith('ok'):
                            s.fail({'site': 'Request.roundtrip', 'input': lines[-1], 'observed': o, 'required': 'a payload'})
    core.compare(s, lines, core.drv_batch(lines), impl, lambda i, o: o.startswith('ok'))
    s.sample({'line': lines[5], 'impl': impl[5]})

    rdatas = [b'', b'\x00', b'\x01', b'\x7f\x10\x11']
    lines, impl = [], []
    for c in classes:
        for code in list(range(256)) + [256, 1000]:
            for d in rdatas + [bytes(rng.randrange(256) for _ in range(rng.randrange(1, 12)))]:
                line = 'resp.build svc=%s code=%d data=%s' % (c.__name__, code, hx(d))
                lines.append(line)
                try:
                    r = Response(c, code, d)
                except Exception as e:
                    impl.append('err ' + type(e).__name__)
                    if code <= 255:
                        s.fail({'site': 'Response.roundtrip', 'input': line, 'code': code, 'observed': 'err ' + type(e).__name__, 'required': 'an object'})
                    continue
                pl = show_py(r.get_payload)
                impl.append(show_resp(r) + ' payload=' + pl)
                admissible = (not d) if not c.has_response_data() else (code != 0 or len(d) >= 1)
                if admissible:
                    if not pl.startswith('ok'):
                        s.fail({'site': 'Response.roundtrip', 'input': line, 'code': code, 'observed': pl, 'required': 'a payload'})
                        continue
                    q = Response.from_payload(r.get_payload())
                    want = (c, code, code == 0, d)
                    got = (q.service, q.code, q.positive, q.data)
                    if want != got or q.positive != r.positive or not q.valid:
                        s.fail({'site': 'Response.roundtrip', 'input': line, 'code': code, 'named_code': r.code_name != str(code),
                                'observed': show_resp(q), 'required': 'service, code %d, positive=%s, data back' % (code, code == 0)})
    core.compare(s, lines, core.drv_batch(lines), impl, lambda i, o: 'payload=ok' in o)
    s.sample({'line': lines[700], 'impl': impl[700]})
    return s


def suite_threads(ctx):
    """identifiers resolve to exactly one service and parsing stays total whatever another thread is doing: a user-defined service (the library looks services up
    over all BaseService subclasses, user-defined ones included) is slow to tell its identifier to one thread; while that thread is inside its lookup, the
    frames of every library service are parsed by another thread.  Runs in a child process (harness/threads_child.py)."""
    import json
    import os
    import subprocess
    import sys as _sys
    s = Suite('threads')
    env = dict(os.environ, UDS_REPO=core.REPO)
    child = os.path.join(os.path.dirname(os.path.dirname(os.path.abspath(__file__))), 'threads_child.py')
    for run in range(ctx.n(2, 6)):
        p = subprocess.run([_sys.executable, child], stdout=subprocess.PIPE, stderr=subprocess.PIPE, text=True, env=env, timeout=120)
        s.evaluations += 1
        s.distinct.add('run%d' % run)
        try:
            problems = json.loads(p.stdout.strip().split('\n')[-1])
        except Exception:  # noqa
            s.fail({'site': 'lookup while another thread parses', 'input': 'threads_child.py run %d' % run, 'observed': 'child failed: ' + (p.stderr or p.stdout)[-600:],
                    'required': 'every frame of every service parsed as before'})
            continue
        for pr in problems:
            if pr.get('setup'):
                s.notes.append(pr['observed'])
                continue
            s.fail({'site': 'lookup while another thread parses', 'input': '%s: frame %s' % (pr['when'], pr['frame']), 'observed': pr['observed'], 'required': pr['required']})
        s.count('runs')
    s.sample({'child': 'threads_child.py', 'problems': 0 if not s.spec_failures else len(s.spec_failures)})
    return s


def suite_isolated(ctx):
    """a process that imports nothing but the message classes (a log decoder, a sniffer) parses and re-encodes the frames of the standard services (child process: harness/isolated_child.py parse_only)"""
    import json
    import os
    import subprocess
    import sys as _sys
    s = Suite('isolated')
    env = dict(os.environ, UDS_REPO=core.REPO)
    child = os.path.join(os.path.dirname(os.path.dirname(os.path.abspath(__file__))), 'isolated_child.py')
    p = subprocess.run([_sys.executable, child, 'parse_only'], stdout=subprocess.PIPE, stderr=subprocess.PIPE, text=True, env=env, timeout=120)
    s.evaluations += 1
    s.distinct.add('parse_only')
    try:
        problems = json.loads(p.stdout.strip().split('\n')[-1])
    except Exception:  # noqa
        problems = [{'input': 'isolated_child.py parse_only', 'observed': 'child failed: ' + (p.stderr or p.stdout)[-500:], 'required': 'the scenarios run to their end'}]
    for pr in problems:
        s.fail({'site': 'parsing in a parse-only process', 'input': pr['input'], 'observed': pr['observed'], 'required': pr['required']})
    s.exhaustive = True
    return s


def suite_races(ctx):
    """several threads use the library at the same moment, each on objects of its own, from the first use in a fresh process: what each thread gets is what the same call
    gives single-threaded (child processes: harness/race_child.py lookups)"""
    return core.suite_races(['lookups'], ctx.n(10, 24))


SUITES = [suite_msg, suite_threads, suite_isolated, suite_races]
