"""C06 — every negative response code ends the request as negative; only 0x78 prolongs."""
from .. import core, extract
from ..core import Suite, onat, b01, ohx

LEAN_TARGETS = ['Uds.Props.C06', 'Uds.Props.C06Call', 'Uds.Props.CallUnify', 'Uds.Props.C06Hist', 'Uds.Tie.Tables']
ASSUMPTIONS = [
    'the request frame of each call is taken from the real client (request construction is modelled under C01); '
    'the model covers send_request and the decorator',
]
RULE = ('call suite: every one of the 80 client entry points x the three editions (standard_version 2006 / 2013 / 2020; a call the edition refuses locally is run under 2020) x all 256 codes in a 0x7F frame for the pending service x k in 0..3 preceding 0x78 frames x '
        'trailing bytes x exception_on_negative_response (quick: all entry points x all codes with one random (k, tail, switch) each; thorough: the full product). '
        'distinct = distinct (call, code, k, tail, switch); non-trivial = all')


def generate(ctx):
    extract.generate(['Tables'])


TAILS = [b'', b'\x00', b'\xAA\x55\x01']


def suite_call(ctx):
    from .. import clientlib as cl, entries
    from udsoncan.ResponseCode import ResponseCode
    from udsoncan.exceptions import NegativeResponseException, TimeoutException
    s = Suite('call')
    rng = ctx.rng
    svcs = cl.services_by_name()
    by_sid = {c._sid: c for c in svcs.values()}
    members = extract.int_consts(ResponseCode)
    named_codes = {v for _, v in members}
    calls = entries.default_calls()
    if not ctx.thorough:
        seen = set()
        sel = []
        for c in calls:
            if c.name not in seen:
                seen.add(c.name)
                sel.append(c)
        calls = sel
    lines, impl = [], []
    for c in calls:
        combos = []
        for code in range(256):
            if ctx.thorough:
                for k in range(4):
                    for tail in TAILS:
                        for sw in (True, False):
                            combos.append((code, k, tail, sw))
            elif code in named_codes:
                # a code with a standard name is the one a method would single out: both settings of the switch
                combos.append((code, rng.randrange(4), rng.choice(TAILS), True))
                combos.append((code, rng.randrange(4), rng.choice(TAILS), False))
            else:
                combos.append((code, rng.randrange(4), rng.choice(TAILS), rng.random() < 0.5))
        for (code, k, tail, sw) in combos:
            # the edition the client enforces must not matter: a code the configured edition does not list is still a negative response
            # sometimes inside a suppress-positive-response block that waits for an NRC: a negative reply is still processed normally
            blk = rng.random() < 0.2
            for std in ([rng.choice([2006, 2013, 2020, 2020])] if 'standard_version' not in c.cfg else [None]) + [2020]:
                cfg = cl.Cfg(rt=50000, p2=1000, p2s=5000, cb=True, exc=(sw, True, True), std=std if std is not None else 2020, spr=blk, wnrc=blk)
                client, conn = cl.make_client(cfg, extra=c.config())
                state = {'first': None}

                def responder(p, state=state, code=code, k=k, tail=tail):
                    if state['first'] is None:
                        state['first'] = p
                    sid = p[0]
                    return [(10 * (i + 1), bytes([0x7F, sid, 0x78])) for i in range(k)] + [(10 * (k + 1), bytes([0x7F, sid, code]) + tail)]
                conn.responder = responder
                def run(client=client, cfg=cfg):
                    with cl.Ctxs(client, cfg):
                        return c.invoke(client)
                how, verdict, flags, payload, exc, r = cl.observe_outer(conn, run)
                if state['first'] is not None:
                    break                       # (a call the chosen edition refuses locally is repeated under 2020)
            s.count('edition %s' % client.config['standard_version'])
            log = list(conn.log)
            frame = state['first']
            if frame is None:
                s.fail({'site': c.desc(), 'input': 'code=%d' % code, 'observed': 'nothing sent: %s' % verdict, 'required': 'a request'})
                continue
            name, sf, data = cl.frame_to_req(frame, by_sid)
            arr = [(10 * (i + 1), bytes([0x7F, frame[0], 0x78])) for i in range(k)] + [(10 * (k + 1), bytes([0x7F, frame[0], code]) + tail)]
            line = 'sendd sw=%s11 %s svc=%s sf=%s rspr=0 data=%s timeout=- arr=%s' % (b01(sw), cfg.line(), name, onat(sf), ohx(data), cl.arrivals_str(arr))
            lines.append(line)
            impl.append('log=%s how=%s verdict=%s flags=%s' % (cl.fmt_log(log), how, verdict, flags))
            # ---- P_spec on the implementation
            rec = {'site': c.name, 'call': c.desc(), 'code': code, 'k': k, 'tail': tail.hex(), 'exception_on_negative_response': sw, 'standard_version': client.config['standard_version'], 'input': line,
                   'inside_suppress_block_waiting_for_nrc': blk}
            suppressed = blk and by_sid[frame[0]].use_subfunction()
            s.count('inside suppress block' if blk else 'outside')
            ncb = sum(1 for op in log if op[0] == 'callback')
            nsend = sum(1 for op in log if op[0] == 'send')
            if code == 0x78:
                # never surfaced: the request stays pending until the window closes
                want78 = 'none' if suppressed else 'other:timeout'          # waiting for an NRC: silence after the pending replies is None, not a timeout error
                if verdict != want78:
                    s.fail(dict(rec, observed=verdict, required='%s (0x78 is never surfaced)' % want78))
                elif ncb != k + 1:
                    s.fail(dict(rec, observed='%d callbacks' % ncb, required='%d callbacks' % (k + 1)))
                s.count('code78')
                continue
            names = [n for n, v in members if v == code]
            want_how = 'exc' if sw else 'ret'
            if verdict != 'negative:%d' % code or how != want_how:
                s.fail(dict(rec, observed='%s %s' % (how, verdict), required='%s negative:%d' % (want_how, code)))
            elif r is None or r.code != code or r.positive or (names and r.code_name not in names) or (not names and r.code_name != str(code)):
                s.fail(dict(rec, observed='code=%s name=%s positive=%s' % (getattr(r, 'code', None), getattr(r, 'code_name', None), getattr(r, 'positive', None)),
                            required='code=%d name in %s positive=False' % (code, names or [str(code)])))
            elif ncb != k:
                s.fail(dict(rec, observed='%d callbacks' % ncb, required='%d callbacks (one per 0x78)' % k))
            elif nsend != 1:
                s.fail(dict(rec, observed='%d frames sent' % nsend, required='1 frame sent'))
            else:
                # each callback precedes the next wait
                kinds = [op[0] for op in log if op[0] in ('wait', 'callback')]
                if kinds != ['wait'] + ['callback', 'wait'] * k:
                    s.fail(dict(rec, observed=str(kinds), required='wait (callback wait)*k'))
            s.count('named' if names else 'unnamed')
    core.compare(s, lines, core.drv_batch(lines), impl)
    for i in (0, len(lines) // 3, len(lines) - 1):
        s.sample({'line': lines[i], 'impl': impl[i]})
    s.exhaustive = ctx.thorough
    s.notes.append('entry points: %d calls' % len(calls))
    return s


def suite_edges(ctx):
    """0x78 frames placed before / exactly at / after the P2, P2* and overall deadlines: 0x78 must never be what the caller gets"""
    from .. import clientlib as cl
    from udsoncan import Request
    s = Suite('edges')
    rng = ctx.rng
    svcs = cl.services_by_name()
    lines, impl = [], []
    for rt in (None, 30, 100, 1000):
        for p2, p2s in ((10, 40), (40, 10), (100, 100), (2000, 2000)):
            for _ in range(ctx.n(25, 400)):
                svc = rng.choice(['ECUReset', 'TesterPresent', 'ReadDataByIdentifier', 'RoutineControl', 'TransferData'])
                sid = svcs[svc]._sid
                k = rng.randrange(1, 6)
                now, single, arr = 0, (p2 if rt is None else min(p2, rt)), []
                for i in range(k):
                    w = single if rt is None else min(single, max(rt - now, 0))
                    t = now + rng.choice([0, w, w, max(w - 1, 0), w + 1, (rt - now) if rt is not None and rt >= now else w])
                    arr.append((t, bytes([0x7F, sid, 0x78])))
                    now, single = max(now, t), p2s
                fin = rng.choice(['neg', 'neg', 'pos', 'none'])
                if fin != 'none':
                    w = single if rt is None else min(single, max(rt - now, 0))
                    t = now + rng.choice([0, w, w + 1])
                    arr.append((t, bytes([0x7F, sid, rng.choice([0x10, 0x22, 0x31, 0x00, 0xFF])]) if fin == 'neg' else bytes([sid + 0x40, 1, 2])))
                sw = rng.random() < 0.5
                cfg = cl.Cfg(rt=rt, p2=p2, p2s=p2s, cb=True, exc=(sw, True, True))
                client, conn = cl.make_client(cfg)
                conn.script = list(arr)
                sf = 1 if svcs[svc].use_subfunction() else None
                req = Request(svcs[svc], subfunction=sf)
                # through a decorated wrapper-free path: send_request itself, then the decorator model via `sendd`
                line = 'send %s svc=%s sf=%s rspr=0 data=- timeout=- arr=%s' % (cfg.line(), svc, onat(sf), cl.arrivals_str(arr))
                if sf is not None and rng.random() < 0.25:
                    # the application keeps one Request object (a keep-alive, say): it was already sent once on this client inside a suppress block
                    conn.script = []
                    with client.suppress_positive_response:
                        try:
                            client.send_request(req)
                        except Exception:  # noqa
                            pass
                    conn.script = list(arr)
                    s.count('request object sent before inside a suppress block')
                obs = cl.observe(conn, lambda: client.send_request(req))
                lines.append(line)
                impl.append(obs)
                out = obs.split(' out=')[1]
                s.count('out=' + ':'.join(x.split(' ')[0][:8] for x in out.split(':')[:2]))
                if 'code=120' in out or 'negative:120' in out:
                    s.fail({'site': 'send_request', 'input': line, 'observed': out, 'required': '0x78 is never surfaced (pending replies end in a final reply or a timeout)'})
                # the property read off the schedule (independent of the model): every in-time 0x78 keeps the request pending, the first other frame that
                # arrives inside its window ends it - negative with its code, or positive -, a frame outside its window or no frame is a timeout
                now, single, want = 0, (p2 if rt is None else min(p2, rt)), 'raise:timeout'
                for (t, fr) in arr:
                    w = single if rt is None else min(single, max(rt - now, 0))
                    if t > now + w:
                        break
                    now = max(now, t)
                    if fr[0] == 0x7F and fr[2] == 0x78:
                        single = p2s
                        continue
                    want = ('raise:negative:%d' % fr[2]) if fr[0] == 0x7F else 'resp:'
                    break
                if not out.startswith(want):
                    s.fail({'site': 'send_request', 'input': line, 'class': 'pending replies at the window edges', 'observed': out[:120],
                            'required': want + (' (the final reply, valid and positive)' if want == 'resp:' else '')})
    core.compare(s, lines, core.drv_batch(lines), impl)
    s.sample({'line': lines[0], 'impl': impl[0]})
    return s


def suite_callw(ctx):
    """whole client calls of every service family against the model's callWith (udsdrv callw): the correspondence the call-level theorems rest on"""
    from .. import callw
    return callw.suite_callw(ctx, 'C06')


def suite_two_clients(ctx):
    """a second client object in the same process (inside a suppress block, a payload override, with adopted timing, reconfigured, after a failed call) never shows
    in this client's frames or outcome: the C15 two_clients suite, run here as well (state kept on the class instead of the instance breaks this property too)"""
    from . import c15
    return c15.suite_two_clients(ctx)


def suite_reentrant(ctx):
    """the pending-response callback uses the client it belongs to (the documentation suggests sending TesterPresent from it): the request in flight goes on as if the
    callback had done nothing - harness/reentrant.py, metamorphic against a callback that only counts"""
    from .. import reentrant
    return reentrant.suite_reentrant(ctx)


def suite_user_code(ctx):
    """an application that extends the library with classes of its own (child process: harness/user_child.py vendor_service)"""
    return core.suite_user_code('vendor_service', 'send_request')


def suite_hist(ctx):
    """whole histories against the model's hrun, read for this property (harness/histsw.py)"""
    from .. import histsw
    return histsw.suite_hist(ctx, 'C06')


SUITES = [suite_call, suite_edges, suite_callw, suite_two_clients, suite_reentrant, suite_user_code, suite_hist]
