"""C13 — security unlock sends a seed request, then exactly the computed key, or nothing."""
from .. import core, extract
from ..core import Suite

LEAN_TARGETS = ['Uds.Props.C13', 'Uds.Props.C15Stray', 'Uds.Tie.CallGraph']
ASSUMPTIONS = [
    'the security algorithm is user code: the model takes it as a function of (seed, level); the harness uses a recording Python function and also the four '
    'documented signatures (seed / seed,level / seed,params / seed,level,params) and a callable object',
]
RULE = ('hist suite: unlock_security_access over all 126 levels (both spellings), seed lengths 1..40, seed replies good / all-zero / negative / invalid / echo mismatch / '
        'empty seed / pending-then-good / silence, key replies good / negative / silence / echo mismatch, all switch settings, interleaved with other calls; '
        'signature suite: every level x algorithm signature. distinct = distinct history lines / (level, signature); non-trivial = an unlock was attempted')


def generate(ctx):
    extract.generate(['CallGraph'])


def suite_hist(ctx):
    from .. import hist
    s = Suite('hist')
    rng = ctx.rng
    lines, impl = [], []
    for _ in range(ctx.n(600, 12000)):
        hcfg = hist.HCfg(rt=rng.choice([None, 5120]), sw=tuple(rng.random() < 0.6 for _ in range(3)), std=rng.choice([2006, 2013, 2020]))
        ops, meta = hist.gen_history(rng, 'unlock', rng.randrange(2, ctx.n(7, 20)), hcfg)
        out, tr, client, conn = hist.run_history(hcfg, ops)
        line = hcfg.line(ops)
        lines.append(line)
        impl.append(out)
        for st, m in zip(tr.steps, meta):
            op = st['op']
            if op[0] != 'unlock':
                continue
            s.distinct.add(line)
            level, sp = op[1], op[2]
            sends = [o[1] for o in st['log'] if o[0] == 'send']
            rec = {'site': 'unlock_security_access', 'input': line, 'level': level, 'seed_reply': m['skind'], 'key_reply': m['kkind']}
            if not 1 <= level <= 0x7E:
                if sends:
                    s.fail(dict(rec, observed='sent %s' % sends[0].hex(), required='level rejected, nothing sent'))
                continue
            k = (level + 1) // 2
            want_seed = bytes([0x27, 2 * k - 1]) + sp
            if not sends or sends[0] != want_seed:
                s.fail(dict(rec, observed=(sends[0].hex() if sends else 'nothing'), required=want_seed.hex()))
                continue
            in_time = hist.all_in_time(op[3], st['before']['timing'], hcfg)
            good = m['skind'] in ('good', 'pend_good') and in_time
            if good:
                seed = m['seed']
                want_key = bytes([0x27, 2 * k]) + hist.algo(seed, level, None)
                if len(sends) != 2 or sends[1] != want_key:
                    s.fail(dict(rec, observed=[x.hex() for x in sends[1:]], required=want_key.hex()))
                elif st['algo'] != [(seed, level, b'\x01')]:
                    s.fail(dict(rec, observed=str(st['algo']), required='one call with (seed, level as passed, configured params)'))
            else:
                if len(sends) != 1 or st['algo']:
                    s.fail(dict(rec, observed='%d frames, %d algorithm calls' % (len(sends), len(st['algo'])), required='exactly the seed request, algorithm not called'))
            s.count(m['skind'] + '/' + (m['kkind'] if good else '-'))
    core.compare(s, lines, core.drv_batch(lines), impl, lambda i, o: False)
    s.sample({'line': lines[0], 'impl': impl[0]})
    return s


def suite_signatures(ctx):
    """all levels x documented algorithm signatures (real client only)"""
    from .. import clientlib as cl
    s = Suite('signatures')
    rng = ctx.rng
    calls = []

    def a1(seed):
        calls.append(('seed', seed)); return b'K' + seed

    def a2(seed, level):
        calls.append(('seed,level', seed, level)); return b'K' + seed

    def a3(seed, params):
        calls.append(('seed,params', seed, params)); return b'K' + seed

    def a4(seed, level, params):
        calls.append(('seed,level,params', seed, level, params)); return b'K' + seed

    def a5(level, seed, params):
        calls.append(('seed,level,params', seed, level, params)); return b'K' + seed

    class Obj:
        def __call__(self, seed, level, params):
            calls.append(('seed,level,params', seed, level, params)); return b'K' + seed
    import functools

    @functools.wraps(a1)
    def a6(level, seed, params):            # a wrapper with the full signature around a seed-only routine (functools.wraps: __wrapped__, __name__ of the inner one)
        calls.append(('seed,level,params', seed, level, params)); return a1_plain(seed)

    def a1_plain(seed):
        return b'K' + seed
    a7 = functools.partial(a4)              # no __code__ of its own: gets all three by keyword

    class Device:                           # the algorithm is a bound method of an application object that keeps a record of its own
        def __init__(self):
            self.used = []

        def compute(self, seed, level, params):
            self.used.append((seed, level, params))
            calls.append(('seed,level,params', seed, level, params)); return b'K' + seed
    device = Device()
    algos = [a1, a2, a3, a4, a5, Obj(), a6, a7, device.compute]
    for level in range(1, 0x7F):
        for algo in algos:
            for exc in ((True, True, True), (False, False, False)):
                if not ctx.thorough and rng.random() < 0.5:
                    continue
                seed = bytes(rng.randrange(1, 256) for _ in range(rng.choice([1, 2, 4, 16, 40])))
                cfg = cl.Cfg(exc=exc)
                params = {'p': 7, 'secret': [1, 2]}
                client, conn = cl.make_client(cfg, extra={'security_algo': algo, 'security_algo_params': params})
                params['secret'].append(level)          # the application updates its parameter record after the client was built: the algorithm gets that object
                n_used = len(device.used)
                k = (level + 1) // 2
                conn.responder = lambda p, seed=seed: [(1, bytes([0x67, p[1]]) + (seed if p[1] % 2 == 1 else b''))]
                del calls[:]
                how, verdict, flags, payload, e, r = cl.observe_outer(conn, lambda: client.unlock_security_access(level))
                sends = [o[1] for o in conn.log if o[0] == 'send']
                s.evaluations += 1
                s.distinct.add('%d:%s' % (level, getattr(algo, '__name__', 'obj')))
                rec = {'site': 'unlock_security_access signatures', 'level': level, 'algo': {a6: 'functools.wraps wrapper (level, seed, params) around a seed-only routine', a7: 'functools.partial', device.compute: 'bound method'}.get(algo, getattr(algo, '__name__', 'callable object')) if not isinstance(algo, Obj) else 'callable object', 'input': seed.hex()}
                want = [bytes([0x27, 2 * k - 1]), bytes([0x27, 2 * k]) + b'K' + seed]
                if sends != want or verdict != 'ok':
                    s.fail(dict(rec, observed='%s %s' % (verdict, [x.hex() for x in sends]), required=[x.hex() for x in want]))
                elif len(calls) != 1 or calls[0][1] != seed or ('level' in calls[0][0] and calls[0][2] != level) or \
                        ('params' in calls[0][0] and (calls[0][-1] is not params or calls[0][-1] != {'p': 7, 'secret': [1, 2, level]})):
                    s.fail(dict(rec, observed=str(calls)[:300], required='one call with that seed, the level as passed and the configured params object (as it is now: secret [1, 2, %d])' % level))
                elif algo == device.compute and len(device.used) != n_used + 1:
                    s.fail(dict(rec, observed='the configured object recorded %d calls' % (len(device.used) - n_used), required='the configured bound method itself is called once'))
    s.exhaustive = ctx.thorough
    s.sample({'level': 0x7E, 'frames': ['277d', '277e4b<seed>']})
    return s


def suite_algo_switch(ctx):
    """one client, several unlocks, the configured algorithm / its parameters replaced in between (client.config[...] = ..., set_config):
    every unlock must call the algorithm configured *now*, once, with the seed, the level as passed and the params configured now"""
    from .. import clientlib as cl
    s = Suite('algo_switch')
    rng = ctx.rng
    calls = []

    def mk(sig, tag):
        if sig == 's':
            def f(seed):
                calls.append((tag, seed, None, None)); return tag + seed
        elif sig == 'sl':
            def f(seed, level):
                calls.append((tag, seed, level, None)); return tag + seed
        elif sig == 'sp':
            def f(seed, params):
                calls.append((tag, seed, None, params)); return tag + seed
        elif sig == 'slp':
            def f(seed, level, params):
                calls.append((tag, seed, level, params)); return tag + seed
        else:
            class O:
                def __call__(self, seed, level, params):
                    calls.append((tag, seed, level, params)); return tag + seed
            f = O()
        return f
    for _ in range(ctx.n(150, 3000)):
        client, conn = cl.make_client(cl.Cfg(exc=tuple(rng.random() < 0.7 for _ in range(3))), extra={'security_algo': None, 'security_algo_params': None})
        hist_desc = []
        same = rng.random() < 0.5           # the ECU hands out the same seed for the same level again (a fixed-seed ECU): nothing computed earlier may be reused
        fixed_level = rng.choice([1, 2, 3, 0x10, 0x7D, 0x7E])
        fixed_seed = bytes(rng.randrange(1, 256) for _ in range(rng.choice([1, 4, 8])))
        for step in range(rng.randrange(2, 6)):
            params = rng.choice([None, b'\x01', {'k': step}, 0, b'', False, {}])      # falsy parameters are parameters too
            if step > 0 and rng.random() < 0.4:
                pass        # the algorithm stays the very same object: only its parameters change (or nothing does) - it is called again all the same
            else:
                sig = rng.choice(['s', 'sl', 'sp', 'slp', 'obj'])
                tag = bytes([0x41 + step])
                algo = mk(sig, tag)
            if rng.random() < 0.5:
                client.config['security_algo'] = algo
                client.config['security_algo_params'] = params
                how_set = 'config[]'
            else:
                client.set_configs({'security_algo': algo, 'security_algo_params': params})
                how_set = 'set_configs'
            level = rng.choice([1, 2, 3, 0x10, 0x7D, 0x7E])
            seed = bytes(rng.randrange(1, 256) for _ in range(rng.choice([1, 4, 8])))
            if same:
                level, seed = fixed_level, fixed_seed
            conn.responder = lambda p, seed=seed: [(1, bytes([0x67, p[1]]) + (seed if p[1] % 2 == 1 else b''))]
            del calls[:]
            how, verdict, flags, payload, e, r = cl.observe_outer(conn, lambda: client.unlock_security_access(level))
            sends = [o[1] for o in conn.log if o[0] == 'send']
            hist_desc.append('%s:%s level=%d seed=%s via %s' % (sig, tag.decode(), level, seed.hex(), how_set))
            k = (level + 1) // 2
            want = [bytes([0x27, 2 * k - 1]), bytes([0x27, 2 * k]) + tag + seed]
            s.evaluations += 1
            s.distinct.add('|'.join(hist_desc))
            rec = {'site': 'unlock_security_access after algorithm change', 'input': ' ; '.join(hist_desc), 'seed': seed.hex()}
            exp_call = (tag, seed, level if 'l' in sig or sig == 'obj' else None, params if 'p' in sig or sig == 'obj' else None)
            if sends != want or verdict != 'ok':
                s.fail(dict(rec, observed='%s %s' % (verdict, [x.hex() for x in sends]), required=[x.hex() for x in want]))
                break
            if calls != [exp_call]:
                s.fail(dict(rec, observed=str(calls), required='exactly one call %s' % (exp_call,)))
                break
            s.count('sig=' + sig)
    s.sample({'history': 'sl:A level=3 via config[] ; s:B level=4 via set_configs', 'required': 'each unlock calls the algorithm configured at that moment'})
    return s


def suite_algo_raises(ctx):
    """the configured algorithm fails (its own body raises - a secret not loaded yet, a signing service that is down): it was called exactly once for that seed, its
    exception reaches the caller, and nothing but the seed request was transmitted"""
    from .. import clientlib as cl
    s = Suite('algo_raises')
    for exc_type in (TypeError, ValueError, RuntimeError, KeyError, ZeroDivisionError):
        for sig in ('s', 'sl', 'slp', 'obj', 'kw'):
            for level in (1, 2, 0x7D):
                calls = []

                def boom():
                    calls.append(1)
                    if exc_type is TypeError:
                        return None + 1         # a genuine TypeError from the algorithm's own body
                    raise exc_type('algorithm failed')
                if sig == 's':
                    algo = lambda seed: boom()
                elif sig == 'sl':
                    algo = lambda seed, level: boom()
                elif sig == 'slp':
                    algo = lambda seed, level, params: boom()
                elif sig == 'kw':
                    algo = lambda **kw: boom()
                else:
                    class O:
                        def __call__(self, seed, level, params):
                            return boom()
                    algo = O()
                client, conn = cl.make_client(cl.Cfg(), extra={'security_algo': algo, 'security_algo_params': b'\x01'})
                conn.responder = lambda p: [(1, bytes([0x67, p[1]]) + (b'\x11\x22\x33' if p[1] % 2 == 1 else b''))]
                how, verdict, flags, payload, e, r = cl.observe_outer(conn, lambda: client.unlock_security_access(level))
                sends = [o[1] for o in conn.log if o[0] == 'send']
                k = (level + 1) // 2
                s.evaluations += 1
                s.distinct.add('%s:%s:%d' % (exc_type.__name__, sig, level))
                rec = {'site': 'unlock_security_access', 'input': 'security_algo (%s signature) raises %s; level %d' % (sig, exc_type.__name__, level)}
                if len(calls) != 1:
                    s.fail(dict(rec, observed='algorithm called %d times' % len(calls), required='exactly once'))
                elif sends != [bytes([0x27, 2 * k - 1])]:
                    s.fail(dict(rec, observed=[x.hex() for x in sends], required='only the seed request %s' % bytes([0x27, 2 * k - 1]).hex()))
                elif how != 'exc' or not isinstance(e, exc_type):
                    s.fail(dict(rec, observed='%s %s' % (how, type(e).__name__ if e is not None else verdict), required='the algorithm\'s %s reaches the caller' % exc_type.__name__))
    s.exhaustive = True
    return s


SUITES = [suite_hist, suite_signatures, suite_algo_switch, suite_algo_raises]
