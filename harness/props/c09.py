"""C09 — response suppression sets bit 7, returns None, and never outlives its with-block."""
from .. import core
from ..core import Suite

LEAN_TARGETS = ['Uds.Props.C09', 'Uds.Props.C09Call', 'Uds.Props.C09Hist', 'Uds.Props.C09Block', 'Uds.Props.CallUnify']
ASSUMPTIONS = [
    'with payload_override nested inside the block the override receives the payload after bit 7 was set (client.py:2238-2245); a literal override transmits the caller\'s bytes',
    'entry points of the simple services are modelled at call level (13 entry points + the unlock composite); the send_request part is common to all 80',
]
RULE = ('raw suite: caller-built Request objects with every sub-function byte (bit 7 possibly set already) x 3 services x wait_nrc, sent inside a suppress block and again after it (same object). hist suite: random well-nested histories (enter/leave suppress_positive_response with wait_nrc on/off, normally and by exception, nested with '
        'payload_override, calls inside and after the block with silence / positive / negative / 0x78-chains / invalid replies). Compared op by op with udsdrv; '
        'the property is also evaluated on the real client against an independent construction of the request frames. distinct = distinct history lines; '
        'non-trivial = at least one call inside a block')


def expected_frame(hist, e, std):
    return hist.entry_frame(e, std)


def suite_hist(ctx):
    from .. import hist, clientlib as cl
    s = Suite('hist')
    rng = ctx.rng
    lines, impl = [], []
    _corpus, _hi = hist.corpus_histories(), 0
    for _ in range(ctx.n(600, 12000)):
        hcfg = hist.HCfg(rt=rng.choice([None, 5120, 300]), p2=rng.choice([1024, 100]), p2s=rng.choice([5120, 200]), cb=rng.random() < 0.5,
                         std=rng.choice([2006, 2013, 2020]))
        ops, meta = hist.gen_history(rng, 'spr', rng.randrange(3, ctx.n(9, 30)), hcfg)
        if _hi < len(_corpus):
            ops, meta = _corpus[_hi]            # fixed histories first (hist.corpus_histories)
        _hi += 1
        out, tr, client, conn = hist.run_history(hcfg, ops)
        line = hcfg.line(ops)
        lines.append(line)
        impl.append(out)
        in_block = False
        for st, m in zip(tr.steps, meta):
            op = st['op']
            if op[0] in ('xspr',) and st['after'] is not None and st['after']['spr']:
                s.fail({'site': '__exit__', 'input': line, 'observed': 'suppression still enabled after the block', 'required': 'cleared', 'exit': op[1]})
            if op[0] == 'unlock' and st['before']['spr'] and 1 <= op[1] <= 0x7E:
                sends = [o[1] for o in st['log'] if o[0] == 'send']
                wn = None
                for st2 in tr.steps:
                    if st2 is st:
                        break
                    if st2['op'][0] == 'espr':
                        wn = st2['op'][1] is True     # a bare block ('b') never waits: wait_nrc was reset by the previous exit
                    elif st2['op'][0] == 'xspr':
                        wn = None
                if not wn and (st['verdict'] != 'none' or len(sends) != 1):
                    s.fail({'site': 'unlock_security_access in block', 'input': line, 'level': op[1],
                            'observed': '%s, %d frames' % (st['verdict'], len(sends)), 'required': 'None, one frame (bit 7 set), no read'})
                s.count('unlock_in_block')
            if op[0] != 'call':
                continue
            e = op[1]
            b = st['before']
            f0 = hist.entry_frame(e, hcfg.std)
            sends = [o[1] for o in st['log'] if o[0] == 'send']
            waits = [o for o in st['log'] if o[0] == 'wait']
            rec = {'site': 'call in block' if b['spr'] else 'call outside block', 'input': line, 'entry': hist.entry_str(e), 'kind': m.get('kind')}
            if f0 is None:
                if sends:
                    s.fail(dict(rec, observed='sent %s' % sends[0].hex(), required='rejected before sending'))
                continue
            has_sf = e[0] in hist.HAS_SF
            want = bytearray(f0)
            if b['spr'] and has_sf:
                in_block = True
                want[1] |= 0x80
            ovr = None
            # which override is active? the innermost eovr still open: recompute from the trace
            depth = []
            for st2 in tr.steps:
                if st2 is st:
                    break
                if st2['op'][0] == 'eovr':
                    depth.append(st2['op'][1])
                elif st2['op'][0] == 'xovr' and depth:
                    depth.pop()
            want = bytes(want)
            if depth:
                mod = cl.modifier_of(depth[-1])
                want = mod(want) if callable(mod) else mod
            if e[0] == 'lc':
                # link control payload carries the baud bytes: compare header and bit 7 only
                if not sends or sends[0][:2] != want[:2] and not depth:
                    s.fail(dict(rec, observed=(sends[0].hex() if sends else 'nothing'), required='starts with ' + want[:2].hex()))
                continue
            if not sends or sends[0] != want:
                s.fail(dict(rec, observed=(sends[0].hex() if sends else 'nothing sent'), required=want.hex()))
                continue
            if b['spr'] and has_sf:
                wnrc = None
                for st2 in tr.steps:
                    if st2 is st:
                        break
                    if st2['op'][0] == 'espr':
                        wnrc = st2['op'][1] is True
                    elif st2['op'][0] == 'xspr':
                        wnrc = None
                if not wnrc:
                    if st['verdict'] != 'none' or waits:
                        s.fail(dict(rec, observed='%s with %d waits' % (st['verdict'], len(waits)), required='None immediately, no read'))
                else:
                    k = m.get('kind')
                    if not hist.all_in_time(op[2], b['timing'], hcfg):
                        k = 'silence'
                    if k in ('good', 'silence', 'pend_good', 'pend_silence') and not depth and st['verdict'] != 'none':
                        s.fail(dict(rec, observed=st['verdict'], required='None (wait_nrc: silence or positive reply)'))
                    if k in ('neg', 'pend_neg') and not st['verdict'].startswith('negative'):
                        s.fail(dict(rec, observed=st['verdict'], required='negative response processed normally'))
            s.count(('in:' if b['spr'] else 'out:') + str(m.get('kind')))
        if in_block:
            s.distinct.add(line)
    core.compare(s, lines, core.drv_batch(lines), impl, lambda i, o: False)
    for i in (0, len(lines) // 2):
        s.sample({'line': lines[i], 'impl': impl[i]})
    return s


def suite_raw(ctx):
    """caller-built Request objects through send_request: every sub-function byte 0..0xFF (bit 7 possibly already set), inside and outside a suppress block,
    the same object sent again after the block"""
    from .. import clientlib as cl
    from udsoncan import Request
    from ..core import onat, b01
    s = Suite('raw')
    rng = ctx.rng
    svcs = cl.services_by_name()
    lines, impl = [], []
    sfs = list(range(256)) if ctx.thorough else sorted(set([0, 1, 0x7E, 0x7F, 0x80, 0x81, 0xC0, 0xFE, 0xFF] + [rng.randrange(256) for _ in range(40)]))
    nvar = 0
    for sf in sfs:
        for svc in ('TesterPresent', 'ECUReset', 'RoutineControl'):
            for wnrc in (False, True):
                data = b'\x12\x34' if svc == 'RoutineControl' else None
                req = Request(svcs[svc], subfunction=sf, data=data)
                before = dict(vars(req))
                sid = svcs[svc]._sid
                # the limits in force, the edge values included (an overall or per-call limit of exactly 0: the window is empty, the outcome is the same),
                # and what is in the air when the client looks: nothing, a positive reply, a negative one
                nvar += 1
                rt, percall = [(200, None), (200, None), (0, None), (200, 0), (None, 0), (5, 5)][nvar % 6]
                air = ['silence', 'positive', 'negative'][(nvar // 6) % 3] if wnrc else 'silence'
                arr_in = {'silence': [], 'positive': [(0, bytes([sid + 0x40, sf & 0x7F, 0x12, 0x34]))], 'negative': [(0, bytes([0x7F, sid, 0x22]))]}[air]
                cfg = cl.Cfg(rt=rt, p2=50, p2s=80, spr=True, wnrc=wnrc)
                client, conn = cl.make_client(cl.Cfg(rt=rt, p2=50, p2s=80))
                rec = {'site': 'send_request', 'service': svc, 'subfunction': sf, 'wait_nrc': wnrc, 'request_timeout': rt, 'per_call_timeout': percall, 'in_the_air': air}
                # ---- inside the block
                conn.script = list(arr_in)
                with client.suppress_positive_response(wait_nrc=wnrc):
                    obs = cl.observe(conn, lambda: client.send_request(req, timeout=-1 if percall is None else percall * cl.TICK))
                sends = [o[1] for o in conn.log if o[0] == 'send']
                want = bytes([sid, sf | 0x80]) + (data or b'')
                line = 'send %s svc=%s sf=%d rspr=0 data=%s timeout=%s arr=%s' % (cfg.line(), svc, sf, core.ohx(data), onat(percall), cl.arrivals_str(arr_in))
                lines.append(line)
                impl.append(obs)
                s.distinct.add(line)
                s.count('limits rt=%s per-call=%s' % (rt, percall))
                if not sends or sends[0] != want:
                    s.fail(dict(rec, input=line, observed=(sends[0].hex() if sends else 'nothing sent'), required='%s (bit 7 of the sub-function set, the rest unchanged)' % want.hex()))
                if air == 'negative':
                    if 'negative:34' not in obs:
                        s.fail(dict(rec, input=line, observed=obs, required='the negative response 0x22 surfaces (wait_nrc)'))
                elif ' out=none' not in obs:
                    s.fail(dict(rec, input=line, observed=obs, required='None is returned'))
                client, conn = cl.make_client(cl.Cfg(rt=200, p2=50, p2s=80)) if (rt, percall) != (200, None) else (client, conn)
                if not wnrc and any(o[0] == 'wait' for o in conn.log):
                    s.fail(dict(rec, input=line, observed='wait_frame called', required='no read when not waiting for an NRC'))
                if dict(vars(req)) != before:
                    s.fail(dict(rec, input=line, observed='request object modified: %s' % {k: v for k, v in vars(req).items() if before.get(k) != v}, required='the caller\'s Request is left as it was'))
                # ---- the same object after the block: bit 7 as the caller wrote it, the reply is read
                reply = bytes([sid + 0x40, sf & 0x7F, 0x12, 0x34])
                conn.script = [(1, reply)]
                cfg2 = cl.Cfg(rt=200, p2=50, p2s=80)
                obs2 = cl.observe(conn, lambda: client.send_request(req))
                sends = [o[1] for o in conn.log if o[0] == 'send']
                want2 = bytes([sid, sf]) + (data or b'')
                line2 = 'send %s svc=%s sf=%d rspr=0 data=%s timeout=- arr=%s' % (cfg2.line(), svc, sf, core.ohx(data), cl.arrivals_str([(1, reply)]))
                lines.append(line2)
                impl.append(obs2)
                if not sends or sends[0] != want2:
                    s.fail(dict(rec, input=line2 + '  (after the block, same Request object)', observed=(sends[0].hex() if sends else 'nothing sent'), required=want2.hex()))
                elif 'out=resp' not in obs2:
                    s.fail(dict(rec, input=line2 + '  (after the block, same Request object)', observed=obs2, required='the reply is read and returned'))
                s.evaluations += 2
    core.compare(s, lines, core.drv_batch(lines), impl, lambda i, o: True)
    s.exhaustive = ctx.thorough
    return s


def suite_callw(ctx):
    """whole client calls of every service family against the model's callWith (udsdrv callw): the correspondence the call-level theorems rest on"""
    from .. import callw
    return callw.suite_callw(ctx, 'C09')


def suite_two_clients(ctx):
    """a second client object in the same process (inside a suppress block, a payload override, with adopted timing, reconfigured, after a failed call) never shows
    in this client's frames or outcome: the C15 two_clients suite, run here as well (state kept on the class instead of the instance breaks this property too)"""
    from . import c15
    return c15.suite_two_clients(ctx)


def suite_reentrant(ctx):
    """the pending-response callback uses the client it belongs to (the documentation suggests sending TesterPresent from it): the request in flight goes on as if the
    callback had done nothing - harness/reentrant.py, metamorphic against a callback that only counts"""
    from .. import reentrant
    return reentrant.suite_reentrant(ctx)


SUITES = [suite_hist, suite_raw, suite_callw, suite_two_clients, suite_reentrant]
