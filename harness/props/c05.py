"""C05 — waiting obeys P2, P2* and the overall timeout exactly, for every reply schedule."""
from .. import core
from ..core import Suite, onat, b01, ohx

LEAN_TARGETS = ['Uds.Props.C05', 'Uds.Props.C05Hist']
ASSUMPTIONS = [
    'virtual time: udsoncan.client.time is replaced by an exact clock that only advances inside the stub connection\'s wait; '
    'real elapsed time between two monotonic() reads, the accuracy of queue.get(timeout) and thread scheduling are runtime '
    'behaviour the model cannot exhibit (property is partial in that respect)',
    'all times are multiples of 2^-10 s so every float operation in send_request is exact',
]
RULE = ('timing suite: configurations (request_timeout None/values, P2/P2* above/below/equal to it, server timing, per-call timeout incl. 0) x '
        'a transport whose send() returns at once or blocks for a while x first request of a fresh client / a later request of a client that already ran other schedules x schedules of k pending replies + final positive/negative/invalid/silence with every arrival placed before / exactly at / one tick '
        'after its window; the real client under the virtual clock vs udsdrv, and vs an independent Python recomputation of the windows. '
        'distinct = distinct input lines; non-trivial = at least one wait happened')
TRUSTED_EXTRA = ['harness/stub.py: stub connection and virtual clock (connection contract stated in Uds/Model/Send.lean)']


def spec_run(rt, p2, p2s, percall, arr, sid):
    """independent recomputation: returns (waits, end, outcome-class, ncallbacks)"""
    deadline = percall if percall is not None else rt
    single = percall if percall is not None else (p2 if rt is None else min(p2, rt))
    now = 0
    waits = []
    ncb = 0
    first = True
    i = 0
    while True:
        w = single if deadline is None else min(single, max(deadline - now, 0))
        waits.append((now, w))
        if i < len(arr) and arr[i][0] <= now + w:
            t, p = arr[i]
            i += 1
            now = max(now, t)
            if len(p) >= 3 and p[0] == 0x7F and p[1] == sid and p[2] == 0x78:
                ncb += 1
                single = p2s
                first = False
                continue
            if len(p) >= 3 and p[0] == 0x7F and p[1] == sid:
                return waits, now, 'negative:%d' % p[2], ncb
            if len(p) >= 1 and p[0] == sid + 0x40:
                return waits, now, 'resp', ncb
            return waits, now, 'other', ncb
        else:
            return waits, now + w, 'timeout', ncb


def suite_timing(ctx, sequences=True):
    from .. import clientlib as cl
    from udsoncan import Request
    s = Suite('timing')
    rng = ctx.rng
    svcs = cl.services_by_name()
    cases = []
    cfgs = []
    for rt in (None, 5120, 1024, 700, 20000):
        for p2, p2s in ((1024, 5120), (700, 700), (5120, 1024), (1, 3), (6000, 30000)):
            for percall in (None, 0, 300, 2048):
                for tim in (None, (50, 2000), (9000, 100), (0, 0), (0, 300), (300, 0)):    # adopted server values, 0 included (a legal field value)
                    cfgs.append((rt, p2, p2s, percall, tim))
    nper = ctx.n(4, 60)
    kmax = ctx.n(6, 40)
    for (rt, p2, p2s, percall, tim) in cfgs:
        for _ in range(nper):
            svc = rng.choice(['ECUReset', 'TesterPresent', 'ReadDataByIdentifier', 'RequestTransferExit', 'RoutineControl'])
            sid = svcs[svc]._sid
            k = rng.choice([0, 0, 1, 1, 2, 3, rng.randrange(0, kmax + 1)])
            ep2 = tim[0] if tim else p2
            ep2s = tim[1] if tim else p2s
            # place arrivals using the spec windows
            deadline = percall if percall is not None else rt
            single = percall if percall is not None else (ep2 if rt is None else min(ep2, rt))
            now = 0
            arr = []
            alive = True
            for i in range(k + 1):
                w = single if deadline is None else min(single, max(deadline - now, 0))
                mode = rng.choice(['before', 'edge', 'edge', 'after', 'early'])
                if mode == 'before':
                    t = now + (rng.randrange(0, w) if w > 0 else 0)
                elif mode == 'edge':
                    t = now + w
                elif mode == 'early':
                    t = now
                else:
                    t = now + w + 1
                if i < k:
                    p = bytes([0x7F, sid, 0x78]) + bytes(rng.randrange(256) for _ in range(rng.choice([0, 0, 2])))
                else:
                    kind = rng.choice(['pos', 'pos', 'neg', 'silence', 'invalid', 'othersvc'])
                    if kind == 'silence':
                        break
                    p = {'pos': bytes([sid + 0x40, 1, 2, 3]), 'neg': bytes([0x7F, sid, rng.choice([0x10, 0x22, 0x31, 0x95, 0x00, 0xFF])]),
                         'invalid': bytes([0x7F, sid]), 'othersvc': bytes([0x7F, 0x3D if sid != 0x3D else 0x11, 0x22])}[kind]
                arr.append((t, p))
                now = max(now, t)
                single = ep2s
            cases.append((rt, p2, p2s, percall, tim, svc, sid, arr, rng.random() < 0.5))
    lines, impl = [], []
    # `seq` > 0: the request is sent on the client of the previous case (same configuration): whatever an earlier request left behind
    # (a pending-response flag, a deadline) must not leak into the next one
    by_cfg = {}
    for c_ in cases:
        by_cfg.setdefault(c_[:5], []).append(c_)
    ordered = []
    for key, group in by_cfg.items():
        for j, c_ in enumerate(group):
            ordered.append((c_, 0))
        if sequences:
            for j, c_ in enumerate(group):
                ordered.append((c_[:8] + (group[0][8],), j + 1))     # the whole group again on one client (same callback setting)
    client = conn = None
    for ((rt, p2, p2s, percall, tim, svc, sid, arr, cb), seq) in ordered:
        cfg = cl.Cfg(rt=rt, p2=p2, p2s=p2s, cb=cb, tp2=tim[0] if tim else None, tp2s=tim[1] if tim else None)
        sf = 1 if svcs[svc].use_subfunction() else None
        line = 'send %s svc=%s sf=%s rspr=0 data=- timeout=%s arr=%s' % (cfg.line(), svc, onat(sf), onat(percall), cl.arrivals_str(arr))
        if seq <= 1:
            client, conn = cl.make_client(cfg)
        conn.stale = []
        conn.pending = []
        conn.script = list(arr)
        conn.send_delay = rng.choice([0, 0, 1, 300, 6000])    # a transport whose send() blocks: the deadline counts from its return
        req = Request(svcs[svc], subfunction=sf)
        tmo = -1 if percall is None else percall * cl.TICK
        obs = cl.observe(conn, lambda: client.send_request(req, timeout=tmo))
        lines.append(line)
        impl.append(obs)
        # ---- P_spec on the implementation, independent of the Lean model
        ep2 = tim[0] if tim else p2
        ep2s = tim[1] if tim else p2s
        waits, end, oc, ncb = spec_run(rt, ep2, ep2s, percall, arr, sid)
        got_waits = [(op[1], op[2]) for op in conn.log if op[0] == 'wait']
        got_cb = sum(1 for op in conn.log if op[0] == 'callback')
        m = obs.split(' out=')[1]
        got_oc = 'resp' if m.startswith('resp:') else ('timeout' if m.startswith('raise:timeout') else
                                                      (m.split(' ')[0][6:] if m.startswith('raise:negative') else 'other'))
        got_end = float(obs.split(' end=')[1].split(' ')[0])
        rec = {'site': 'send_request', 'input': line, 'rt': rt, 'percall': percall, 'send_blocks_for_ticks': conn.send_delay, 'nth_request_on_this_client': max(seq, 1)}
        if got_waits != [(float(a), float(b)) for a, b in waits]:
            s.fail(dict(rec, observed='waits %s' % got_waits, required='waits %s' % waits))
        elif got_oc != oc and not (oc == 'other' and got_oc not in ('resp', 'timeout')):
            s.fail(dict(rec, observed=got_oc, required=oc))
        elif got_end != end:
            s.fail(dict(rec, observed='end %s' % got_end, required='end %s' % end))
        elif cb and got_cb != ncb:
            s.fail(dict(rec, observed='%d callbacks' % got_cb, required='%d callbacks' % ncb))
        deadline = percall if percall is not None else rt
        if deadline is not None and got_end > deadline:
            s.fail(dict(rec, observed='end %s' % got_end, required='end <= deadline %s' % deadline))
        s.count('k=%d' % min(len(arr), 7))
        s.count('request #%s on its client' % ('1' if seq <= 1 else '2+'))
        s.count('out=' + got_oc.split(':')[0])
    core.compare(s, lines, core.drv_batch(lines), impl, lambda i, o: 'W:' in o)
    for i in (0, len(lines) // 2, len(lines) - 1):
        s.sample({'line': lines[i], 'impl': impl[i]})
    return s


def suite_defaults(ctx):
    """a client that leaves the timing keys to the library's defaults waits what the documentation says those defaults are
    (doc/source/udsoncan/client.rst: "Default value of N" under each attribute); the documented numbers are read on every run"""
    import os
    import re
    from .. import clientlib as cl
    from udsoncan.client import Client
    from udsoncan import Request, services
    s = Suite('defaults')
    path = os.path.join(core.REPO, 'doc', 'source', 'udsoncan', 'client.rst')
    doc = {}
    try:
        text = open(path).read()
        for key in ('request_timeout', 'p2_timeout', 'p2_star_timeout'):
            m = re.search(r'\.\. attribute:: %s\b(.*?)(?=\n\.\. )' % key, text, re.S)
            d = re.search(r'Default value (?:of|is) ([0-9.]+)', m.group(1)) if m else None
            if d:
                doc[key] = float(d.group(1))
    except OSError:
        pass
    if len(doc) != 3:
        s.notes.append('documented defaults not found in %s (found %s): nothing compared' % (path, sorted(doc)))
        return s
    tick = cl.TICK
    # the whole configuration left to the defaults, and configurations that give some of the three keys and leave the others to their defaults
    # (a default that only shows when another key is given: P2* behind a longer or disabled overall timeout)
    variants = [({}, 'Client(conn) with the default configuration'),
                ({'request_timeout': None}, "Client(conn, config={'request_timeout': None})"),
                ({'request_timeout': 64.0}, "Client(conn, config={'request_timeout': 64})"),
                ({'request_timeout': 64.0, 'p2_timeout': 2.0}, "Client(conn, config={'request_timeout': 64, 'p2_timeout': 2})"),
                ({'request_timeout': None, 'p2_star_timeout': 8.0}, "Client(conn, config={'request_timeout': None, 'p2_star_timeout': 8})"),
                ({'p2_timeout': 1.5, 'p2_star_timeout': 2.0}, "Client(conn, config={'p2_timeout': 1.5, 'p2_star_timeout': 2})")]
    # every documented way of giving the keys: the configuration dictionary at construction, keyword arguments at construction, set_config / set_configs
    # afterwards (one key at a time, all at once) - a key takes effect for the next request whichever way it came
    hows = ('config=', 'kwargs', 'set_config', 'set_configs')
    for given, label0, how in [(g_, l_, h_) for g_, l_ in variants for h_ in (hows if g_ else ('config=',))]:
        label = label0 if how == 'config=' else '%s given by %s' % (label0, how)
        for kind in ('silence', 'pending-then-silence', 'pending-chain'):
            conn = cl.stub.StubConn(cl.CLOCK)
            if not given:
                client = Client(conn)
            elif how == 'config=':
                client = Client(conn, config=dict(given))
            elif how == 'kwargs':
                # the constructor takes request_timeout as a keyword of its own (when it is a number); everything else goes through config=
                kw = {'request_timeout': given['request_timeout']} if given.get('request_timeout') is not None else {}
                rest = {k_: v_ for k_, v_ in given.items() if k_ not in kw}
                client = Client(conn, config=rest, **kw) if rest else Client(conn, **kw)
            elif how == 'set_config':
                client = Client(conn)
                for k_, v_ in given.items():
                    client.set_config(k_, v_)
            else:
                client = Client(conn)
                client.set_configs(dict(given))
            conn.opened = True
            if kind == 'silence':
                conn.script = []
            elif kind == 'pending-then-silence':
                conn.script = [(10, b'\x7f\x3e\x78')]
            else:
                conn.script = [(int(i * 0.9 / tick), b'\x7f\x3e\x78') for i in range(1, 12)]
            conn.log = []
            cl.observe_outer(conn, lambda: client.send_request(Request(services.TesterPresent, subfunction=0)))
            waits = [(o[1] * tick, o[2] * tick) for o in conn.log if o[0] == 'wait']
            rt, p2, p2s = (given.get(k, doc[k]) for k in ('request_timeout', 'p2_timeout', 'p2_star_timeout'))
            inf = float('inf')
            rtv = inf if rt is None else rt
            want = [(0.0, min(p2, rtv))]
            if kind == 'pending-then-silence':
                want.append((10 * tick, min(p2s, rtv - 10 * tick)))
            elif kind == 'pending-chain':
                for i in range(1, 12):
                    t = int(i * 0.9 / tick) * tick
                    if t >= rtv:
                        break
                    want.append((t, min(p2s, rtv - t)))
            s.evaluations += 1
            s.distinct.add(label0 + '|' + how + '|' + kind)
            got = [(round(a, 6), round(b, 6)) for a, b in waits]
            wantr = [(round(a, 6), round(b, 6)) for a, b in want]
            if got != wantr:
                s.fail({'site': 'send_request', 'input': '%s, reply schedule: %s' % (label, kind), 'observed': 'waits %s' % got,
                        'required': 'waits %s (documented defaults: request_timeout %s, p2_timeout %s, p2_star_timeout %s)' % (wantr, doc['request_timeout'], doc['p2_timeout'], doc['p2_star_timeout'])})
    s.exhaustive = True
    return s


def suite_reentrant(ctx):
    """the pending-response callback uses the client it belongs to (the documentation suggests sending TesterPresent from it): the request in flight goes on as if the
    callback had done nothing - harness/reentrant.py, metamorphic against a callback that only counts"""
    from .. import reentrant
    return reentrant.suite_reentrant(ctx)


def suite_two_clients(ctx):
    """a second client object in the same process (inside a suppress block, a payload override, with adopted timing, reconfigured, after a failed call) never shows
    in this client's frames, waits or outcome: the C15 two_clients suite, run here as well"""
    from . import c15
    return c15.suite_two_clients(ctx)


SUITES = [suite_timing, suite_defaults, suite_reentrant, suite_two_clients]
