"""C08 — exception_on_* switches change how an outcome is delivered, never the outcome."""
import itertools
from .. import core, extract
from ..core import Suite, onat, b01, ohx, hx

LEAN_TARGETS = ['Uds.Props.C08', 'Uds.Props.C08Call', 'Uds.Props.C08Hist', 'Uds.Tie.CallGraph']
ASSUMPTIONS = [
    'the inner outcome (what the undecorated method body raises/returns) is taken from the real client with all switches on; '
    'the model covers the decorator and the composite helpers; the bodies are modelled under C03/C04',
]
RULE = ('call suite: every entry point (110 calls over the 80 entry points, composite helpers included) x reply kinds (valid, negative, 0x78 then '
        'negative, a 2020-only code under the 2006 / 2013 edition, truncated, bad echo, wrong service, invalid 7F frame, silence) x an earlier call on the same client (none / timed out / refused / configuration error) x all 8 switch combinations. distinct = distinct (call, reply kind, switches); '
        'non-trivial = the reply was not accepted as success')


def generate(ctx):
    extract.generate(['CallGraph'])


def reply_kinds(frame, good, rng):
    sid = frame[0]
    other = 0x7E if sid != 0x3E else 0x51
    ks = {
        'valid': [good],
        'negative': [bytes([0x7F, sid, 0x31])],
        'negative_unknown': [bytes([0x7F, sid, 0x95, 0x01])],
        'pending_negative': [bytes([0x7F, sid, 0x78]), bytes([0x7F, sid, 0x22])],
        'wrong_service': [bytes([other, 0x00])],
        'invalid7f': [bytes([0x7F, sid])],
        'empty': [b''],
        'unknown_sid': [b'\x00\x01'],
        'silence': [],
        # a code that only the 2020 edition lists, sent to a client that enforces the 2006 edition: still a negative response, whatever the switches
        'negative_2020code@2006': [bytes([0x7F, sid, 0x5D])],
        'negative_2020code_b@2013': [bytes([0x7F, sid, 0x34])],
    }
    if len(good) > 1:
        ks['truncated1'] = [good[:1]]
        ks['truncated'] = [good[:max(1, len(good) - 1)]]
        ks['bad_echo'] = [good[:1] + bytes([good[1] ^ 0x01]) + good[2:]]
        ks['extended'] = [good + b'\x01']
        ks['extended2'] = [good + b'\xf2\x01']              # room for an optional echo after the sub-function (a data identifier, a record)
        ks['bad_echo_extended2'] = [good[:1] + bytes([good[1] ^ 0x02]) + good[2:] + b'\xf2\x01']
    return ks


def suite_call(ctx):
    from .. import clientlib as cl, entries
    s = Suite('call')
    rng = ctx.rng
    calls = entries.default_calls()
    combos = list(itertools.product([True, False], repeat=3))
    lines, impl = [], []
    for c in calls:
        # learn the frame and a good reply
        client, conn = cl.make_client(cl.Cfg(), extra=c.config())
        st = {'f': None}

        def learn(p, st=st):
            if st['f'] is None:
                st['f'] = p
            return [(1, entries.good_reply(p, c, client.config))]
        conn.responder = learn
        cl.observe_outer(conn, lambda: c.invoke(client))
        frame = st['f']
        good = entries.good_reply(frame, c, client.config)
        kinds = reply_kinds(frame, good, rng)
        fixed = ['valid', 'negative', 'pending_negative', 'invalid7f', 'silence', 'negative_2020code@2006'] + [k for k in ('extended2', 'bad_echo_extended2') if k in kinds]
        names = sorted(kinds) if ctx.thorough else fixed + rng.sample(sorted(set(kinds) - set(fixed)), 3)
        for kn in names:
            frames = kinds[kn]
            results = {}
            std = int(kn.split('@')[1]) if '@' in kn else 2020
            if std != 2020 and 'standard_version' in c.cfg:
                continue
            # what happened before on the same client must not matter: a call that timed out / was refused / hit a configuration error first
            prelude = rng.choice(['none', 'none', 'timeout', 'valueerror', 'config'])
            skip = False
            for sw in combos:
                cfg = cl.Cfg(rt=3000, p2=1000, p2s=2000, exc=sw, std=std)
                client, conn = cl.make_client(cfg, extra=c.config())
                if prelude == 'timeout':
                    conn.responder = lambda p: []
                    cl.observe_outer(conn, lambda: client.tester_present())
                elif prelude == 'valueerror':
                    cl.observe_outer(conn, lambda: client.ecu_reset(0x100))
                elif prelude == 'config':
                    cl.observe_outer(conn, lambda: client.read_data_by_identifier(0x9999))
                n = {'i': 0}

                def responder(p, n=n, frames=frames):
                    n['i'] += 1
                    if n['i'] == 1:
                        return [(5 * (i + 1), f) for i, f in enumerate(frames)]
                    return [(1, entries.good_reply(p, c, client.config))]
                conn.responder = responder
                how, verdict, flags, payload, exc, r = cl.observe_outer(conn, lambda: c.invoke(client))
                nsend = sum(1 for op in conn.log if op[0] == 'send')
                if nsend == 0 and std != 2020:
                    skip = True                 # the older edition refuses this call locally: nothing to deliver
                    break
                results[sw] = (how, verdict, flags, payload, nsend)
            if skip:
                continue
            base = results[(True, True, True)]
            rec = {'site': c.name, 'call': c.desc(), 'reply_kind': kn, 'frames': [f.hex() for f in frames], 'standard_version': std, 'earlier_call_on_this_client': prelude}
            s.count('prelude:' + prelude)
            for sw in combos:
                how, verdict, flags, payload, nsend = results[sw]
                s.evaluations += 1
                key = '%s|%s|%s' % (c.desc(), kn, sw)
                # the response that is raised / returned is the frame that was received (the last one: earlier ones were 0x78)
                if frames and verdict.split(':')[0] in ('negative', 'invalid', 'unexpected') and payload != frames[-1]:
                    s.fail(dict(rec, switches=sw, observed='%s carrying payload %s' % (verdict, payload.hex() if payload is not None else None),
                                required='carrying the response received: %s' % frames[-1].hex()))
                    continue
                if base[1] != 'ok':
                    s.distinct.add(key)
                # ---- P_spec on the implementation (metamorphic over switch settings)
                if verdict != base[1]:
                    s.fail(dict(rec, switches=list(sw), observed='%s %s' % (how, verdict), required='verdict %s as with all switches on' % base[1]))
                    continue
                cls_ = verdict.split(':')[0]
                if cls_ in ('negative', 'invalid', 'unexpected'):
                    on = sw[('negative', 'invalid', 'unexpected').index(cls_)]
                    if how != ('exc' if on else 'ret'):
                        s.fail(dict(rec, switches=list(sw), observed=how, required='raised iff the switch is on'))
                    elif payload != base[3]:
                        s.fail(dict(rec, switches=list(sw), observed='payload %s' % hx(payload), required='payload %s' % hx(base[3])))
                    elif flags != base[2]:
                        s.fail(dict(rec, switches=list(sw), observed=flags, required=base[2]))
                elif how != base[0]:
                    s.fail(dict(rec, switches=list(sw), observed=how, required=base[0]))
                # ---- model: decorator applied to the inner outcome observed with all switches on
                if cls_ in ('negative', 'invalid', 'unexpected') or base[0] == 'exc':
                    if base[0] == 'exc':
                        err = base[1] if cls_ in ('negative', 'invalid', 'unexpected') else base[1][6:]
                        line = 'deliver sw=%s kind=exc err=%s payload=%s' % (''.join(b01(x) for x in sw), err, ohx(base[3]) if base[3] is not None else '-')
                        lines.append(line)
                        impl.append('how=%s verdict=%s flags=%s' % (how, verdict, flags))
            s.count(kn + ':' + base[1].split(':')[0])
    core.compare(s, lines, core.drv_batch(lines), impl)
    s.evaluations -= len(lines)
    for i in (0, len(lines) // 2, len(lines) - 1):
        s.sample({'line': lines[i], 'impl': impl[i]})
    return s


def suite_blocks(ctx):
    """the outcome is delivered the same way inside `with client.payload_override(...)` / `with client.suppress_positive_response(...)` blocks (real with-statements):
    an exception raised for a reply leaves the block and reaches the caller, a flagged response is returned - a context manager never swallows or changes either"""
    from .. import clientlib as cl
    from udsoncan.exceptions import NegativeResponseException, InvalidResponseException, UnexpectedResponseException, TimeoutException
    s = Suite('blocks')
    replies = {'negative': (b'\x7f\x11\x22', NegativeResponseException), 'invalid': (b'\x7f\x11', InvalidResponseException),
               'unexpected': (b'\x51\x02', UnexpectedResponseException), 'silence': (None, TimeoutException)}
    blocks = {'payload_override(identity)': lambda c: c.payload_override(lambda p: p), 'payload_override(literal 11 01)': lambda c: c.payload_override(b'\x11\x01'),
              'suppress_positive_response(wait_nrc=True)': lambda c: c.suppress_positive_response(wait_nrc=True), 'no block': None}
    for bname, mk in blocks.items():
        for rname, (frame, exc_type) in replies.items():
            for sw in ((True, True, True), (False, False, False)):
                if bname.startswith('suppress') and rname in ('silence', 'unexpected'):
                    continue            # silence and positive replies inside a waiting suppress block give None by definition (C09)
                client, conn = cl.make_client(cl.Cfg(rt=50, p2=20, p2s=20, exc=sw))
                conn.responder = lambda p, frame=frame: [(1, frame)] if frame is not None else []
                raised, returned, user = None, None, None
                try:
                    if mk is None:
                        returned = client.ecu_reset(1)
                    else:
                        with mk(client):
                            returned = client.ecu_reset(1)
                except Exception as e:  # noqa
                    raised = e
                s.evaluations += 1
                s.distinct.add('%s|%s|%s' % (bname, rname, sw))
                rec = {'site': 'ecu_reset', 'input': 'ecu_reset(1) inside %s; reply: %s; switches %s' % (bname, rname, sw)}
                want_exc = rname == 'silence' or sw[0]
                if want_exc:
                    if not isinstance(raised, exc_type):
                        s.fail(dict(rec, observed='raised %s, returned %r' % (type(raised).__name__ if raised else None, returned), required='%s reaches the caller' % exc_type.__name__))
                else:
                    flag_ok = returned is not None and ((rname == 'negative' and returned.positive is False) or (rname == 'invalid' and returned.valid is False)
                                                        or (rname == 'unexpected' and returned.unexpected is True))
                    if raised is not None or not flag_ok:
                        s.fail(dict(rec, observed='raised %s, returned %r' % (type(raised).__name__ if raised else None, returned), required='the flagged response is returned'))
            # an exception of the caller's own code inside the block leaves it unchanged
            if mk is not None:
                client, conn = cl.make_client(cl.Cfg(rt=50, p2=20, p2s=20))
                got = None
                try:
                    with mk(client):
                        raise KeyError('caller code')
                except Exception as e:  # noqa
                    got = e
                s.evaluations += 1
                if not isinstance(got, KeyError):
                    s.fail({'site': bname, 'input': 'KeyError raised by the caller inside %s' % bname, 'observed': repr(got), 'required': 'the KeyError leaves the block'})
    s.exhaustive = True
    return s


def suite_reentrant(ctx):
    """the pending-response callback uses the client it belongs to (the documentation suggests sending TesterPresent from it): the request in flight goes on as if the
    callback had done nothing - harness/reentrant.py, metamorphic against a callback that only counts"""
    from .. import reentrant
    return reentrant.suite_reentrant(ctx)


def suite_two_clients(ctx):
    """a second client object in the same process (inside a suppress block, a payload override, with adopted timing, reconfigured, after a failed call) never shows
    in this client's frames, waits or outcome: the C15 two_clients suite, run here as well"""
    from . import c15
    return c15.suite_two_clients(ctx)


def suite_after_refused(ctx):
    """the switches in force are the ones the configuration shows, also after a configuration change was refused (and rolled back) earlier on this client:
    every way of changing a switch afterwards - set_config, set_configs, assignment into client.config - decides how the next outcome is delivered"""
    import itertools
    from .. import clientlib as cl
    from udsoncan.exceptions import ConfigError
    s = Suite('after_refused')
    replies = {'negative': b'\x7f\x11\x33', 'invalid': b'\x7f\x11', 'unexpected': b'\x50\x01'}
    keys = ('exception_on_negative_response', 'exception_on_invalid_response', 'exception_on_unexpected_response')
    refusals = [('none', lambda c: None), ('set_config(standard_version, 1999)', lambda c: c.set_config('standard_version', 1999)),
                ('set_configs({tolerate_zero_padding: False, standard_version: 2012})', lambda c: c.set_configs({'tolerate_zero_padding': False, 'standard_version': 2012}))]
    ways = [('set_config', lambda c, sw: [c.set_config(k, v) for k, v in zip(keys, sw)]), ('set_configs', lambda c, sw: c.set_configs(dict(zip(keys, sw)))),
            ('assignment into client.config', lambda c, sw: [c.config.__setitem__(k, v) for k, v in zip(keys, sw)])]
    for rname, refuse in refusals:
        for wname, way in ways:
            for sw0 in ((True, True, True), (False, False, False)):
                for sw in itertools.product((True, False), repeat=3):
                    for kind, reply in replies.items():
                        client, conn = cl.make_client(cl.Cfg(rt=64, p2=32, p2s=32, exc=sw0))
                        try:
                            refuse(client)
                            refused = rname == 'none'
                        except ConfigError:
                            refused = True
                        way(client, sw)
                        conn.script = [(1, reply)]
                        how, verdict, flags, payload, exc, r = cl.observe_outer(conn, lambda: client.ecu_reset(1))
                        s.evaluations += 1
                        label = 'ecu_reset(1) <- %s; client built with switches %s, then %s, then switches set to %s by %s' % (reply.hex(), sw0, rname, sw, wname)
                        s.distinct.add(label)
                        s.count('%s / %s' % (rname.split('(')[0], wname))
                        on = sw[('negative', 'invalid', 'unexpected').index(kind)]
                        shown = tuple(client.config[k] for k in keys)
                        if not refused:
                            s.fail({'site': 'set_config', 'input': label, 'observed': 'the change was accepted', 'required': 'ConfigError'})
                        elif shown != sw:
                            s.fail({'site': 'set_config', 'input': label, 'observed': 'client.config shows %s' % (shown,), 'required': str(sw)})
                        elif verdict.split(':')[0] != kind or how != ('exc' if on else 'ret'):
                            s.fail({'site': 'ecu_reset', 'input': label, 'class': 'after a refused configuration change', 'observed': '%s %s' % (how, verdict),
                                    'required': '%s, %s (client.config shows the switch %s)' % (kind, 'raised' if on else 'returned with its flag', 'on' if on else 'off')})
    s.exhaustive = True
    return s


def suite_callw(ctx):
    """whole client calls of every service family, delivered by the decorator under a random switch setting, against the model's `deliver ∘ callWithI`
    (udsdrv callw sw=…): the correspondence `Props/C08Call.callWith_switch_independent` rests on; metamorphic oracle against the same call with all switches on"""
    from .. import callw
    return callw.suite_callw(ctx, 'C08')


def suite_hist(ctx):
    """whole histories against the model's hrun, read for this property (harness/histsw.py)"""
    from .. import histsw
    return histsw.suite_hist(ctx, 'C08')


def suite_user_code(ctx):
    """an application that extends the library with classes of its own (child process: harness/user_child.py subclass_exceptions)"""
    return core.suite_user_code('subclass_exceptions', 'decorated client method')


SUITES = [suite_call, suite_callw, suite_reentrant, suite_blocks, suite_two_clients, suite_hist, suite_after_refused, suite_user_code]
