"""C01 — each request sent is the exact ISO-14229 encoding of the call's arguments."""
from .. import core, extract
from ..core import Suite

LEAN_TARGETS = ['Uds.Props.C01', 'Uds.Props.C01Hist', 'Uds.Tie.Tables', 'Uds.Tie.Codecs', 'Uds.Tie.Groups', 'Uds.Tie.Names']
ASSUMPTIONS = [
    'ISO 14229-1:2020 request layouts as transcribed in Uds/Spec/Request.lean (sub-function byte with the suppress bit in bit 7, parameters unsigned big-endian in table order)',
    'DID / IO codecs are user code: the model sees a codec as its payload length and a value as the bytes its encoding has (contract: encode returns len(codec) bytes)',
    'the server-side decoder is given what a server knows about its own data (whether an IO-control request carries a control parameter, the length of the control state)',
]
RULE = ('enc suite: structured calls on every service builder and wrapper (ReadDataByIdentifier incl. _first/test, WriteDataByIdentifier, IO control with values and masks, '
        'DynamicallyDefineDataIdentifier, the 26 ReadDTCInformation getters and read_dtc_information, RequestFileTransfer incl. Filesize objects, Authentication, the 13 simple entry '
        'points and their wrappers, memory-addressed requests) x 3 editions, with in-domain arguments at every boundary and an out-of-domain stream. Each call runs on the real client '
        '(recording connection) and through udsdrv (Model); for in-domain calls the frame the real client sent is decoded by the Spec decoder (udsdrv specdec) and must give back the '
        'caller\'s arguments (rendered independently in Python); inside a suppress block only bit 7 of the sub-function byte may differ. distinct = distinct enc lines; non-trivial = a frame was sent')


def generate(ctx):
    extract.generate(['Tables', 'Codecs', 'Groups', 'Names'])


HAS_SUBFN = {0x10, 0x11, 0x27, 0x28, 0x3E, 0x83, 0x85, 0x87, 0x31, 0x2C, 0x19, 0x29}


def strip(tag):
    return tag.split(':')[0] if tag.startswith('reject') else tag.split(' ')[0]


def suite_enc(ctx, focus='C01'):
    from .. import enclib
    s = Suite('enc')
    rng = ctx.rng
    cases = []
    per = ctx.n(350, 9000)
    for name, gen in enclib.GENERATORS:
        cs = gen(rng, per)
        for c in cs:
            c.gen = name
        cases += cs
    lines, impl, spec_lines, spec_meta = [], [], [], []
    for c in cases:
        sends, verdict, touched = enclib.run_case(c)
        lines.append(c.line)
        obs = ('sent:' + sends[0].hex()) if sends else 'reject'
        impl.append(obs)
        s.count('%s:%s' % (c.gen, 'sent' if sends else 'reject'))
        rec = {'site': c.site, 'input': c.line, 'generator': c.gen}
        if len(sends) > 1:
            s.fail(dict(rec, observed='%d frames' % len(sends), required='one frame'))
            continue
        if c.superfluous:
            rec['class'] = 'superfluous'
        if c.in_domain or c.superfluous:
            if not sends:
                if c.in_domain:
                    s.fail(dict(rec, observed='rejected (%s)' % verdict, required='in domain: transmitted as ' + str(c.canon)))
                continue
            if c.superfluous and focus == 'C07':
                s.fail(dict(rec, observed='sent ' + sends[0].hex(), required='a parameter the sub-function does not take: rejected, nothing sent'))
            if c.canon is not None:
                spec_lines.append('specdec iocp=%d iolen=%d frame=%s' % (c.view[0], c.view[1], sends[0].hex()))
                spec_meta.append((c, sends[0], False))
            # inside a suppress block: same frame with bit 7 of the sub-function byte
            if focus == 'C01' and rng.random() < 0.35:
                sends2, verdict2, _ = enclib.run_case(c, spr=True)
                f = sends[0]
                want = bytes([f[0], f[1] | 0x80]) + f[2:] if (f[0] in HAS_SUBFN and len(f) > 1) else f
                if sends2 != [want]:
                    s.fail(dict(rec, observed='in a suppress block: %s' % [x.hex() for x in sends2], required=want.hex()))
                elif c.canon is not None:
                    spec_lines.append('specdec iocp=%d iolen=%d frame=%s' % (c.view[0], c.view[1], want.hex()))
                    spec_meta.append((c, want, f[0] in HAS_SUBFN))
            # the same call on a client whose suppress / override block is already over (left by an exception or normally): the plain frame
            if focus == 'C01' and rng.random() < 0.12:
                how_ = rng.choice(['spr_exc', 'spr_exc', 'spr_ok', 'ovr_exc'])
                sends3, _, _ = enclib.run_case(c, after=how_)
                s.count('after:' + how_)
                if sends3 != [sends[0]]:
                    s.fail(dict(rec, observed='after a block that is over (%s): %s' % (how_, [x.hex() for x in sends3]), required=sends[0].hex()))
        else:
            if touched and focus == 'C07':
                if getattr(c, 'todo_subfunction', False):
                    rec['class'] = 'sub-function defined but not implemented'
                s.fail(dict(rec, observed=('sent ' + sends[0].hex()) if sends else 'connection touched', required='out of domain: rejected before anything is sent'))
    # Model vs Impl (coarse: reject vs the exact frame)
    model = ['reject' if x.startswith('reject') else x.split(' ')[0] for x in core.drv_batch(lines)]
    core.compare(s, lines, model, impl, nontrivial=lambda i, o: o != 'reject')
    # Spec decoder on the frames the implementation sent
    dec = core.drv_batch(spec_lines)
    for (c, frame, spr), got in zip(spec_meta, dec):
        s.evaluations += 1
        want = 'sid=%d spr=%s %s' % (c.sid, '1' if spr else '0', c.canon)
        if got != want:
            s.fail({'site': c.site, 'input': c.line, 'generator': c.gen, 'observed': 'frame %s decodes to: %s' % (frame.hex(), got), 'required': want})
    for i in (0, len(lines) // 2, len(lines) - 1):
        s.sample({'line': lines[i], 'impl': impl[i]})
    return s


def suite_iso(ctx):
    """arguments given by name: the library's sub-function constants carry the ISO values, and a call with the constant puts that value on the wire"""
    from .. import isoconst
    return isoconst.suite_iso(ctx, with_frames=True)


def suite_mem_frames(ctx):
    """memory-addressed requests, incl. MemoryLocation objects that are used again (re-pointed, after a refusal, under another configuration): the frame decodes
    (Annex H) to the address and size the object holds at the time of the call (the C14 memloc suite, run here for its frame half)"""
    from . import c14
    s = c14.suite_memloc(ctx)
    s.name = 'mem_frames'
    return s


def suite_two_clients(ctx):
    """a second client object in the same process (inside a suppress block, a payload override, with adopted timing, reconfigured, after a failed call) never shows
    in this client's frames or outcome: the C15 two_clients suite, run here as well (state kept on the class instead of the instance breaks this property too)"""
    from . import c15
    return c15.suite_two_clients(ctx)


def suite_reentrant(ctx):
    """the pending-response callback uses the client it belongs to: the request in flight goes on as if the callback had done nothing (frames, outcome, instant,
    adopted timing) - harness/reentrant.py"""
    from .. import reentrant
    return reentrant.suite_reentrant(ctx)


def suite_races(ctx):
    """several threads use the library at the same moment, each on objects of its own, from the first use in a fresh process: what each thread gets is what the same call
    gives single-threaded (child processes: harness/race_child.py memloc)"""
    return core.suite_races(['memloc'], ctx.n(10, 24))


def suite_user_code(ctx):
    """an application that extends the library with classes of its own (child process: harness/user_child.py memloc_subclass)"""
    return core.suite_user_code('memloc_subclass', 'memory-addressed request')


def suite_hist(ctx):
    """whole histories against the model's hrun, read for this property (harness/histsw.py): the frame of a call made outside every block"""
    from .. import histsw
    return histsw.suite_hist(ctx, 'C01')


SUITES = [suite_enc, suite_iso, suite_mem_frames, suite_two_clients, suite_reentrant, suite_races, suite_user_code, suite_hist]
