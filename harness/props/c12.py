"""C12 — data written through the client is read back unchanged through a reference ECU."""
from .. import core
from ..core import Suite, hx, ohx, b01

LEAN_TARGETS = ['Uds.Props.C12']
ASSUMPTIONS = [
    'the reference ECU is Uds/Spec/Ecu.lean (written from ISO 14229-1, independent of the library): it stores what it is sent; WriteDataByIdentifier needs at least one data byte, '
    'ReadDataByIdentifier of a record never written is NRC 0x31, a write whose data length differs from the announced size is NRC 0x13, a block with the wrong sequence counter NRC 0x73',
    'the block sequence counter of transfer_data is chosen by the caller (the library takes it as an argument): the harness counts 1, 2, ... 0xFF, 0x00, 0x01, ...',
    'DID codecs in the history suite: encode/decode are user code, identity on the raw bytes in the model; values are compared as raw bytes',
    "the library's own codecs (DidCodec(packstr) incl. str entries of data_identifiers, AsciiCodec) are modelled in Uds/Model/DidCodec.lean together with the integer subset of Python's struct "
    "(standard library, modelled: sizes, native alignment of x86-64 Linux, two's complement, range check); formats with other codes (f d e s p c ? n N P, zero counts) are outside the model",
]
RULE = ('history suite: random histories (quick 300 x 25 calls, every 25th one 450 calls long) over one long-lived client and one ECU: write/read data identifiers (fixed-length, read-all and default codecs, '
        'values incl. all-zero), write/read memory (all 8 address and size widths, explicit / configured / automatic, the same MemoryLocation object reused and re-pointed), downloads '
        'split into random block lengths, uploads pulled block by block (counter wrap past 0xFF in long transfers), session / tester-present / reset / security / routine calls, configuration changes between calls '
        '(set_config of data_identifiers, server_address_format, server_memorysize_format, tolerate_zero_padding) and failing calls (unknown identifiers, wrong lengths, never-written '
        'records, wrong sequence counters, exits without transfer). Every frame the real client sends goes to the Lean ECU behind the line protocol; the same call goes to the Lean '
        'client model with its own ECU copy. Compared per call: outcome + decoded data; at the end: both ECU states. P_spec on the implementation: a Python shadow store updated only by '
        'successful writes must equal every successful read and the final ECU state. distinct = distinct (history seed, step); non-trivial = the call reached the ECU. codec suite: random pack strings (6 byte-order prefixes, counts, pad bytes, 10 integer codes) x boundary values / wrong counts / scalars, AsciiCodec texts incl. non-ASCII and wrong lengths: encode through WriteDataByIdentifier.make_request, decode through ReadDataByIdentifier.interpret_response, len(); model vs implementation, and decode(encode(v)) == v on the implementation')

W = (8, 16, 24, 32, 40, 48, 56, 64)


def generate(ctx):
    pass


def oi(x):
    return '-' if x is None else str(x)


class Shadow:
    """what a correct client/ECU pair must end up with: updated only by calls the client reported as successful"""

    def __init__(self):
        self.dids = {}
        self.mem = {}
        self.xfer = None

    def read(self, a, n):
        return bytes(self.mem.get(a + i, 0) for i in range(n))

    def write(self, a, bs):
        for i, b in enumerate(bs):
            self.mem[a + i] = b

    def dump(self):
        ds = ','.join('%d:%s' % (k, hx(self.dids[k])) for k in sorted(self.dids)) or '-'
        runs = []
        for a in sorted(self.mem):
            if runs and runs[-1][0] + len(runs[-1][1]) == a:
                runs[-1][1].append(self.mem[a])
            else:
                runs.append([a, [self.mem[a]]])
        ms = ','.join('%d:%s' % (a, bytes(bs).hex()) for a, bs in runs) or '-'
        return 'dids=%s mem=%s' % (ds, ms)


# did -> (kind, length)
DID_SETS = [
    {0x1234: ('B', 2), 0x5678: ('B', 4), 0x0102: ('B', 1), 0xABCD: ('raw', 8), 0xEEEE: ('all', None), 0xFFFF: ('raw', 3)},
    {0x1234: ('B', 2), 0x0000: ('B', 2), 0xEEEE: ('all', None)},
    {0x1234: ('raw', 2), 0x5678: ('le', 4)},          # same identifiers, other codec objects / byte orders / lengths
    {0x1234: ('B', 3), 0xABCD: ('raw', 8)},
    {0x1234: ('le', 2), 0x5678: ('be', 4), 0x0102: ('B', 1)},
    {0x1234: ('be', 2), 0x5678: ('B', 4)},
    {0x1234: ('natH', 2), 0x5678: ('natI', 4), 0xABCD: ('natHH', 4)},
]
DEFAULTS = [None, None, ('B', 2), ('raw', 2)]


NATIVE = {'natH': 'H', 'natI': 'I', 'natHH': 'HH'}      # pack strings without a byte-order character


def codec_obj(kind, n):
    from .. import enclib
    if kind in ('le', 'be'):
        return ('<' if kind == 'le' else '>') + {2: 'H', 4: 'L'}[n]        # one integer, little / big endian
    if kind in NATIVE:
        return NATIVE[kind]
    return enclib.codec_obj(kind, n)


def py_value(kind, v):
    """the Python value whose encoding by the codec is the byte string v"""
    from .. import enclib
    if kind in ('le', 'be'):
        return int.from_bytes(v, 'little' if kind == 'le' else 'big')
    if kind in NATIVE:
        import struct
        t = struct.unpack(NATIVE[kind], v)
        return t if len(t) > 1 else t[0]
    return enclib.py_value(kind, v)


def raw_of(kind, val):
    """the bytes a decoded value stands for under the codec that decoded it"""
    if kind is not None and kind[0] in ('le', 'be') and isinstance(val, tuple) and len(val) == 1:
        return val[0].to_bytes(kind[1], 'little' if kind[0] == 'le' else 'big')
    if kind is not None and kind[0] in NATIVE and isinstance(val, tuple):
        import struct
        try:
            return struct.pack(NATIVE[kind[0]], *val)
        except Exception:  # noqa
            return raw(val)
    return raw(val)


def cfg_objects(dids, default):
    cfg = {d: codec_obj(*k) for d, k in dids.items()}
    if default is not None:
        cfg['default'] = codec_obj(*default)
    return cfg


def cfg_line(st):
    ent = ','.join('%d:%s' % (d, '*' if k[1] is None else k[1]) for d, k in st['dids'].items())
    d = st['default']
    return 'cfg=%s def=%s tol=%s caf=%s cmf=%s std=2020' % (ent or '-', 'x' if d is None else ('*' if d[1] is None else d[1]), b01(st['tol']), oi(st['caf']), oi(st['cmf']))


def raw(v):
    if isinstance(v, (bytes, bytearray)):
        return bytes(v)
    if isinstance(v, tuple):
        return bytes(v)
    if isinstance(v, int):
        return bytes([v])
    return repr(v).encode()


def dump_simple(k, r):
    sd = r.service_data
    on = lambda x: '-' if x is None else str(x)
    bh = lambda b: b.hex() if b else '-'
    if k == 'cs':
        return 'dsc %d %s' % (sd.session_echo, '-' if sd.p2_server_max is None else '%d,%d' % (round(sd.p2_server_max * 1000), round(sd.p2_star_server_max * 1000)))
    if k == 'er':
        return 'reset %d %s' % (sd.reset_type_echo, on(sd.powerdown_time))
    if k == 'rs':
        return 'sa %d %s' % (sd.security_level_echo, ohx(sd.seed))
    if k == 'sk':
        return 'sa %d -' % sd.security_level_echo
    if k == 'tp':
        return 'echo %d' % sd.subfunction_echo
    if k == 'cd':
        return 'echo %d' % sd.setting_type_echo
    if k == 'rc':
        return 'routine %d %d %s' % (sd.control_type_echo, sd.routine_id_echo, bh(sd.routine_status_record))
    if k == 'td':
        return 'transferData %d %s' % (sd.sequence_number_echo, bh(sd.parameter_records))
    if k == 'te':
        return 'transferExit %s' % bh(sd.parameter_records)
    return '?'


def run_history(s, ctx, hseed, nsteps, force_zero_did=False, wrap=False, big=False):
    import random
    from .. import clientlib as cl, enclib, hist
    from udsoncan import MemoryLocation, DataFormatIdentifier
    rng = random.Random(hseed)
    drv = core.Driver()
    try:
        assert drv.ask('ecu.reset') == 'ok'
        st = {'dids': dict(rng.choice(DID_SETS)), 'default': rng.choice(DEFAULTS), 'tol': rng.random() < 0.7, 'caf': rng.choice([None, None, 16, 32]), 'cmf': rng.choice([None, None, 8, 16])}
        if force_zero_did:
            st = {'dids': {0x1234: ('B', 2)}, 'default': ('B', 2), 'tol': True, 'caf': None, 'cmf': None}

        def extra():
            e = {'data_identifiers': cfg_objects(st['dids'], st['default']), 'tolerate_zero_padding': st['tol']}
            if st['caf'] is not None:
                e['server_address_format'] = st['caf']
            if st['cmf'] is not None:
                e['server_memorysize_format'] = st['cmf']
            return e
        client, conn = cl.make_client(cl.Cfg(rt=50, p2=20, p2s=20), extra=extra())
        frames = []

        late = {'on': False, 'reply': None}

        def responder(p):
            frames.append(bytes(p))
            rep = drv.ask('ecu.frame d=%s' % hx(p))
            late['reply'] = None if rep == '-' else bytes.fromhex(rep)
            if rep == '-':
                return []
            # a reply that arrives after the request timeout (50 ticks): the caller sees a timeout, the frame stays in the transport's queue
            return [(120 if late['on'] else 1, bytes.fromhex(rep))]
        conn.responder = responder
        conn.inflight_survives_flush = True
        shadow = Shadow()
        mls = []          # MemoryLocation objects kept for reuse
        xfer = None       # harness view of the running download: dict(addr, total, sent, seq)
        trail = []
        steps = []
        if force_zero_did:
            steps = [('wdbi', 0, bytes(2)), ('rdbi', [0])]
        if wrap:
            steps = [('download', 700)]       # enough one-to-three byte blocks for the block sequence counter to wrap past 0xFF
        if big:
            steps = [('download', 9000)]      # room for blocks longer than the 4095 bytes the ECU announces (the block length is the caller's)
        for step in range(nsteps):
            # ---- choose the operation
            if steps:
                op = steps.pop(0)
            else:
                r = rng.random()
                if (wrap or big) and xfer is not None and not xfer.get('up') and xfer['sent'] < xfer['total'] and rng.random() < 0.9:
                    op = ('block',)
                elif big and xfer is not None and not xfer.get('up') and xfer['sent'] >= xfer['total']:
                    op = ('exit',)
                elif r < 0.10:
                    op = ('config',)
                elif r < 0.30:
                    did = rng.choice(list(st['dids']) + [0x4321, 0x1234])
                    kind = st['dids'].get(did, st['default'])
                    ln = (kind[1] if kind and kind[1] is not None else rng.randrange(1, 6))
                    if rng.random() < 0.1 and not (kind and (kind[0] in ('le', 'be') or kind[0] in NATIVE)):
                        ln += 1                                   # wrong length: refused locally (an integer value has no length to get wrong)
                    from .. import declib as _dl
                    v = bytes(ln) if rng.random() < 0.15 else _dl.vb(rng, ln)
                    op = ('wdbi', did, v)
                elif r < 0.48:
                    pool = list(shadow.dids) or [0x1234]
                    k = rng.choice([1, 1, 1, 2, 3])
                    lst = [rng.choice(pool) for _ in range(k)]
                    if rng.random() < 0.2:
                        lst.append(rng.choice([0x5678, 0x4321, 0xEEEE]))
                    lst = list(dict.fromkeys(lst))
                    op = ('rdbi', lst)
                elif r < 0.60:
                    op = ('wmem',)
                elif r < 0.74:
                    op = ('rmem',)
                elif r < 0.77 and xfer is None:
                    op = ('upload',)
                elif r < 0.80 and xfer is None:
                    op = ('download',)
                elif xfer is not None and xfer.get('up') and r < 0.93:
                    op = ('pull',) if rng.random() < 0.85 else ('exit',)
                elif r < 0.93 and xfer is not None and not xfer.get('up'):
                    op = ('block',) if xfer['sent'] < xfer['total'] and rng.random() < 0.9 else ('exit',)
                elif r < 0.95:
                    op = ('exit',)
                elif r < 0.965:
                    op = ('blockfail',)
                else:
                    op = ('simple', rng.choice([('cs', rng.choice([1, 2, 3])), ('tp',), ('er', 1), ('rs', 1, b''), ('sk', 2, b'\x11\x22'), ('rc', 0x1234, 1, None),
                                                ('cd', 1, None)]))
            # ---- build the call on both sides
            desc, line, fn, post = None, None, None, None
            if op[0] == 'config':
                what = rng.choice(['dids', 'dids', 'dids', 'tol', 'caf', 'cmf'])
                if what == 'dids':
                    cur = [i for i, d_ in enumerate(DID_SETS) if d_ == st['dids']]
                    if cur and cur[0] in (4, 5) and rng.random() < 0.6:
                        st['dids'] = dict(DID_SETS[9 - cur[0]])          # the same identifiers with the other byte order
                    else:
                        st['dids'], st['default'] = dict(rng.choice(DID_SETS + DID_SETS[4:])), rng.choice(DEFAULTS)
                    if rng.random() < 0.5:
                        client.set_config('data_identifiers', cfg_objects(st['dids'], st['default']))
                    else:
                        client.set_configs({'data_identifiers': cfg_objects(st['dids'], st['default'])})
                elif what == 'tol':
                    st['tol'] = not st['tol']
                    client.set_config('tolerate_zero_padding', st['tol'])
                elif what == 'caf':
                    st['caf'] = rng.choice([8, 16, 24, 32, 64])
                    client.set_config('server_address_format', st['caf'])
                else:
                    st['cmf'] = rng.choice([8, 16, 32])
                    client.set_config('server_memorysize_format', st['cmf'])
                trail.append('config %s -> %s' % (what, cfg_line(st)))
                continue
            if op[0] == 'blockfail':
                # a call that fails inside a payload-override / suppress-positive-response block (the exception leaves the block); the frames used do not change the ECU
                which = rng.choice(['override-negative', 'override-unexpected', 'suppress-negative', 'override-literal-error'])
                late['on'] = False
                try:
                    if which == 'override-negative':
                        with client.payload_override(b'\x22\xff\xfe'):            # a record nobody wrote: NRC 0x31
                            client.read_data_by_identifier([rng.choice(list(st['dids']) or [0x1234])] if st['dids'] else [0x1234])
                    elif which == 'override-unexpected':
                        with client.payload_override(lambda p: b'\x3e\x00'):       # answered 7E 00: not the service that was asked
                            client.ecu_reset(1)
                    elif which == 'suppress-negative':
                        with client.suppress_positive_response(wait_nrc=True):
                            client.routine_control(0x1234, 1, b'')                 # fewer than the ECU wants? no: answered, then a block exit by exception
                            raise KeyError('user code fails inside the block')
                    else:
                        with client.payload_override(b'\x22\xff\xfe'):
                            raise KeyError('user code fails inside the block')
                except Exception as e:  # noqa
                    trail.append('%s -> %s' % (which, type(e).__name__))
                else:
                    trail.append('%s -> returned' % which)
                s.count('blockfail:' + which)
                continue
            if op[0] == 'wdbi':
                _, did, v = op
                kind = st['dids'].get(did, st['default'])
                pyv = py_value(kind[0] if kind else 'raw', v)
                desc = 'write_data_by_identifier(0x%04x, %s)' % (did, v.hex())
                line = 'k=wdbi did=%d v=%s' % (did, hx(v))
                fn = lambda did=did, pyv=pyv: client.write_data_by_identifier(did, pyv)
                dump = lambda r: 'wdbi %d' % r.service_data.did_echo

                def post(ok, r, did=did, v=v):
                    if ok:
                        shadow.dids[did] = v
            elif op[0] == 'rdbi':
                lst = op[1]
                desc = 'read_data_by_identifier(%s)' % ['0x%04x' % d for d in lst]
                line = 'k=rdbi dids=%s' % ','.join(str(d) for d in lst)
                fn = lambda lst=lst: client.read_data_by_identifier(list(lst))
                dump = lambda r: 'rdbi ' + (','.join('%d=%s' % (k_, hx(raw_of(st['dids'].get(k_, st['default']), v_))) for k_, v_ in r.service_data.values.items()) or '-')

                def compatible(d):
                    """the stored record has the length the codec configured *now* expects (the property is about one codec configuration)"""
                    kind = st['dids'].get(d, st['default'])
                    return kind is not None and d in shadow.dids and (kind[1] is None or kind[1] == len(shadow.dids[d]))

                def post(ok, r, lst=lst):
                    allfixed = all(st['dids'].get(d, st['default']) is not None and st['dids'].get(d, st['default'])[1] is not None for d in lst[:-1])
                    if not (all(compatible(d) for d in lst) and allfixed):
                        return
                    if ok:
                        for d in lst:
                            got = raw_of(st['dids'].get(d, st['default']), r.service_data.values.get(d))
                            if got != shadow.dids.get(d):
                                s.fail({'site': 'read_data_by_identifier', 'history': hseed, 'step': step, 'did': d, 'input': ' ; '.join(trail[-12:]),
                                        'class': 'read back differs', 'observed': hx(got), 'required': hx(shadow.dids.get(d))})
                    else:
                        zero_amb = (0 in lst and 0 not in st['dids'] and st['tol'] and not any(shadow.dids.get(0, b'\x01')))
                        s.fail({'site': 'read_data_by_identifier', 'history': hseed, 'step': step, 'dids': lst, 'input': ' ; '.join(trail[-12:]),
                                'class': 'identifier 0x0000 through the default codec, all-zero value, zero padding tolerated' if zero_amb else 'written values cannot be read back',
                                'observed': 'read failed', 'required': ','.join('%d=%s' % (d, hx(shadow.dids[d])) for d in lst)})
            elif op[0] in ('wmem', 'rmem', 'download', 'upload'):
                reuse = mls and rng.random() < 0.5 and len(op) == 1
                if reuse:
                    ml = rng.choice(mls)
                    if rng.random() < 0.5:      # re-point the same object
                        ml.address = rng.choice([0, 0x10, 0x2000, 0xFFFF, rng.getrandbits(16), rng.getrandbits(24)])
                        ml.memorysize = rng.choice([1, 2, 4, 7, 16])
                else:
                    a = rng.choice([0, 0x10, 0x2000, 0xFFFF, 0x12345678, rng.getrandbits(16), rng.getrandbits(rng.choice(W))])
                    z = rng.choice([1, 2, 4, 7, 16, 300, 900] + ([5000] if rng.random() < 0.25 else [])) if op[0] == 'download' else rng.choice([1, 2, 4, 7, 16])   # 5000: room for a block longer than the 4095 the ECU announces
                    if len(op) > 1:
                        a, z = 0x4000, op[1]
                    mode = rng.choice(['auto', 'auto', 'explicit']) if len(op) == 1 else 'auto'
                    af = mf = None
                    if mode == 'explicit':
                        af, mf = rng.choice(W), rng.choice(W)
                    try:
                        ml = MemoryLocation(a, z, af, mf)
                    except Exception:  # noqa
                        continue
                    mls.append(ml)
                    mls = mls[-4:]
                a, z, af, mf = ml.address, ml.memorysize, ml.address_format, ml.memorysize_format
                if op[0] == 'wmem':
                    data = bytes(rng.randrange(256) for _ in range(z if rng.random() < 0.9 else z + 1))
                    if rng.random() < 0.2:
                        data = data[:-1] + b'\x00'
                    desc = 'write_memory_by_address(a=%d s=%d af=%s mf=%s, %s)' % (a, z, oi(af), oi(mf), data.hex())
                    line = 'k=wmem a=%d s=%d af=%s mf=%s data=%s' % (a, z, oi(af), oi(mf), hx(data))
                    fn = lambda ml=ml, data=data: client.write_memory_by_address(ml, data)
                    dump = lambda r: 'alfid=%d a=%d s=%d' % (r.service_data.alfid_echo, r.service_data.memory_location_echo.address, r.service_data.memory_location_echo.memorysize)

                    def post(ok, r, a=a, data=data):
                        if ok:
                            shadow.write(a, data)
                elif op[0] == 'rmem':
                    desc = 'read_memory_by_address(a=%d s=%d af=%s mf=%s)' % (a, z, oi(af), oi(mf))
                    line = 'k=rmem a=%d s=%d af=%s mf=%s' % (a, z, oi(af), oi(mf))
                    fn = lambda ml=ml: client.read_memory_by_address(ml)
                    dump = lambda r: 'readMem %s' % hx(r.service_data.memory_block)

                    def post(ok, r, a=a, z=z):
                        if ok and r.service_data.memory_block != shadow.read(a, z):
                            s.fail({'site': 'read_memory_by_address', 'history': hseed, 'step': step, 'input': ' ; '.join(trail[-12:]), 'class': 'read back differs',
                                    'observed': r.service_data.memory_block.hex(), 'required': shadow.read(a, z).hex()})
                elif op[0] == 'upload':
                    desc = 'request_upload(a=%d s=%d af=%s mf=%s)' % (a, z, oi(af), oi(mf))
                    line = 'k=xfer up=1 a=%d s=%d af=%s mf=%s dfi=0' % (a, z, oi(af), oi(mf))
                    fn = lambda ml=ml: client.request_upload(ml, DataFormatIdentifier(0, 0))
                    dump = lambda r: 'xfer %d' % r.service_data.max_length

                    def post(ok, r, a=a, z=z):
                        nonlocal xfer
                        if ok:
                            xfer = {'addr': a, 'total': z, 'sent': 0, 'seq': 1, 'buf': b'', 'up': True}
                else:
                    desc = 'request_download(a=%d s=%d af=%s mf=%s)' % (a, z, oi(af), oi(mf))
                    line = 'k=xfer up=0 a=%d s=%d af=%s mf=%s dfi=0' % (a, z, oi(af), oi(mf))
                    fn = lambda ml=ml: client.request_download(ml, DataFormatIdentifier(0, 0))
                    dump = lambda r: 'xfer %d' % r.service_data.max_length

                    def post(ok, r, a=a, z=z):
                        nonlocal xfer
                        if ok:
                            xfer = {'addr': a, 'total': z, 'sent': 0, 'seq': 1, 'buf': b''}
            elif op[0] == 'block':
                n = min(xfer['total'] - xfer['sent'], rng.choice([1, 1, 2, 3] if wrap else [1, 1, 2, 3, 8]))
                if xfer['total'] >= 4200 and (big or rng.random() < 0.6):
                    n = min(xfer['total'] - xfer['sent'], rng.choice([4094, 4095, 4096, 4500]))      # the block length is the caller's: the client passes it on as it is
                    s.count('block longer than 4 KiB')
                blk = bytes(rng.randrange(256) for _ in range(n))
                seq = xfer['seq'] if rng.random() < 0.93 else (xfer['seq'] + 1) % 256
                e = ('td', seq, blk)
                desc = 'transfer_data(%d, %s)' % (seq, blk.hex() if len(blk) <= 16 else '%d bytes %s..' % (len(blk), blk[:4].hex()))
                line = 'k=simple entry=%s' % hist.entry_str(e)
                fn = lambda e=e: hist.invoke_entry(client, e)
                dump = lambda r: dump_simple('td', r)

                def post(ok, r, blk=blk):
                    if ok:
                        xfer['sent'] += len(blk)
                        xfer['buf'] += blk
                        xfer['seq'] = (xfer['seq'] + 1) % 256
                        if xfer['seq'] == 0:
                            s.count('block-sequence-counter wrapped 0xFF -> 0x00')
            elif op[0] == 'pull':
                seq = xfer['seq'] if rng.random() < 0.93 else (xfer['seq'] + 2) % 256
                e = ('td', seq, None)
                desc = 'transfer_data(%d)  [upload]' % seq
                line = 'k=simple entry=%s' % hist.entry_str(e)
                fn = lambda e=e: hist.invoke_entry(client, e)
                dump = lambda r: dump_simple('td', r)

                def post(ok, r):
                    if ok:
                        got = r.service_data.parameter_records or b''
                        n = min(6, xfer['total'] - xfer['sent'])
                        want = shadow.read(xfer['addr'] + xfer['sent'], n)
                        if got != want:
                            s.fail({'site': 'transfer_data (upload)', 'history': hseed, 'step': step, 'input': ' ; '.join(trail[-12:]), 'class': 'read back differs',
                                    'observed': got.hex(), 'required': want.hex()})
                        xfer['sent'] += n
                        xfer['seq'] = (xfer['seq'] + 1) % 256
            elif op[0] == 'exit':
                e = ('te', None)
                desc = 'request_transfer_exit()'
                line = 'k=simple entry=%s' % hist.entry_str(e)
                fn = lambda e=e: hist.invoke_entry(client, e)
                dump = lambda r: dump_simple('te', r)

                complete = xfer is not None and not xfer.get('up') and xfer['sent'] == xfer['total'] and len(xfer['buf']) == xfer['total']

                def post(ok, r, complete=complete):
                    nonlocal xfer
                    if ok and xfer is not None:
                        if not xfer.get('up'):
                            shadow.write(xfer['addr'], xfer['buf'])
                        xfer = None
                    elif complete and not ok and not late['on']:
                        # every block was acknowledged and together they are exactly the announced size: the ECU must have the whole image
                        s.fail({'site': 'request_transfer_exit', 'history': hseed, 'step': step, 'input': ' ; '.join(trail[-12:]), 'class': 'blocks acknowledged but not reassembled',
                                'observed': 'exit refused after %d acknowledged bytes' % xfer['sent'], 'required': 'the ECU holds the %d bytes that were pushed and commits them' % xfer['total']})
            else:
                e = op[1]
                desc = hist.entry_str(e)
                line = 'k=simple entry=%s' % hist.entry_str(e)
                fn = lambda e=e: hist.invoke_entry(client, e)
                dump = lambda r, k=e[0]: dump_simple(k, r)
                post = lambda ok, r: None
            # ---- run it on the real client (ECU = impl side) and on the model (ECU = model side)
            nfr = len(frames)
            late['on'] = rng.random() < 0.04
            run_fn = fn
            if op[0] in ('wdbi', 'rdbi', 'wmem', 'rmem', 'block', 'pull', 'exit', 'download', 'upload') and rng.random() < 0.08:
                # none of these services has a sub-function: inside a suppress-positive-response block (waiting for an NRC or not) they are sent
                # unmodified and handled normally
                wn = rng.random() < 0.6

                def run_fn(fn=fn, wn=wn):
                    with client.suppress_positive_response(wait_nrc=wn):
                        return fn()
                s.count('inside-suppress-block')
            how, verdict, flags, payload, exc, r = cl.observe_outer(conn, run_fn)
            if how == 'ret' and verdict == 'ok':
                try:
                    got = 'ok ' + dump(r)
                except Exception as ex:  # noqa
                    got = 'dump-failed:' + type(ex).__name__
            else:
                got = verdict.replace('other:', '')
            was_late = late['on'] and len(frames) > nfr and late['reply'] is not None
            if conn.pending or rng.random() < 0.1:
                # time passes between two calls (the virtual clock only moves inside waits otherwise): a reply that was still on its way when the caller
                # gave up is in the transport's queue by the time of the next call - which must flush it, not take it for its answer
                cl.CLOCK.now = max([cl.CLOCK.now] + [t_ for t_, _ in conn.pending]) + 400 * cl.TICK
            full = 'rig.call %s %s%s' % (cfg_line(st), line, ' late=1' if was_late else '')
            want = drv.ask(full)

            def norm(o):
                # an argument refused before anything is sent: which Python exception a (user) codec raises is not modelled
                t = o.split(' ')[0].split(':')[0]
                return o if t in ('ok', 'none') + cl.DOCUMENTED else 'refused'
            if norm(got) == 'refused' and len(frames) > nfr:
                s.fail({'site': desc, 'history': hseed, 'step': step, 'input': ' ; '.join(trail[-8:]), 'class': 'undocumented exception after a frame was sent', 'observed': got,
                        'required': 'a result or a documented exception'})
            if op[0] in ('wmem', 'rmem', 'upload', 'download') and norm(got) == 'refused' and len(frames) == nfr:
                from . import c14
                if c14.expected_widths(a, z, af, mf, st['caf'], st['cmf']) is not None:
                    s.fail({'site': desc, 'history': hseed, 'step': step, 'input': ' ; '.join(trail[-8:] + [desc]), 'class': 'a range that fits the widths in force is refused: it can be neither written nor read',
                            'observed': got, 'required': 'the request reaches the ECU (address and size fit the %s widths)' % ('explicit' if af or mf else 'configured / automatic')})
            got, want = norm(got), norm(want)
            trail.append('%s -> %s' % (desc, got.split(' ')[0] if not got.startswith('ok') else 'ok'))
            s.evaluations += 1
            if len(frames) > nfr:
                s.distinct.add('%d:%d' % (hseed, step))
            s.count('%s:%s' % (op[0] if op[0] != 'simple' else 'simple-' + op[1][0], got.split(' ')[0].split(':')[0]))
            if got != want:
                s.diverge('history %d step %d: %s | %s | before: %s' % (hseed, step, desc, full, ' ; '.join(trail[-8:-1])), want, got)
            if was_late and got == 'timeout' and late['reply'] and late['reply'][0] == frames[-1][0] + 0x40:
                # the ECU executed the request although the caller saw a timeout: what it stored counts as written
                if op[0] == 'wdbi':
                    shadow.dids[op[1]] = frames[-1][3:]
                elif op[0] == 'wmem':
                    shadow.write(a, frames[-1][1 + len(late['reply']) - 1:])
                elif op[0] == 'download':
                    xfer = {'addr': a, 'total': z, 'sent': 0, 'seq': 1, 'buf': b''}
                elif op[0] == 'upload':
                    xfer = {'addr': a, 'total': z, 'sent': 0, 'seq': 1, 'buf': b'', 'up': True}
                elif op[0] == 'block':
                    xfer['sent'] += len(blk); xfer['buf'] += blk; xfer['seq'] = (xfer['seq'] + 1) % 256
                elif op[0] == 'pull':
                    xfer['sent'] += min(6, xfer['total'] - xfer['sent']); xfer['seq'] = (xfer['seq'] + 1) % 256
                elif op[0] == 'exit' and xfer is not None:
                    if not xfer.get('up'):
                        shadow.write(xfer['addr'], xfer['buf'])
                    xfer = None
                s.count('late-reply:' + op[0])
            else:
                post(got.startswith('ok'), r)
        # ---- end of history: both ECU copies and the shadow agree
        ei, em = drv.ask('ecu.dump'), drv.ask('rig.dump')
        s.evaluations += 1
        if ei != em:
            s.diverge('history %d: final ECU state (implementation side vs model side)' % hseed, em, ei)
        want = shadow.dump()
        have = ei.rsplit(' xfer=', 1)[0]
        if have != want:
            s.fail({'site': 'history', 'history': hseed, 'input': ' ; '.join(trail[-15:]), 'class': 'ECU state differs from what the successful writes say',
                    'observed': have[:400], 'required': want[:400]})
    finally:
        drv.close()


def suite_history(ctx):
    s = Suite('history')
    base = ctx.rng.randrange(1 << 30)
    run_history(s, ctx, 0, 2, force_zero_did=True)            # corpus: the documented 0x0000 / default codec / zero value ambiguity
    run_history(s, ctx, 1, 12, big=True)                      # corpus: a download pushed in blocks longer than the announced maximum, then exit
    n = ctx.n(300, 4000)
    for i in range(n):
        long_ = (i % 25 == 0)
        run_history(s, ctx, base + i, 450 if long_ else 25, wrap=long_)
    s.notes.append('%d histories' % n)
    return s


# ----------------------------------------------------------------------------------------------
# the library's own codecs: DidCodec(packstr) (a str entry of data_identifiers) and AsciiCodec
# ----------------------------------------------------------------------------------------------

CODES = 'xbBhHiIlLqQ'
STD = {'b': 1, 'B': 1, 'h': 2, 'H': 2, 'i': 4, 'I': 4, 'l': 4, 'L': 4, 'q': 8, 'Q': 8}
NAT = dict(STD, l=8, L=8)


def rand_packstr(rng):
    pre = rng.choice(['', '', '@', '=', '<', '>', '>', '!'])
    items, toks = [], []
    for _ in range(rng.choice([1, 1, 2, 2, 3, 4])):
        c = rng.choice(CODES)
        cnt = rng.choice(['', '', '', '1', '2', '3'])
        items.append(cnt + c)
        toks += [c] * (int(cnt) if cnt else 1)
    sep = rng.choice(['', '', '', ' '])
    if rng.random() < 0.04:
        bad = rng.choice(['f', 's', '?', 'd', 'c', 'p', '0H', 'e', 'n', 'P'])      # outside the modelled subset
        items.append(bad)
        return pre + sep.join(items), None, pre
    return pre + sep.join(items), toks, pre


def rand_int_for(rng, code, pre):
    w = (NAT if pre in ('', '@') else STD)[code]
    if code.islower():
        lo, hi = -(1 << (8 * w - 1)), (1 << (8 * w - 1)) - 1
    else:
        lo, hi = 0, (1 << (8 * w)) - 1
    return rng.choice([lo, hi, 0, 1, -1, lo - 1, hi + 1, hi // 2 + 1, rng.randint(lo, hi), rng.randint(lo, hi), rng.randint(lo, hi), 0x80, 0xFF, 0x100, 0x8000, 0xFFFF])


def val_str(v):
    if isinstance(v, str):
        return 's' + (','.join(str(ord(c)) for c in v) or '-')
    if isinstance(v, tuple):
        return 't' + (','.join(str(x) for x in v) or '-')
    return 'o%d' % v


def codec_str(c):
    if isinstance(c, str):
        return 'p' + ''.join('%02x' % ord(ch) for ch in c)
    return 'a%d' % c.string_len


def suite_codec(ctx):
    """DidCodec(packstr) / AsciiCodec: encode through WriteDataByIdentifier.make_request (tuple spreading included), decode through
    ReadDataByIdentifier.interpret_response, len(); model vs implementation, and decode(encode(v)) == v on the implementation"""
    import struct
    from udsoncan import AsciiCodec, Response, services
    from udsoncan.common.dids import make_did_codec_from_definition
    from ..clientlib import exc_tag
    s = Suite('codec')
    rng = ctx.rng
    n = ctx.n(6000, 120000)
    cases = []           # (kind, codec definition, argument)
    for i in range(n):
        if rng.random() < 0.15:
            k = rng.choice([0, 1, 2, 3, 5, 17])
            c = AsciiCodec(k)
            ln = rng.choice([k, k, k, k, k + 1, max(0, k - 1)])
            txt = ''.join(chr(rng.choice([rng.randint(0x20, 0x7E), rng.randint(0, 0x7F), 0x7F, 0x80, 0xE9, 0x100]) if rng.random() < 0.15 else rng.randint(0x20, 0x7E)) for _ in range(ln))
            cases.append(('enc', c, txt))
            raw = bytes(rng.choice([rng.randint(0x20, 0x7E), 0x7F, 0x80, 0xFF, 0]) if rng.random() < 0.15 else rng.randint(0x20, 0x7E) for _ in range(ln))
            cases.append(('dec', c, raw))
            cases.append(('len', c, None))
            continue
        fmt, toks, pre = rand_packstr(rng)
        if toks is None:
            cases.append(('len', fmt, None))
            continue
        ints = [t for t in toks if t != 'x']
        vals = [rand_int_for(rng, t, pre) for t in ints]
        r = rng.random()
        if r < 0.06:
            vals = vals[:-1] if vals else [1]                # wrong number of values
        elif r < 0.10:
            vals = vals + [0]
        v = tuple(vals)
        if len(vals) == 1 and rng.random() < 0.5:
            v = vals[0]                                      # a scalar for a one-item format
        cases.append(('enc', fmt, v))
        try:
            size = struct.calcsize(fmt)
        except struct.error:
            size = 0
        ln = rng.choice([size, size, size, size + 1, max(0, size - 1)])
        cases.append(('dec', fmt, bytes(rng.choice([0, 0xFF, 0x80, 0x7F, rng.randrange(256)]) for _ in range(ln))))
        cases.append(('len', fmt, None))
    lines = []
    for kind, c, arg in cases:
        if kind == 'enc':
            lines.append('didc.enc c=%s v=%s' % (codec_str(c), val_str(arg)))
        elif kind == 'dec':
            lines.append('didc.dec c=%s d=%s' % (codec_str(c), hx(arg)))
        else:
            lines.append('didc.len c=%s' % codec_str(c))
    model = core.drv_batch(lines)
    DID = 0x1234
    for (kind, c, arg), line, m in zip(cases, lines, model):
        s.evaluations += 1
        s.distinct.add(line)
        label = 'ascii' if not isinstance(c, str) else ('native' if c[:1] not in '=<>!' else 'standard')
        try:
            if kind == 'enc':
                req = services.WriteDataByIdentifier.make_request(DID, arg, didconfig={DID: c})
                pl = req.get_payload()
                assert pl[:3] == bytes([0x2E, 0x12, 0x34])
                got = 'ok ' + hx(pl[3:])
            elif kind == 'dec':
                # through the service when the length fits (that is the path a reply takes), else the codec itself
                codec = make_did_codec_from_definition(c)
                if len(arg) == len(codec) and len(arg) > 0:
                    resp = Response(services.ReadDataByIdentifier, Response.Code.PositiveResponse, data=bytes([0x12, 0x34]) + arg)
                    try:
                        val = services.ReadDataByIdentifier.interpret_response(resp, [DID], {DID: c}).service_data.values[DID]
                    except Exception as e:                        # a decode error is reported as an invalid response: look at its cause through the codec
                        val = codec.decode(arg)
                        raise AssertionError('service failed (%s) where the codec decodes' % type(e).__name__)
                else:
                    val = codec.decode(arg)
                got = 'ok ' + val_str(val)
            else:
                got = 'ok %d' % len(make_did_codec_from_definition(c))
        except struct.error:
            got = 'err struct.error'
        except ValueError:
            got = 'err ValueError'
        except AssertionError:
            raise
        if m == 'unsupported':
            s.count('unsupported-format')
            continue
        # P_spec on the implementation, independent of the model: an ASCII codec of n characters transmits exactly n bytes below 0x80 or refuses
        if kind == 'enc' and not isinstance(c, str):
            fits = len(arg) == c.string_len and all(ord(ch) < 128 for ch in arg)
            if got.startswith('ok') != fits or (fits and got != 'ok ' + hx(arg.encode('ascii'))):
                s.fail({'site': 'AsciiCodec.encode', 'input': line, 'class': 'text not transmitted as it is, or not refused', 'observed': got,
                        'required': ('ok ' + hx(arg.encode('ascii'))) if fits else 'refused (wrong length or not ASCII): nothing is transformed silently'})
                continue
        s.count('%s:%s:%s' % (label, kind, got.split(' ')[0] if got.startswith('ok') else got))
        if m != got:
            s.diverge(line, m, got)
            continue
        # P_spec on the implementation: what was encoded decodes back to the value (a scalar as the one-element tuple)
        if kind == 'enc' and got.startswith('ok'):
            codec = make_did_codec_from_definition(c)
            raw = bytes.fromhex(got[3:]) if got[3:] != '-' else b''
            back = codec.decode(raw)
            want = arg if isinstance(arg, (tuple, str)) else (arg,)
            if back != want or len(raw) != len(codec):
                s.fail({'site': 'DidCodec', 'input': line, 'class': 'decode(encode(v)) != v', 'observed': '%r (%d bytes, len(codec) = %d)' % (back, len(raw), len(codec)), 'required': repr(want)})
    s.notes.append('%d codec cases; struct itself is the standard library (modelled, see Uds/Model/DidCodec.lean)' % len(cases))
    return s


def suite_two_clients(ctx):
    """a second client object in the same process (inside a suppress block, a payload override, with adopted timing, reconfigured, after a failed call) never shows
    in this client's frames or outcome: the C15 two_clients suite, run here as well (state kept on the class instead of the instance breaks this property too)"""
    from . import c15
    return c15.suite_two_clients(ctx)


def suite_user_code(ctx):
    """an application that extends the library with classes of its own (child process: harness/user_child.py memloc_subclass)"""
    return core.suite_user_code('memloc_subclass', 'memory-addressed request')


SUITES = [suite_history, suite_codec, suite_two_clients, suite_user_code]
