"""writes MANIFEST.json from the table below (run: /venv/bin/python -m harness.manifest)"""
import json
import os

ROOT = os.path.dirname(os.path.dirname(os.path.abspath(__file__)))

NOTE = ("Trusted: Lean 4.33.0 kernel (axioms per theorem audited: propext, Classical.choice, Quot.sound only; no native_decide/"
        "bv_decide/sorry/own axioms), harness/extract.py, the correspondence harness, the Spec transcription; the hand-written "
        "Model is tied to /repo by extraction+`decide` (finite tables, exhaustive) and by differential suites (everything else).")

CLAIMED = {
    'C16': dict(
        text="Lean theorems over labelled transition systems of SocketConnection (datagram, seqpacket and byte-stream sockets) and QueueConnection: an invariant over arbitrary action "
             "sequences (= every interleaving of peer writes, peer disconnect, receiver-thread iterations with any kernel chunking, faults in the loop, reads with both exception flags, "
             "flushes, sends, close idle or racing an iteration, reopen) gives: frames returned by wait_frame are a subsequence in order of the frames sent (cut to the buffer size / MTU), "
             "exactly the frames sent when nothing was flushed and everything was consumed, byte-stream concatenation is a prefix of the bytes sent, nothing is queued at end of stream, a "
             "closed connection raises without blocking, close() ends the receiver thread, a wait gives up only on an empty queue and maps to TimeoutException / None by the flag. Tied by "
             "deterministic forcing of interleavings on the real class (scripted socket + selector gate the receiver thread) compared action by action with the model, plus real socketpair "
             "stress. Partial: thread safety of queue.Queue, select/recv/join semantics and timer accuracy are assumed.",
        design_ref='DESIGN.md §3 C16',
        technique='Lean 4 proof (invariant by induction over arbitrary action sequences) + deterministic-interleaving differential suite on the real classes + real-socket property checks',
        note=NOTE + ' Partial: the atomicity of queue.Queue operations, the behaviour of select/recv/Thread.join and the accuracy of Queue.get(timeout) are assumptions of the model, not theorems.'),
    'C17': dict(
        text="Lean theorems (request/response round trips for all services, codes, data; re-encode; totality; id uniqueness) over a "
             "line-faithful model of Request.py/Response.py; model tied to /repo by kernel-checked equality with extracted tables and an "
             "exhaustive-first-two-bytes differential suite; P_spec evaluated on the real code for every generated case.",
        design_ref='DESIGN.md §3 C17',
        technique='Lean 4 proof over hand-written model + extracted-table tie (decide +kernel) + differential correspondence'),
    'C20': dict(
        text="The code's complete lookup graphs (65 536 data ids, 65 536 routine ids, 256 values of each of the 12 subfunction tables, "
             "256 response codes, 256 DTC formats) are regenerated from /repo on every run and proved equal to the Spec graphs by the kernel "
             "(decide +kernel, no sampling); Spec theorems: totality over all 16-bit ids (lifting lemma over a contiguous partition), row "
             "soundness, exact-constant / range-only-inside / custom-fallback characterisation for every table and value, alias-aware response-code names. "
             "The named sub-function constants (12 tables, 90 constants incl. the two ControlDTCSetting ranges) and the DTC format constants are tied to the values ISO 14229-1 assigns "
             "(Spec.isoSubfn, transcribed from the standard; Tie.Names.subfn_iso by kernel evaluation; Props.C20.iso_tied_sound says what the tie means: every ISO constant defined with the ISO value, "
             "every ISO value answered with the ISO name; the code may define more).",
        design_ref='DESIGN.md §3 C20',
        technique='Lean 4 proof; model regenerated from source (complete finite graphs) + decide +kernel tie; exhaustive differential check vs Spec'),
    'C19': dict(
        text="Lean theorems: decode∘encode and encode∘decode for Status, Severity+DtcClass, CommunicationType, DataFormatIdentifier, ALFID "
             "(64 pairs), Baudrate (fixed/identifier tables, automatic classification, all 2^24 specific rates by omega), pack_dtc (all 2^24 by omega), "
             "with bit-position lemmas; finite domains by decide +kernel over the whole domain. The Model codecs are tied to /repo by complete "
             "extracted graphs proved equal in the kernel; the two 2^24 domains by a streamed hash against the real functions.",
        design_ref='DESIGN.md §3 C19',
        technique='Lean 4 proof (decide +kernel on full domains, omega for 24-bit) + extracted complete graphs tie + exhaustive differential check'),
    'C05': dict(
        text="Lean theorems over a line-faithful model of send_request's wait loop, by induction on the reply schedule (any number of 0x78 "
             "replies): window = min(limit, deadline-now) with limit P2 then P2*, first window = min(P2, request timeout) or the per-call timeout, "
             "final reply delivered iff every arrival is inside its window, timeout exactly at the end of the first empty window, never past the "
             "deadline, every wait bounded. Tied to the real client by a differential suite under an exact virtual clock (stub connection), plus an "
             "independent recomputation of the windows on the implementation. Partial by nature: real elapsed time and OS timer accuracy are outside the model."
             " History level (Props/C05Hist): the first window of a call after any history is min(P2 of the last accepted session change, request timeout). The harness's wall clock is stepped between readings and a third of its connections return None on silence.",
        design_ref='DESIGN.md §3 C05',
        technique='Lean 4 proof (induction over schedules) + differential correspondence under a virtual clock'),
    'C06': dict(
        text="Lean theorems: for every service of the table, every code byte and tail, a 0x7F frame after k in-time 0x78 frames ends the request "
             "negative with exactly that code and name (k arbitrary, by induction); 0x78 never surfaces for any arrival list; callbacks once per 0x78 "
             "before the next wait; delivery through the decorator keeps the verdict. Tied by a call-level differential suite over all 80 entry points x all "
             "256 codes on the real client. Call level for every service family (Props/C06Call.callWith_negative): whatever a client method would do with a positive reply, a negative-response frame of the request's service with any code but 0x78, after any number of in-time pending replies, makes the call raise the negative outcome with exactly that code - also inside a suppress block that waits for an NRC. Props/CallUnify.callInner_is_callWith shows the 13 simple entry points to be instances of the same generic body, so the call-level theorems cover every client method."
             ' History level (Props/C06Hist): after any history a negative reply with a code other than 0x78 ends the call with that code under every switch setting; tied by the hist suite with stray frames, requests built on user subclasses of services (child process) and a reused Request object.',
        design_ref='DESIGN.md §3 C06',
        technique='Lean 4 proof (induction on number of pending replies) + exhaustive-code differential suite over all entry points'),
    'C08': dict(
        text="Lean theorems about the decorator model: verdict and payload-derived content identical under all 8 switch settings, raised iff switch on, "
             "flag set iff off, other errors never swallowed, composite helpers sound when they call undecorated (and a proved counterexample when they "
             "do not). client.py's call graph is extracted by an AST walk on every run and the kernel checks `usesResult -> undecorated` and that every entry "
             "point is managed. Tied by running every entry point x reply kinds x all 8 combinations on the real client."
             ' Call level (Props/C08Call): send_request hands only well-formed outcomes to the decorator for every request, state and schedule, interpretations never raise a negative-response or timeout exception, hence whole calls of every family are switch-independent; history level (Props/C08Hist): any history run under two switch schedules gives the same verdicts, frames, waits and final state. Tied by callw under random switches, the hist suite under two switch schedules, a child-process scenario with exception subclasses, and switches changed after a refused configuration change.',
        design_ref='DESIGN.md §3 C08',
        technique='Lean 4 proof (case analysis) + AST-extracted call graph tie (decide) + metamorphic/differential suite over 8 switch settings'),
    'C09': dict(
        text="Lean theorems over the send_request model and the history model: inside the block the frame is the outside frame with bit 7 of byte 1 set (and "
             "the override sees it set), None at once with no read when not waiting for an NRC, None for silence/positive and the NRC for a negative reply when waiting "
             "(after any number of 0x78, by induction), services without subfunction unchanged, suppression cleared on every exit and later steps identical to never "
             "having entered. Tied by random well-nested histories on the real client (real with-blocks left normally and by exception), op by op against udsdrv, plus an "
             "independent frame construction. Call level for every service family (Props/C09Call): inside a block a method built on callWith returns None at once with exactly the bit-7 frame sent when not waiting; None after silence or an in-time positive reply when waiting; a service without sub-function is unaffected. Over arbitrary histories (Props/C09Hist.hrun_flags): the suppress / override flags after any sequence of operations are a function of the block operations alone; never_outlives_its_block.",
        design_ref='DESIGN.md §3 C09',
        technique='Lean 4 proof (induction over schedules / history steps) + differential history suite'),
    'C10': dict(
        text="Lean theorems over the call-level model: the client state changes only through an accepted session change under a post-2006 edition with server timing "
             "enabled; then P2 = first 16-bit field (ms) and P2* = second x 10 (ms) and nothing else changes; these are the limits later requests use (with C05). Tied by "
             "history suites on the real client under the virtual clock (exact for dyadic values) and by every 16-bit boundary pair + random pairs checked directly against a/1000, b*10/1000. Over arbitrary histories (Props/C10Hist.history_timing): a changed timing implies an accepted session change under an edition > 2006 with server timing enabled somewhere in the history.",
        design_ref='DESIGN.md §3 C10',
        technique='Lean 4 proof (case analysis + history step invariant) + differential history suite under virtual clock'),
    'C11': dict(
        text="Lean theorems for every record list and every pad length n: with tolerance on, the availability-mask DTC parsers return the encoded records, plus one DTC 0 per whole all-zero "
             "record of the padding when ignore_all_zero_dtc is off (n / record size of them), dropping a partial record; with tolerance off, n not a multiple of the record size is an invalid "
             "response while whole zero records are still parsed; read_memory_by_address trims / refuses; IO control with a fixed-length codec trims / refuses; the WWH-OBD, fault-counter, "
             "extended-data (by DTC and by record number), snapshot (by DTC and by record number) and ReadDataByIdentifier (fixed-length codecs) parsers: zero padding tolerated when the option "
             "is on, refused when it is off; RequestFileTransfer for EVERY reply accepted without tolerance (append-stability of the field parsers): d ++ zeros decodes to the same value with "
             "tolerance and is invalid without. The 0x16 known finding is itself a theorem (two whole zero records are refused). Domain extracted from the "
             "docstrings on every run (31 methods). Known finding: sub-function 0x16 rejects two whole zero records. Tied by every valid reply x pad 0..2*record+1 x 4 settings. Call level (Props/C11Call): callWith_final - what a client method hands back for an in-time final positive reply (after any number of pending replies) is exactly its interpretation of the reply data; hence callWith_padding_invariant / callWith_padding_rejected lift every interpretation-level padding theorem to the call, instantiated for RequestFileTransfer (rft_call_pad_tolerated).",
        design_ref='DESIGN.md §3 C11',
        technique='Lean 4 proof (strong induction on the pad length, prefix lemma by list induction) + docstring-extracted domain + differential correspondence'),
    'C12': dict(
        text="Lean theorems about the client model composed with a reference ECU written from the standard (Uds/Spec/Ecu.lean): for every ECU state before the calls (= after any history), "
             "every codec configuration and all values / addresses / sizes / widths / block lengths: a value written to a data identifier is read back equal; bytes written to a memory range are "
             "read back identical (the two calls may use different address/size widths); download + any sequence of blocks (induction over the block list; the counter wraps past 0xFF) + exit "
             "leaves exactly the original bytes at the address; and each read-back still holds after any interleaved history of calls - successful, refused locally or answered negatively - that "
             "does not itself overwrite the data (ECU frame invariants + induction over the history). The model client keeps nothing between calls; that the real client keeps nothing either "
             "is decided by the history correspondence: random long histories over one long-lived real client (configuration changes, reused and re-pointed MemoryLocation objects, failing calls) "
             "whose every frame goes to the Lean ECU, against the same calls through the Lean client model with its own ECU copy, compared per call and on the final ECU state, plus a Python shadow "
             "store as P_spec on the implementation. Upload: request_upload + enough pulls returns exactly the stored bytes. The library's own codecs (DidCodec(packstr), i.e. str entries of data_identifiers, and AsciiCodec) are modelled "
             "over a model of struct's integer subset (byte order, counts, pad bytes, native alignment): decode (encode v) = v, payload length = len(codec), out-of-range values refused (never "
             "wrapped), and the value-level read-back through the rig after any history (value_survives_history); struct itself is standard library: modelled, tied by the codec suite. "
             "Partial: user-written codecs are identity on raw bytes.",
        design_ref='DESIGN.md §3 C12',
        technique='Lean 4 proof (refinement to a reference ECU: round-trip theorems for all states, induction over block lists and call histories) + history differential suite with the Lean ECU in the loop',
        note=NOTE + ' Known finding: identifier 0x0000 through the default codec with an all-zero value under zero-padding tolerance (excluded point of the theorem, proved to fail in the model, reproduced on the code).'),
    'C13': dict(
        text="Lean theorems: parity normalisation for all levels 1..0x7E (kernel-decided), exact seed/key request frames, complete behaviour of the composite (seed exchange "
             "first; without a good seed nothing more is sent and the algorithm is not called; otherwise exactly one call with that seed and the level as passed, result sent "
             "unmodified), at most two frames, an accepted seed has at least one byte. AST-extracted call graph pins the undecorated inner calls. Tied by histories over "
             "all seed/key outcomes and switch settings and by all 126 levels x 6 algorithm signatures on the real client."
             ' History level (C13.stale_frames_never_seed in Props/C15Stray): deleting every stray frame from a history changes no algorithm call and no key frame.',
        design_ref='DESIGN.md §3 C13',
        technique='Lean 4 proof (case analysis; decide over all levels) + call-graph tie + differential history suite'),
    'C01': dict(
        text="Lean theorems over line-faithful models of every make_request (ReadDataByIdentifier incl. _first / test, WriteDataByIdentifier, IO control with values and masks, "
             "DynamicallyDefineDataIdentifier, ReadDTCInformation: all request groups table-tied to the ISO layout for every sub-function byte by kernel decide, RequestFileTransfer with Filesize "
             "objects, Authentication: all 9 tasks, the simple services, memory-addressed requests): when the builder succeeds the payload is sid, sub-function, parameters big-endian in the "
             "standard's order and width, and an independent server-side decoder (Uds/Spec/Request.lean) gives back the caller's arguments, for arbitrary identifiers, lists, byte strings and "
             "widths; inside a suppress block only bit 7 of the sub-function byte changes and the decoder reads it back; services without sub-function cannot carry it. The decoder round trip is "
             "a theorem for every builder, including RequestFileTransfer (rft_frame_decodes), all 13 simple wrappers and DynamicallyDefineDataIdentifier by source identifier. The sub-function "
             "dispatch of read_dtc_information and RequestFileTransfer (accepted argument kits and reply readings for every sub-function / mode byte) and the accepted interval of 30 validated "
             "arguments are obtained by running the real code on fixed probes on every run; the kernel evaluates the model on the same probes and demands the same tables (Tie/Groups, Tie/Bounds). Tied by structured calls on every entry point and wrapper: real client vs udsdrv, and the Spec decoder applied "
             "to the frame the real client sent. Arguments given by name: the library's sub-function constants carry the ISO values (Tie/Names.subfn_iso) and a call with the constant puts that value on the wire (iso_consts suite)."
             ' History level (Props/C01Hist): outside every block the frame of a call after any history is the encoding of its arguments; tied by the hist suite.',
        design_ref='DESIGN.md §3 C01',
        technique='Lean 4 proof (decode∘encode per service, list induction, table tie by decide +kernel) + differential correspondence + Spec decoder on the implementation\'s frames'),
    'C02': dict(
        text="Lean theorems interpret(Spec.encode v) = v over line-faithful models of the response interpreters: ReadDTCInformation availability-mask groups with arbitrary record lists "
             "(4- and 6-byte records, with and without MemorySelection; list order and count by induction), number-of-DTC replies, RequestDownload/Upload maxNumberOfBlockLength unsigned on 1..8 "
             "bytes (all values below 256^w, incl. bit 63), every other ReadDTCInformation reply group (snapshot identification, snapshots by DTC / by record number with per-DID codecs, "
             "extended data by DTC / by record number, WWH-OBD, fault counters, user-defined-memory variants), ReadDataByIdentifier with fixed-length codecs, RequestFileTransfer for every "
             "mode of operation, Authentication with and without algorithm indicator. The simple services and IO control are modelled line by line and tied by the correspondence suite. "
             "Tied by semantic reply values (field minima/maxima, 0..N records, DID sizes 1..8, per-DTC size dict) encoded by an independent reference encoder, fed to the real client and to the model. Call level (Props/C02Call): callWith_delivers — for any client method, if the final reply is a valid positive response of the request's service whose data the method's interpretation accepts with value v and every arrival (any number of response-pending replies first) falls inside the window of the wait it answers, the call returns v, whatever arrives afterwards; instantiated with the C01 frame theorems and the decode∘encode theorems for ReadDataByIdentifier, IO control and RequestDownload / Upload."
             ' History level (Props/C02Hist): outside suppress blocks the value handed back after any history is the interpretation of the in-time final reply.',
        design_ref='DESIGN.md §3 C02',
        technique='Lean 4 proof (list induction over record lists, toBE/fromBE lemmas) + differential correspondence with a reference encoder'),
    'C03': dict(
        text="Lean theorems: (A) send_request hands a response object to its caller only for a frame that parses as a valid positive response of the service of the request (first byte = "
             "request id + 0x40), for every arrival schedule and any number of 0x78 frames (induction over the arrival list); (B) for the simple services a whole client call returns the response "
             "only if every echo in its data repeats the bytes of the frame that was transmitted (sub-function with bit 7 masked, routine identifier, block sequence counter; the level "
             "normalisation of SecurityAccess included), stated against the `send` entry of the operation log; (C) for write/IO/dynamically-define/file-transfer/authentication/"
             "write-memory/read-data and every ReadDTCInformation group: accepted implies each echo position of the wire data equals the transmitted argument (data identifier, control "
             "parameter, mode of operation, data format at its variable offset, authentication task, format byte / address / size in the transmitted widths, sub-function, memory selection, "
             "functional group, record numbers incl. the record-number byte of 0x05 / 0x16 replies without any DTC, snapshot DTC number). Tied by an echo-mutation suite on the real client: each "
             "echoed field of well-formed replies replaced by every other byte value / all bit flips and boundary values (model and client must agree, client must refuse), and all 80 entry points x "
             "every other first byte. Call level for every family (Props/C03Call): callWith_accepts_only_answers — a client method returns a value only if the frame that went out is the request's payload up to the suppress bit (exactly the payload for a service without sub-function), some arrival is a valid positive response whose first byte is the request's first byte + 0x40, and the method's interpretation and echo checks accepted its data; corollaries with the concrete ISO frame and echoes for WriteDataByIdentifier, ReadDataByIdentifier, IO control, RequestFileTransfer, Authentication and ReadDTCInformation."
             ' History level (Props/C03Hist): after any history without an open override a response is returned only if it arrived during that call and answers the frame transmitted; suites for calls after an override block left by an exception, helper objects reassigned between calls, identifiers named twice, vendor subclasses of services.',
        design_ref='DESIGN.md §3 C03',
        technique='Lean 4 proof (induction over arrival schedules; accept-implies-echo theorems per client method over a hand-written model) + single-field echo-mutation differential suite over all entry points',
        note=NOTE + ' The DTC number of extended-data replies (0x06/0x10/0x19) is not compared by the client and is not among the echoes the property lists: mutated and compared with the model, not required.'),
    'C04': dict(
        text="Lean theorems: for every response interpreter and every client-side check (all simple services, ReadDataByIdentifier loop, WriteDataByIdentifier, DynamicallyDefineDataIdentifier, "
             "ReadMemoryByAddress, RequestDownload/Upload, IO control, RequestFileTransfer, Authentication, and all ten ReadDTCInformation response groups incl. the snapshot DID loops, plus "
             "read_dtc_information's echo-first error ordering) and for ALL byte strings, the model returns or fails with a documented outcome - IndexError / struct.error / ... are unreachable "
             "(Safe combinators; strong induction on the remaining bytes for each loop; the snapshot cursor provably advances). Termination of every parser loop is Lean's own termination check. "
             "Hypotheses: the client configuration is valid (DID size 1..8, extended-data size given) and the sub-function was accepted by make_request. Parsing of the frame itself: C17 parse_total. "
             "Call level (13 simple entry points: call_documented; every other family: callWith_documented instantiated per family): for every list of frames - any bytes, any number, any timing - the method "
             "returns or raises a documented outcome (induction over arrivals). "
             "Tied by ~10 k (thorough 170 k) truncated / mutated / extended replies per run on the real client with a step budget, all switches on and off, codecs whose decode raises, and a "
             "frame-level suite: every client entry point x whole frames as the connection delivers them (empty, 7F alone, 7F + id, truncated negative responses, foreign ids, junk; also after 0x78)."
             ' The seed/key composite (Props/C04Unlock) and every step of every history (Props/C04Hist.history_documented) end in a value, a documented exception or a refusal before anything is sent; tied by the hist suite.',
        design_ref='DESIGN.md §3 C04',
        technique='Lean 4 proof (unreachability of undocumented errors for all inputs; termination by well-founded recursion) + differential fuzz correspondence'),
    'C07': dict(
        text="Lean theorems: for every request builder, make_request succeeds IFF the arguments are in the documented domain (accept-iff theorems: identifier ranges, configured codecs and their "
             "lengths, read-all codec only last, IO masks defined and fitting, sub-function defined and allowed by the edition, every ISO request parameter present and in range, dtc_class rule, "
             "file-transfer mode / path / DataFormatIdentifier / Filesize object rules incl. width, authentication task fields, communication type / node id, link-control baudrate forms, "
             "memory values fitting their width via C14); the accepted interval of every validated integer argument (30 arguments, 16 services) is obtained on every run by running the real builders at 47 probe values around every "
             "power-of-two boundary, and the model builder is proved to accept exactly that interval at both boundaries (Tie/Bounds); a failing builder "
             "precedes send_request, so nothing is sent. Known findings (KNOWN-FINDING lines): superfluous parameters of read_dtc_information / authentication are ignored, the two 'todo' "
             "sub-functions are transmitted bare, extended-data size is validated after sending. Tied by the out-of-domain stream on the real client (connection untouched) and a wrong-type sweep "
             "over every int-annotated parameter of all 80 entry points.",
        design_ref='DESIGN.md §3 C07',
        technique='Lean 4 proof (accept-iff per builder) + differential correspondence with boundary / out-of-domain generators + type sweep on the implementation'),
    'C14': dict(
        text="Lean theorems over a line-faithful model of MemoryLocation / AddressAndLengthFormatIdentifier and the client's set_format_if_none calls: widths are explicit, else "
             "configured, else the smallest number of bytes (>= 1) holding the value (characterised for every value below 2^64, refusal at and above); the format byte's nibbles equal the "
             "byte counts transmitted; an independent Annex-H decoder recovers address and size for every value that fits and the request is refused exactly when a value does not fit "
             "(nothing is cut); every 0..2^64-1 pair is transmitted under automatic sizing; the five request layouts; dynamic-DID entry lists by induction; the write echo decodes "
             "symmetrically for all 64 width pairs. Tied by a differential suite at every byte-width boundary x explicit x configured formats on the real client, echo variants, entry lists, "
             "and the kernel-checked ALFID table tie."
             " Props/C14Reuse.reuse_resolution: one object under two configurations in turn (explicit, else the first configuration's, else the second one's, else smallest).",
        design_ref='DESIGN.md §3 C14',
        technique='Lean 4 proof (toBE/fromBE lemmas, strong induction for byte length, list induction) + extracted ALFID table tie + differential correspondence at width boundaries'),
    'C15': dict(
        text="Lean theorems: the wait loop never sends or flushes; every send_request log is flush, one send, then waits only (any outcome), at most one send per call and "
             "two for the composite, stale frames cannot influence a call and the queue is empty afterwards, a call is a function of (arguments, configuration, timing, flags), "
             "failing calls leave the state untouched. Tied by histories with residue frames and failures on the real client, a fresh-client replay of every call, a state-diff "
             "monitor over all 80 entry points, and the context manager on every exit path. Over arbitrary histories (Props/C15Hist.earlier_calls_do_not_matter): after any earlier sequence of calls of any outcome (session changes excepted), seed/key composites and stray frames, a call behaves exactly as on a fresh client."
             ' Props/C15Stray.stray_frames_are_invisible: deleting every stray frame from a history changes no frame, wait or outcome of any call.',
        design_ref='DESIGN.md §3 C15',
        technique='Lean 4 proof (induction on arrivals; log-shape invariant) + differential/metamorphic history suite'),
    'C18': dict(
        text="The whole edition x feature matrix (check_subfunction_valid for every byte x 3 editions, the node-id rule for every control type, memory selection, session "
             "reply lengths, construction and set_config(s) for candidate editions) is extracted from the running code on every run and proved equal to the Model by the kernel; "
             "Lean theorems relate the Model to the Spec for every cell (decide over the full matrix / general lemmas), prove that a refused request touches nothing, and prove by "
             "induction that the edition in force after any sequence of configuration changes is one of the three. Client-level matrix and configuration histories run on the real client.",
        design_ref='DESIGN.md §3 C18',
        technique='Lean 4 proof (decide over the complete matrix, induction over config histories) + extracted-matrix tie + exhaustive client-level suite'),
}

PENDING_REASON = 'check not built yet in this round (build order in DESIGN.md §7); not claimed until its theorem and tie exist'


def main():
    props = [json.loads(l) for l in open(os.path.join(ROOT, 'properties.jsonl'))]
    checks = []
    na = []
    for p in props:
        pid = p['id']
        if pid in CLAIMED:
            c = CLAIMED[pid]
            checks.append({
                'property_id': pid,
                'quick_cmd': './check %s --tier quick' % pid,
                'thorough_cmd': './check %s --tier thorough' % pid,
                'evidence_file': 'evidence/%s.json' % pid,
                'replay_cmd_template': './check %s --replay {path}' % pid,
                'engine': 'lean4-uds',
                'level_claimed': {'category': 'proof', 'text': c['text'], 'design_ref': c['design_ref']},
                'level_note': c.get('note', NOTE),
                'technique': c['technique'],
            })
        else:
            na.append({'property_id': pid, 'reason': PENDING_REASON})
    m = {
        'version': 1,
        'setup_cmd': './setup.sh',
        'hooks': {'guard': 'UDSONCAN_VERIF', 'enable': 'none needed: no source hooks; the harness substitutes udsoncan.client.time and a stub connection from outside',
                  'baseline_off_cmd': 'cd /repo && /venv/bin/python -m pytest -ra -q -p no:cacheprovider --timeout=900',
                  'source_commits': [], 'add_only': True},
        'engines': [{'name': 'lean4-uds', 'path': 'lean/', 'serves_properties': sorted(CLAIMED),
                     'kind_free_text': 'Lean 4 project (Model, Spec, Generated, Tie, Props) + native line-protocol driver udsdrv + Python correspondence harness (harness/)'}],
        'checks': checks,
        'not_applicable': na,
        'notes': 'See DESIGN.md. ./check <id> regenerates lean/Uds/Generated from /repo, rebuilds the property\'s Lean modules, audits axioms, runs the correspondence suites and evaluates the property on the real code.',
    }
    json.dump(m, open(os.path.join(ROOT, 'MANIFEST.json'), 'w'), indent=1)


if __name__ == '__main__':
    main()
