"""writes MANIFEST.json from the table below (run: /venv/bin/python -m harness.manifest)"""
import json
import os

ROOT = os.path.dirname(os.path.dirname(os.path.abspath(__file__)))

NOTE = ("Trusted: Lean 4.33.0 kernel (axioms per theorem audited: propext, Classical.choice, Quot.sound only; no native_decide/"
        "bv_decide/sorry/own axioms), harness/extract.py, the correspondence harness, the Spec transcription; the hand-written "
        "Model is tied to /repo by extraction+`decide` (finite tables, exhaustive) and by differential suites (everything else).")

CLAIMED = {
    'C17': dict(
        text="Lean theorems (request/response round trips for all services, codes, data; re-encode; totality; id uniqueness) over a "
             "line-faithful model of Request.py/Response.py; model tied to /repo by kernel-checked equality with extracted tables and an "
             "exhaustive-first-two-bytes differential suite; P_spec evaluated on the real code for every generated case.",
        design_ref='DESIGN.md §3 C17',
        technique='Lean 4 proof over hand-written model + extracted-table tie (decide +kernel) + differential correspondence'),
    'C20': dict(
        text="The code's complete lookup graphs (65 536 data ids, 65 536 routine ids, 256 values of each of the 12 subfunction tables, "
             "256 response codes, 256 DTC formats) are regenerated from /repo on every run and proved equal to the Spec graphs by the kernel "
             "(decide +kernel, no sampling); Spec theorems: totality over all 16-bit ids (lifting lemma over a contiguous partition), row "
             "soundness, exact-constant / range-only-inside / custom-fallback characterisation for every table and value, alias-aware response-code names.",
        design_ref='DESIGN.md §3 C20',
        technique='Lean 4 proof; model regenerated from source (complete finite graphs) + decide +kernel tie; exhaustive differential check vs Spec'),
    'C19': dict(
        text="Lean theorems: decode∘encode and encode∘decode for Status, Severity+DtcClass, CommunicationType, DataFormatIdentifier, ALFID "
             "(64 pairs), Baudrate (fixed/identifier tables, automatic classification, all 2^24 specific rates by omega), pack_dtc (all 2^24 by omega), "
             "with bit-position lemmas; finite domains by decide +kernel over the whole domain. The Model codecs are tied to /repo by complete "
             "extracted graphs proved equal in the kernel; the two 2^24 domains by a streamed hash against the real functions.",
        design_ref='DESIGN.md §3 C19',
        technique='Lean 4 proof (decide +kernel on full domains, omega for 24-bit) + extracted complete graphs tie + exhaustive differential check'),
    'C05': dict(
        text="Lean theorems over a line-faithful model of send_request's wait loop, by induction on the reply schedule (any number of 0x78 "
             "replies): window = min(limit, deadline-now) with limit P2 then P2*, first window = min(P2, request timeout) or the per-call timeout, "
             "final reply delivered iff every arrival is inside its window, timeout exactly at the end of the first empty window, never past the "
             "deadline, every wait bounded. Tied to the real client by a differential suite under an exact virtual clock (stub connection), plus an "
             "independent recomputation of the windows on the implementation. Partial by nature: real elapsed time and OS timer accuracy are outside the model.",
        design_ref='DESIGN.md §3 C05',
        technique='Lean 4 proof (induction over schedules) + differential correspondence under a virtual clock'),
    'C06': dict(
        text="Lean theorems: for every service of the table, every code byte and tail, a 0x7F frame after k in-time 0x78 frames ends the request "
             "negative with exactly that code and name (k arbitrary, by induction); 0x78 never surfaces for any arrival list; callbacks once per 0x78 "
             "before the next wait; delivery through the decorator keeps the verdict. Tied by a call-level differential suite over all 80 entry points x all "
             "256 codes on the real client.",
        design_ref='DESIGN.md §3 C06',
        technique='Lean 4 proof (induction on number of pending replies) + exhaustive-code differential suite over all entry points'),
    'C08': dict(
        text="Lean theorems about the decorator model: verdict and payload-derived content identical under all 8 switch settings, raised iff switch on, "
             "flag set iff off, other errors never swallowed, composite helpers sound when they call undecorated (and a proved counterexample when they "
             "do not). client.py's call graph is extracted by an AST walk on every run and the kernel checks `usesResult -> undecorated` and that all 80 entry "
             "points are managed. Tied by running every entry point x reply kinds x all 8 combinations on the real client.",
        design_ref='DESIGN.md §3 C08',
        technique='Lean 4 proof (case analysis) + AST-extracted call graph tie (decide) + metamorphic/differential suite over 8 switch settings'),
}

PENDING_REASON = 'check not built yet in this round (build order in DESIGN.md §7); not claimed until its theorem and tie exist'


def main():
    props = [json.loads(l) for l in open(os.path.join(ROOT, 'properties.jsonl'))]
    checks = []
    na = []
    for p in props:
        pid = p['id']
        if pid in CLAIMED:
            c = CLAIMED[pid]
            checks.append({
                'property_id': pid,
                'quick_cmd': './check %s --tier quick' % pid,
                'thorough_cmd': './check %s --tier thorough' % pid,
                'evidence_file': 'evidence/%s.json' % pid,
                'replay_cmd_template': './check %s --replay {path}' % pid,
                'engine': 'lean4-uds',
                'level_claimed': {'category': 'proof', 'text': c['text'], 'design_ref': c['design_ref']},
                'level_note': c.get('note', NOTE),
                'technique': c['technique'],
            })
        else:
            na.append({'property_id': pid, 'reason': PENDING_REASON})
    m = {
        'version': 1,
        'setup_cmd': 'cd lean && lake build',
        'hooks': {'guard': 'UDSONCAN_VERIF', 'enable': 'none needed: no source hooks; the harness substitutes udsoncan.client.time and a stub connection from outside',
                  'baseline_off_cmd': 'cd /repo && /venv/bin/python -m pytest -ra -q -p no:cacheprovider --timeout=900',
                  'source_commits': [], 'add_only': True},
        'engines': [{'name': 'lean4-uds', 'path': 'lean/', 'serves_properties': sorted(CLAIMED),
                     'kind_free_text': 'Lean 4 project (Model, Spec, Generated, Tie, Props) + native line-protocol driver udsdrv + Python correspondence harness (harness/)'}],
        'checks': checks,
        'not_applicable': na,
        'notes': 'See DESIGN.md. ./check <id> regenerates lean/Uds/Generated from /repo, rebuilds the property\'s Lean modules, audits axioms, runs the correspondence suites and evaluates the property on the real code.',
    }
    json.dump(m, open(os.path.join(ROOT, 'MANIFEST.json'), 'w'), indent=1)


if __name__ == '__main__':
    main()
