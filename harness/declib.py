"""Response interpretation (C02 / C03 / C04 / C11): for every family of client calls, a semantic reply value, its reference ISO
encoding (written here independently of the client), the udsdrv `dec` line of the call, and a canonical dump of what the real
client returned (same format as Driver/Dec.lean `showSData`)."""
import random
import struct

from . import core, stub, enclib
from . import clientlib as cl
from .core import hx, ohx, onat, b01
from .enclib import DIDS, IO, did_config, didcfg_line, io_config, iocfg_line, oint, rb

import udsoncan
from udsoncan import MemoryLocation, DataFormatIdentifier, Filesize, DynamicDidDefinition, Dtc, Response


def on(x):
    return '-' if x is None else str(x)


def ob(b):
    """Option bytes as the driver prints them"""
    if b is None:
        return '-'
    return b.hex() if len(b) else '.'


def bh(b):
    return b.hex() if b else '-'


def raw(v):
    """codec output -> bytes (struct codecs give tuples of ints, ascii gives str)"""
    if isinstance(v, (bytes, bytearray)):
        return bytes(v)
    if isinstance(v, str):
        return v.encode('latin1')
    if isinstance(v, tuple):
        return bytes(v)
    if isinstance(v, int):
        return bytes([v])
    return repr(v).encode()


def dump_dtc(sd):
    recs = []
    for d in sd.dtcs:
        snaps = []
        for s in d.snapshots:
            if isinstance(s, int):
                snaps.append('%d/-/-' % s)
            else:
                snaps.append('%d/%s/%s' % (s.record_number, on(s.did), bh(s.raw_data)))
        ext = ['%d/%s' % (e.record_number, bh(e.raw_data)) for e in d.extended_data]
        recs.append('%d:%d:%d:%s:%s:%s:%s' % (d.id, d.status.get_byte_as_int(), d.severity.get_byte_as_int(), on(d.functional_unit), on(d.fault_counter),
                                              '+'.join(snaps) if snaps else '-', '+'.join(ext) if ext else '-'))
    av = sd.status_availability.get_byte_as_int() if sd.status_availability is not None else None
    sevav = getattr(sd, 'severity_availability', None)
    sevav = sevav.get_byte_as_int() if sevav is not None else None
    return 'dtc sf=%s ms=%s av=%s sevav=%s fmt=%s fg=%s n=%s recs=%s' % (
        on(sd.subfunction_echo), on(sd.memory_selection_echo), on(av), on(sevav), on(sd.dtc_format), on(getattr(sd, 'functional_group_id', None)),
        on(sd.dtc_count), ','.join(recs) if recs else '-')


class DCase:
    def __init__(self, site, invoke, dline, good, expect, dump, config=None, rid=None, padclass=None, echo_fields=None):
        self.site, self.invoke, self.dline, self.good, self.expect, self.dump = site, invoke, dline, good, expect, dump
        self.config, self.rid, self.padclass = config or {}, rid, padclass
        self.echo_fields = echo_fields or []     # [(name, offset, length)] positions of request echoes inside `good`


def run_reply(case, data, extra_cfg=None, exc=(True, True, True)):
    """feed `rid + data` as the reply; returns 'ok <dump>' or the error tag"""
    extra = dict(case.config)
    if extra_cfg:
        extra.update(extra_cfg)
    std = extra.pop('standard_version', 2020)
    cfg = cl.Cfg(rt=50, p2=20, p2s=20, std=std, exc=exc)
    client, conn = cl.make_client(cfg, extra=extra)
    conn.script = [(1, bytes([case.rid]) + data)]
    how, verdict, flags, payload, exc_, r = cl.observe_outer(conn, lambda: case.invoke(client))
    if how == 'ret' and verdict == 'ok':
        try:
            return 'ok ' + case.dump(r)
        except Exception as e:  # noqa
            return 'dump-failed:' + type(e).__name__
    if verdict == 'none':
        return 'none'
    return verdict.replace('other:', '')


def first_then_random(idx, combos, rng):
    """the small discrete choices of a generator (mode, task, sub-function, option given / omitted ...): every combination once, in order, before anything is
    drawn at random - which combination a run contains must not depend on the seed"""
    if idx < len(combos):
        return combos[idx]
    return rng.choice(combos)


def vb(rng, n):
    """value bytes for a field that padding, trimming or "is it all zeros" logic could touch: mostly random, but a quarter end in 0x00 after a non-zero
    prefix, a tenth are all zeros, a few begin with 0x00 - so that a genuine trailing zero meets every such rule in every run"""
    if n == 0:
        return b''
    r = rng.random()
    if r < 0.10:
        return bytes(n)
    if r < 0.35:
        return bytes(rng.randrange(1, 256) for _ in range(n - 1)) + b'\x00'
    if r < 0.40:
        return b'\x00' + bytes(rng.randrange(1, 256) for _ in range(n - 1))
    return bytes(rng.randrange(256) for _ in range(n))


def scramble(obj, depth=0, seen=None):
    """edit everything that can be edited in what a call handed back: lists and dicts emptied and refilled with junk, flags flipped, numbers changed,
    nested objects likewise (a caller may do all of this to its own result)"""
    seen = seen if seen is not None else set()
    if id(obj) in seen or depth > 4:
        return
    seen.add(id(obj))
    if isinstance(obj, list):
        for x in list(obj):
            scramble(x, depth + 1, seen)
        obj.clear()
        obj.append('junk')
        return
    if isinstance(obj, dict):
        for x in list(obj.values()):
            scramble(x, depth + 1, seen)
        obj.clear()
        obj['junk'] = 1
        return
    if isinstance(obj, bytearray):
        obj[:] = b'\xEE' * (len(obj) + 1)
        return
    if isinstance(obj, (bytes, str, int, float, bool, type(None), type)) or not hasattr(obj, '__dict__'):
        return
    for k_, v_ in list(vars(obj).items()):
        if isinstance(v_, bool):
            try:
                setattr(obj, k_, not v_)
            except Exception:  # noqa
                pass
        elif isinstance(v_, int):
            try:
                setattr(obj, k_, v_ + 1)
            except Exception:  # noqa
                pass
        else:
            scramble(v_, depth + 1, seen)


def run_reply_again(case, data, same_client):
    """the reply is decoded, the caller edits what it was given, and the same reply is decoded again - by the same client or by a new one: the second
    result must be what the first one was (nothing the library hands out may be shared with a later result)"""
    extra = dict(case.config)
    std = extra.pop('standard_version', 2020)
    cfg = cl.Cfg(rt=50, p2=20, p2s=20, std=std)
    client, conn = cl.make_client(cfg, extra=dict(extra))
    conn.script = [(1, bytes([case.rid]) + data)]
    how, verdict, flags, payload, exc_, r = cl.observe_outer(conn, lambda: case.invoke(client))
    if not (how == 'ret' and verdict == 'ok'):
        return None
    scramble(r if not isinstance(r, (bytes, str, int)) else None)
    sd = getattr(r, 'service_data', None)
    if sd is not None:
        scramble(sd)
    if not same_client:
        client, conn = cl.make_client(cfg, extra=dict(extra))
    conn.script = [(0, bytes([case.rid]) + data)]      # at once: an adopted server P2 of 0 is a legal state of the same client
    how, verdict, flags, payload, exc_, r2 = cl.observe_outer(conn, lambda: case.invoke(client))
    if how == 'ret' and verdict == 'ok':
        try:
            return 'ok ' + case.dump(r2)
        except Exception as e:  # noqa
            return 'dump-failed:' + type(e).__name__
    return verdict.replace('other:', '')


# ------------------------------------------------------------------------------------------------------------------
# generators
# ------------------------------------------------------------------------------------------------------------------

def gen_simple(rng, n):
    from . import hist
    out = []
    for _ in range(n):
        std = rng.choice([2006, 2013, 2020])
        e = hist.rand_entry(rng, std, allow_invalid=False)
        if e[0] == 'lc':
            e = ('lc', rng.choice([1, 2, 3]), None, 'f') if e[2] is None else e
        if not enclib.in_domain_simple(e, std):
            continue
        k = e[0]
        sid = hist.SID[k]
        if k == 'cs':
            a, b = rng.choice([0, 50, 0xFFFF]), rng.choice([0, 500, 0xFFFF])
            good = bytes([e[1]]) + (struct.pack('>HH', a, b) if std >= 2013 else rb(rng, rng.choice([0, 4])))
            expect = 'dsc %d %s' % (e[1], '%d,%d' % (a, b * 10) if std >= 2013 else '-')
            dump = lambda r: 'dsc %d %s' % (r.service_data.session_echo, '-' if r.service_data.p2_server_max is None else
                                           '%d,%d' % (round(r.service_data.p2_server_max * 1000), round(r.service_data.p2_star_server_max * 1000)))
            echo = [('session', 0, 1)]
        elif k == 'er':
            pd = rng.randrange(256)
            good = bytes([e[1]]) + (bytes([pd]) if e[1] == 4 else b'')
            expect = 'reset %d %s' % (e[1], on(pd if e[1] == 4 else None))
            dump = lambda r: 'reset %d %s' % (r.service_data.reset_type_echo, on(r.service_data.powerdown_time))
            echo = [('reset type', 0, 1)]
        elif k in ('rs', 'sk'):
            lvl = e[1]
            sf = (lvl if lvl % 2 == 1 else lvl - 1) if k == 'rs' else (lvl if lvl % 2 == 0 else lvl + 1)
            seed = rb(rng, rng.choice([1, 2, 4, 16])) if k == 'rs' else b''
            good = bytes([sf]) + seed
            expect = 'sa %d %s' % (sf, ob(seed) if k == 'rs' else '-')
            dump = (lambda r: 'sa %d %s' % (r.service_data.security_level_echo, ob(r.service_data.seed))) if k == 'rs' else \
                   (lambda r: 'sa %d -' % r.service_data.security_level_echo)
            echo = [('level', 0, 1)]
        elif k in ('tp', 'cc', 'cd', 'lc'):
            v = {'tp': 0}.get(k, e[1] if k != 'tp' else 0)
            good = bytes([v])
            expect = 'echo %d' % v
            attr = {'tp': 'subfunction_echo', 'cc': 'control_type_echo', 'cd': 'setting_type_echo', 'lc': 'control_type_echo'}[k]
            dump = lambda r, attr=attr: 'echo %d' % getattr(r.service_data, attr)
            echo = [('sub-function', 0, 1)]
        elif k == 'at':
            rec = rb(rng, rng.choice([0, 2, 5]))
            good = bytes([e[1]]) + rec
            expect = 'accessTiming %d %s' % (e[1], bh(rec))
            dump = lambda r: 'accessTiming %d %s' % (r.service_data.access_type_echo, bh(r.service_data.timing_param_record))
            echo = [('access type', 0, 1)]
        elif k == 'rc':
            st = rb(rng, rng.choice([0, 1, 4]))
            good = bytes([e[2]]) + e[1].to_bytes(2, 'big') + st
            expect = 'routine %d %d %s' % (e[2], e[1], bh(st))
            dump = lambda r: 'routine %d %d %s' % (r.service_data.control_type_echo, r.service_data.routine_id_echo, bh(r.service_data.routine_status_record))
            echo = [('control type', 0, 1), ('routine id', 1, 2)]
        elif k == 'td':
            rec = rb(rng, rng.choice([0, 3]))
            good = bytes([e[1]]) + rec
            expect = 'transferData %d %s' % (e[1], bh(rec))
            dump = lambda r: 'transferData %d %s' % (r.service_data.sequence_number_echo, bh(r.service_data.parameter_records))
            echo = [('block sequence counter', 0, 1)]
        elif k == 'te':
            rec = rb(rng, rng.choice([0, 3]))
            good = rec
            expect = 'transferExit %s' % bh(rec)
            dump = lambda r: 'transferExit %s' % bh(r.service_data.parameter_records)
            echo = []
        else:  # cl
            good = b''
            expect = 'empty'
            dump = lambda r: 'empty'
            echo = []
        dline = 'dec e=simple entry=%s std=%d' % (hist.entry_str(e), std)
        out.append(DCase(enclib.pick_wrapper(rng, e)[0] if False else k, (lambda c, e=e: hist.invoke_entry(c, e)), dline, good, expect, dump,
                         {'standard_version': std}, rid=sid + 0x40, echo_fields=echo))
    return out


def gen_rdbi(rng, n):
    out = []
    fixed = [d for d, k in DIDS.items() if k[1] is not None and k[0] != 'ascii']     # decode of these codecs is total (model contract)
    # whatever the seed: requests that name an identifier more than once (two overlapping groups concatenated) - transmitted as given, answered once per entry
    dup_corpus = [[0x1234, 0x5678, 0x1234], [0x1234, 0x1234], [0xFFFF, 0x0102, 0xFFFF, 0x5678], [0x0102, 0x1234, 0x0102, 0x1234]]
    for idx in range(n):
        default = rng.choice([None, None, ('B', 3)])
        k = rng.choice([1, 1, 2, 3, 4])
        lst = rng.sample(fixed, min(k, len(fixed)))
        if idx < len(dup_corpus):
            lst = list(dup_corpus[idx])
        elif rng.random() < 0.15:
            lst = lst + [rng.choice(lst)]
        elif rng.random() < 0.25:
            lst = lst + [rng.choice([0xEEEE, 0xEEEF])]
        if rng.random() < 0.2 and default is not None and idx >= len(dup_corpus):
            lst[0] = 0x4321
        tol = rng.random() < 0.6
        vals = {}
        good = b''
        echo = []
        seen_ = set()
        for d in lst:
            kind = DIDS.get(d, default)
            ln = kind[1] if kind[1] is not None else rng.randrange(0, 5)
            v = (bytes(rng.randrange(0x20, 0x7F) for _ in range(ln)) if rng.random() < 0.5 else vb(rng, ln)) if rng.random() < 0.8 else bytes(ln)
            v = vals.get(d, v)          # an identifier named twice is answered twice with the same data
            vals[d] = v
            echo.append(('data identifier' if d not in seen_ else 'data identifier named again', len(good), 2))
            seen_.add(d)
            good += d.to_bytes(2, 'big') + v
        expect = 'rdbi ' + (','.join('%d=%s' % (d, bh(vals[d])) for d in dict.fromkeys(lst)) if lst else '-')
        dline = 'dec e=rdbi %s tol=%s dids=%s' % (didcfg_line(default), b01(tol), ','.join(str(d) for d in lst))
        dump = lambda r: 'rdbi ' + (','.join('%d=%s' % (k_, bh(raw(v_))) for k_, v_ in r.service_data.values.items()) or '-')
        last_all = DIDS.get(lst[-1], default)[1] is None
        out.append(DCase('read_data_by_identifier', (lambda c, lst=lst: c.read_data_by_identifier(list(lst))), dline, good, expect, dump,
                         {'data_identifiers': did_config(default), 'tolerate_zero_padding': tol}, rid=0x62,
                         padclass=None if (last_all or 0 in lst) else ('tol' if tol else 'notol'),
                         echo_fields=echo))
    return out


def gen_wdbi(rng, n):
    out = []
    for _ in range(n):
        did = rng.choice(list(DIDS))
        kind = DIDS[did]
        ln = kind[1] if kind[1] is not None else 2
        v = bytes(rng.randrange(0x20, 0x7F) for _ in range(ln))
        pyv = enclib.py_value(kind[0], v)
        extra = rb(rng, rng.choice([0, 0, 2]))
        good = did.to_bytes(2, 'big') + extra
        out.append(DCase('write_data_by_identifier', (lambda c, did=did, pyv=pyv: c.write_data_by_identifier(did, pyv)), 'dec e=wdbi did=%d' % did, good,
                         'wdbi %d' % did, lambda r: 'wdbi %d' % r.service_data.did_echo, {'data_identifiers': did_config(None)}, rid=0x6E,
                         echo_fields=[('data identifier', 0, 2)]))
    return out


def gen_ddd(rng, n):
    out = []
    combos = [(h_, d_) for h_ in ('did', 'mem', 'clear', 'clearall') for d_ in (0xF300, 0xF3FF, 0x0001)]
    for idx in range(n):
        how, did = first_then_random(idx, combos, rng)
        if how == 'did':
            invoke = lambda c, did=did: c.dynamically_define_did(did, DynamicDidDefinition(source_did=0x1234, position=1, memorysize=2))
            sf, strict, q = 1, False, did
        elif how == 'mem':
            invoke = lambda c, did=did: c.dynamically_define_did(did, MemoryLocation(0x1234, 4, 16, 8))
            sf, strict, q = 2, False, did
        elif how == 'clear':
            invoke = lambda c, did=did: c.do_clear_dynamically_defined_did(did)
            sf, strict, q = 3, True, did
        else:
            invoke = lambda c: c.clear_all_dynamically_defined_did()
            sf, strict, q = 3, False, None
        with_echo = True if sf in (1, 2) or q is not None else rng.random() < 0.5
        good = bytes([sf]) + (did.to_bytes(2, 'big') if with_echo else b'')
        expect = 'ddd %d %s' % (sf, on(did if with_echo else None))
        out.append(DCase('dynamically_define_did' if sf != 3 else 'do_clear_dynamically_defined_did', invoke,
                         'dec e=ddd sf=%d did=%s strict=%s' % (sf, on(q), b01(strict)), good, expect,
                         lambda r: 'ddd %d %s' % (r.service_data.subfunction_echo, on(r.service_data.did_echo)), rid=0x6C,
                         echo_fields=[('sub-function', 0, 1)] + ([('data identifier', 1, 2)] if q is not None else [])))
    return out


def gen_readmem(rng, n):
    out = []
    for _ in range(n):
        size = rng.choice([0, 1, 2, 4, 16])
        tol = rng.random() < 0.6
        blk = rb(rng, size)
        if size == 0:
            continue
        if rng.random() < 0.4:
            blk = blk[:-1] + b'\x00'      # genuine data may end in zero bytes
        out.append(DCase('read_memory_by_address', (lambda c, size=size: c.read_memory_by_address(MemoryLocation(0x1234, size, 16, 8))),
                         'dec e=readmem size=%d tol=%s' % (size, b01(tol)), blk, 'readMem %s' % bh(blk),
                         lambda r: 'readMem %s' % bh(r.service_data.memory_block), {'tolerate_zero_padding': tol}, rid=0x63, padclass='tol' if tol else 'notol-any'))
    return out


def gen_xfer(rng, n):
    out = []
    for _ in range(n):
        up = rng.random() < 0.5
        w = rng.choice([1, 2, 4, 8, 8])
        v = rng.choice([0, 1, 2 ** (8 * w) - 1, 2 ** (8 * w - 1), rng.getrandbits(8 * w)])
        good = bytes([w << 4]) + v.to_bytes(w, 'big')
        name = 'request_upload' if up else 'request_download'
        out.append(DCase(name, (lambda c, name=name: getattr(c, name)(MemoryLocation(0x8000, 0x100, 16, 16))), 'dec e=xfer', good, 'xfer %d' % v,
                         lambda r: 'xfer %d' % r.service_data.max_length, rid=0x75 if up else 0x74))
    return out


LENIENT_IO = False


def gen_io(rng, n):
    out = []
    # 0x7878 has a codec of fixed length whose decode() takes whatever it is handed: only the suite that asks for it (padding: the library, not the codec, must notice
    # trailing bytes) draws it - for shortened data such a codec is outside the model's contract (a codec decodes exactly its length)
    dids = [d for d, e in IO.items() if d not in (0x6666, 0x8888, 0x7777) and (LENIENT_IO or d != 0x7878)]
    for _ in range(n):
        did = rng.choice(dids)
        e = IO[did]
        cp = rng.choice([None, 0, 1, 2, 3])
        tol = rng.random() < 0.6
        ln = e['codec'][1] if e['codec'][1] is not None else rng.randrange(0, 4)
        dec = vb(rng, ln)
        good = did.to_bytes(2, 'big') + (bytes([cp]) if cp is not None else b'') + dec
        expect = 'io %d %s %s' % (did, on(cp), ob(dec))
        vals = list(rb(rng, ln)) if e['codec'][0] == 'B' else [rb(rng, ln)]
        invoke = (lambda c, did=did, cp=cp, vals=vals: c.io_control(did, cp, vals)) if cp == 3 else (lambda c, did=did, cp=cp: c.io_control(did, cp))
        out.append(DCase('io_control', invoke, 'dec e=io %s did=%d cp=%s tol=%s' % (iocfg_line(None), did, on(cp), b01(tol)), good, expect,
                         lambda r: 'io %d %s %s' % (r.service_data.did_echo, on(r.service_data.control_param_echo), ob(raw(r.service_data.decoded_data))),
                         {'input_output': io_config(None), 'tolerate_zero_padding': tol}, rid=0x6F,
                         padclass=None if e['codec'][1] is None else ('tol' if tol else 'notol-any'),
                         echo_fields=[('data identifier', 0, 2)] + ([('control parameter', 2, 1)] if cp is not None else [])))
    return out


def gen_rft(rng, n):
    out = []
    combos = [(m_, d_) for m_ in (1, 2, 3, 4, 5, 6) for d_ in (None, (1, 2), (0, 0), (15, 15))]
    for idx in range(n):
        moop, dfi = first_then_random(idx, combos, rng)
        tol = rng.random() < 0.6
        dfi = dfi if moop in (1, 3, 4, 6) else None
        dfib = None if moop not in (1, 3, 4, 6) else ((dfi[0] << 4 | dfi[1]) if dfi else 0)
        lw = rng.choice([1, 2, 4, 8])
        ml = rng.choice([0, 1, 2 ** (8 * lw) - 1, rng.getrandbits(8 * lw)])
        good = bytes([moop])
        fs = di = fp = None
        mlv = dv = None
        if moop != 2:
            good += bytes([lw]) + ml.to_bytes(lw, 'big')
            mlv = ml
            dv = dfib if moop != 5 else 0
            good += bytes([dv])
        if moop in (4, 5):
            sw = rng.choice([1, 2, 4, 8])
            u = rng.choice([0, 2 ** (8 * sw) - 1, rng.getrandbits(8 * sw)])
            good += sw.to_bytes(2, 'big') + u.to_bytes(sw, 'big')
            if moop == 4:
                c = rng.choice([0, 2 ** (8 * sw) - 1, rng.getrandbits(8 * sw)])
                good += c.to_bytes(sw, 'big')
                fs = (u, c)
            else:
                di = u
        if moop == 6:
            fp = rng.choice([0, 2 ** 64 - 1, 2 ** 63, rng.getrandbits(64)])
            good += fp.to_bytes(8, 'big')
        expect = 'rft %d ml=%s dfi=%s fs=%s di=%s fp=%s' % (moop, on(mlv), on(dv), '-' if fs is None else '%d/%d' % fs, on(di), on(fp))

        use_wrapper = rng.random() < 0.5        # add_file, delete_file, ... : the wrapper each mode of operation has

        def invoke(c, moop=moop, dfi=dfi, use_wrapper=use_wrapper):
            d = DataFormatIdentifier(*dfi) if dfi is not None else None
            fsz = 0x1234 if moop in (1, 3, 6) else None
            if use_wrapper:
                w = {1: 'add_file', 2: 'delete_file', 3: 'replace_file', 4: 'read_file', 5: 'read_dir', 6: 'resume_file'}[moop]
                args = {1: ('p.bin', d, fsz), 2: ('p.bin',), 3: ('p.bin', d, fsz), 4: ('p.bin', d), 5: ('p.bin',), 6: ('p.bin', d, fsz)}[moop]
                return getattr(c, w)(*args)
            return c.request_file_transfer(moop, 'p.bin', d, fsz)

        def dump(r):
            sd = r.service_data
            f = sd.filesize
            return 'rft %d ml=%s dfi=%s fs=%s di=%s fp=%s' % (sd.moop_echo, on(sd.max_length), on(sd.dfi.get_byte_as_int() if sd.dfi is not None else None),
                                                            '-' if f is None else '%d/%s' % (f.uncompressed, on(f.compressed)), on(sd.dirinfo_length), on(sd.fileposition))
        echo = [('mode of operation', 0, 1)]
        if moop in (1, 3, 4, 6):
            echo.append(('data format', 2 + lw, 1))
        out.append(DCase('request_file_transfer', invoke, 'dec e=rft moop=%d dfi=%s tol=%s' % (moop, on(dfib), b01(tol)), good, expect, dump,
                         {'tolerate_zero_padding': tol}, rid=0x78, padclass='tol' if tol else 'notol-any', echo_fields=echo))
    return out


AUTH_RESP = {0: [], 4: [], 8: [], 1: ['challengeServer', 'ephemeralPublicKeyServer'],
             2: ['challengeServer', 'certificateServer', 'proofOfOwnershipServer', 'ephemeralPublicKeyServer'], 3: ['sessionKeyInfo'],
             5: ['algorithmIndicator', 'challengeServer', 'neededAdditionalParameter'], 6: ['algorithmIndicator', 'sessionKeyInfo'],
             7: ['algorithmIndicator', 'proofOfOwnershipServer', 'sessionKeyInfo']}
AUTH_ATTR = {'challengeServer': 'challenge_server', 'ephemeralPublicKeyServer': 'ephemeral_public_key_server', 'certificateServer': 'certificate_server',
             'proofOfOwnershipServer': 'proof_of_ownership_server', 'sessionKeyInfo': 'session_key_info', 'algorithmIndicator': 'algorithm_indicator',
             'neededAdditionalParameter': 'needed_additional_parameter'}
AUTH_ORDER = ['algorithmIndicator', 'challengeServer', 'certificateServer', 'proofOfOwnershipServer', 'ephemeralPublicKeyServer', 'sessionKeyInfo', 'neededAdditionalParameter']


def gen_auth(rng, n):
    out = []
    algo = bytes(range(16))
    for idx in range(n):
        task = first_then_random(idx, list(range(9)), rng)
        rv = rng.randrange(256)
        good = bytes([task, rv])
        fields = []
        for nm in AUTH_RESP[task]:
            if nm == 'algorithmIndicator':
                v = rb(rng, 16)
                good += v
            else:
                v = rb(rng, rng.choice([0, 1, 3, 20]))
                good += len(v).to_bytes(2, 'big') + v
            fields.append((nm, v))
        expect = 'auth %d %d %s' % (task, rv, ','.join('%s=%s' % (k, bh(v)) for k, v in fields) if fields else '-')
        kwargs = {}
        if task in (1, 2, 5):
            kwargs['communication_configuration'] = 1
        if task in (5, 6, 7):
            kwargs['algorithm_indicator'] = algo
        if task == 4:
            kwargs['certificate_evaluation_id'] = 7

        def dump(r, task=task):
            sd = r.service_data
            fs = [(nm, getattr(sd, AUTH_ATTR[nm])) for nm in AUTH_RESP.get(sd.authentication_task_echo, [])]
            return 'auth %d %d %s' % (sd.authentication_task_echo, sd.return_value, ','.join('%s=%s' % (k, bh(v)) for k, v in fs if v is not None) if fs else '-')
        AUTH_W = {0: 'deauthenticate', 1: 'verify_certificate_unidirectional', 2: 'verify_certificate_bidirectional', 3: 'proof_of_ownership', 4: 'transmit_certificate',
                  5: 'request_challenge_for_authentication', 6: 'verify_proof_of_ownership_unidirectional', 7: 'verify_proof_of_ownership_bidirectional', 8: 'authentication_configuration'}
        inv_ = (lambda c, task=task, kwargs=kwargs: c.authentication(task, **kwargs))
        if rng.random() < 0.5:      # the wrapper each authentication task has (its parameters are a subset of those of authentication(), same names)
            import inspect as _insp
            from udsoncan.client import Client as _Client
            sig_ = _insp.signature(getattr(_Client, AUTH_W[task]))
            names_ = list(sig_.parameters)[1:]
            required_ = [n_ for n_ in names_ if sig_.parameters[n_].default is _insp.Parameter.empty]
            if set(kwargs) <= set(names_) and set(required_) <= set(kwargs):
                inv_ = (lambda c, task=task, kwargs=kwargs, AUTH_W=AUTH_W: getattr(c, AUTH_W[task])(**kwargs))
        out.append(DCase('authentication', inv_, 'dec e=auth task=%d' % task, good, expect, dump,
                         rid=0x69, echo_fields=[('authentication task', 0, 1)]))
    return out


# ------------------------------- ReadDTCInformation --------------------------------------------------------------------

SNAP_DIDS = {0x1234: 2, 0x5678: 4, 0x0102: 1, 0xABCD: 8}


def gen_dtc(rng, n, nrec_max=6):
    out = []
    groups = [('rec4', [0x02, 0x0A, 0x0B, 0x0C, 0x0D, 0x0E, 0x0F, 0x13, 0x15, 0x17]), ('rec6', [0x08, 0x09]), ('g3', [0x14, 0x03]),
              ('count', [0x01, 0x07, 0x11, 0x12]), ('snapdtc', [0x04, 0x18]), ('snaprec', [0x05]), ('extdtc', [0x06, 0x10, 0x19]), ('extrec', [0x16]),
              ('wwh', [0x42, 0x55])]
    combos = [(g_, sf_, t_, i_) for g_, sfs_ in groups for sf_ in sfs_ for t_ in (True, False) for i_ in (True, False)]
    for idx in range(n):
        g, sf, tol, ign = first_then_random(idx, combos, rng)
        if idx >= len(combos):
            tol, ign = rng.random() < 0.6, rng.random() < 0.6
        k = rng.choice([1, 2, 2, 2, 3, 8]) if g in ('snapdtc', 'snaprec') else 2
        nrec = rng.choice([0, 1, 1, 2, 3, rng.randrange(0, nrec_max + 1)])
        fixed = idx < len(combos)
        if fixed and sf == 0x03:
            nrec = 3        # whatever the seed: a DTC that comes back after a record of another one (A, B, A)
        ms = rng.randrange(256)
        p = {}
        recs = []
        hdr = b''
        memsel = None
        av = sevav = fmt = fg = None
        dtcid = rng.choice([0x123456, 0x000001, 0xFFFFFF, rng.getrandbits(24) or 1])
        ext = 2
        extline = 'i2'
        padunit = None
        recoffs = []        # positions (in the reply data) of record numbers that echo the requested one
        dtcoff = None       # (position of the 3-byte DTC number, compared by the client?)
        snapdids = SNAP_DIDS if k > 1 else {d_ & 0xFF: l_ for d_, l_ in SNAP_DIDS.items()}
        if k >= 3:      # identifiers using the whole width, top bit included
            snapdids = {(d_ | (1 << (8 * k - 1))) if i % 2 else d_: l_ for i, (d_, l_) in enumerate(SNAP_DIDS.items())}

        def nz(nb):
            while True:
                x = rb(rng, nb)
                if any(x):
                    return x
        if g in ('rec4', 'rec6'):
            av = rng.randrange(256)
            if sf == 0x17:
                memsel = ms
                hdr = bytes([ms])
                p['ms'] = ms
            hdr += bytes([av])
            p['sm'] = rng.randrange(256)
            if sf == 0x08:
                p['sev'] = 0xE0
            if sf == 0x09:
                p['dtc'] = dtcid
                nrec = min(nrec, 1)
            body = b''
            for i in range(nrec):
                idb, st = nz(3), rng.randrange(256)
                if rng.random() < 0.25:
                    idb = b'\x00' + nz(2)                      # identifiers below 0x010000 (P00xx codes): a record is "all zero" only if every byte is
                if g == 'rec4' and rng.random() < 0.1:
                    idb, st = bytes(3), rng.randrange(1, 256)  # DTC 0 with a status is a record, not padding
                if g == 'rec4':
                    body += idb + bytes([st])
                    recs.append('%d:%d:0:-:-:-:-' % (int.from_bytes(idb, 'big'), st))
                else:
                    sev, fu = rng.choice([0, 0, 0x20, 0xE0, rng.randrange(256)]), rng.choice([0, 0, rng.randrange(256)])
                    body += bytes([sev, fu]) + idb + bytes([st])
                    recs.append('%d:%d:%d:%d:-:-:-' % (int.from_bytes(idb, 'big'), st, sev & 0xE0, fu))
            good = hdr + body
            cnt = nrec
            padunit = 4 if g == 'rec4' else 6
        elif g == 'g3':
            body = b''
            seen = {}
            order = []
            for i in range(nrec):
                idb, x = nz(3), rng.randrange(256)
                if sf == 0x03 and order and (rng.random() < 0.3 or (fixed and i == 2)):
                    idb = order[0].to_bytes(3, 'big')
                body += idb + bytes([x])
                did_ = int.from_bytes(idb, 'big')
                if sf == 0x14:
                    recs.append('%d:0:0:-:%d:-:-' % (did_, x))
                else:
                    if did_ not in seen:
                        seen[did_] = []
                        order.append(did_)
                    seen[did_].append(x)
            if sf == 0x03:
                recs = ['%d:0:0:-:-:%s:-' % (d_, '+'.join('%d/-/-' % x for x in seen[d_])) for d_ in order]
            good = body
            cnt = len(recs)
            padunit = 4
        elif g == 'count':
            av, fmt, cnt = rng.randrange(256), rng.choice([0, 1, 2, 3, 4, 9]), rng.choice([0, 1, 0xFFFF, rng.randrange(65536)])
            good = bytes([av, fmt]) + cnt.to_bytes(2, 'big')
            p['sm'] = rng.randrange(256)
            if sf == 0x07:
                p['sev'] = 0x20
        elif g == 'snapdtc':
            st = rng.randrange(256)
            recno = rng.choice([1, 2, 0x10, 0xEF, 0xF0, 0xFE, 0xFF])
            p['dtc'], p['snap'] = dtcid, recno
            if sf == 0x18:
                memsel = ms
                hdr = bytes([ms])
                p['ms'] = ms
            body = b''
            snaps = []
            for i in range(nrec):
                rn = recno if recno != 0xFF else rng.randrange(1, 0xF0)
                nd = rng.randrange(1, 4)
                if recno != 0xFF:
                    recoffs.append(1 + len(hdr) + 4 + len(body))
                body += bytes([rn, nd])
                for j in range(nd):
                    d_ = rng.choice(list(snapdids))
                    val = nz(snapdids[d_])
                    body += d_.to_bytes(k, 'big') + val
                    snaps.append('%d/%d/%s' % (rn, d_, val.hex()))
            good = hdr + dtcid.to_bytes(3, 'big') + bytes([st]) + body
            dtcoff = (1 + len(hdr), True)
            recs = ['%d:%d:0:-:-:%s:-' % (dtcid, st, '+'.join(snaps) if snaps else '-')]
            cnt = 1
        elif g == 'snaprec':
            recno = rng.choice([1, 2, 0xEF, 0xF0, 0xFE, 0xFF])
            p['snap'] = recno
            body = b''
            for i in range(nrec):
                rn = recno if recno != 0xFF else rng.randrange(1, 0xF0)
                idb, st = nz(3), rng.randrange(256)
                nd = rng.randrange(1, 3)
                if recno != 0xFF:
                    recoffs.append(1 + len(body))
                body += bytes([rn]) + idb + bytes([st, nd])
                snaps = []
                for j in range(nd):
                    d_ = rng.choice(list(snapdids))
                    val = nz(snapdids[d_])
                    body += d_.to_bytes(k, 'big') + val
                    snaps.append('%d/%d/%s' % (rn, d_, val.hex()))
                recs.append('%d:%d:0:-:-:%s:-' % (int.from_bytes(idb, 'big'), st, '+'.join(snaps)))
            if nrec == 0:
                body = bytes([recno if recno != 0xFF else 1])       # record number without DTC (allowed by the standard)
                if recno != 0xFF:
                    recoffs.append(1)
            good = body
            cnt = nrec
        elif g == 'extdtc':
            st = rng.randrange(256)
            recno = rng.choice([1, 2, 0x10, 0xEF, 0xF0, 0xF0, 0xFE, 0xFF])      # 0xF0..0xFF ask for groups of records: any record number may come back
            ext = rng.choice([0, 1, 2, 5])
            mode = rng.choice(['cfg', 'arg', 'dict'])
            p['dtc'], p['xrec'] = dtcid, recno
            if sf == 0x19:
                memsel = ms
                hdr = bytes([ms])
                p['ms'] = ms
            body = b''
            exts = []
            for i in range(nrec):
                rn = recno if recno < 0xF0 else rng.randrange(1, 0xF0)
                val = rb(rng, ext)
                if recno < 0xF0:
                    recoffs.append(1 + len(hdr) + 4 + len(body))
                body += bytes([rn]) + val
                exts.append('%d/%s' % (rn, bh(val)))
            good = hdr + dtcid.to_bytes(3, 'big') + bytes([st]) + body
            dtcoff = (1 + len(hdr), False)
            recs = ['%d:%d:0:-:-:-:%s' % (dtcid, st, '+'.join(exts) if exts else '-')]
            cnt = 1
            p['extmode'] = mode
            extline = 'i%d' % ext if mode != 'dict' else 'd%d:%d|%d:%d' % (dtcid, ext, 0x777777, 3)
        elif g == 'extrec':
            recno = rng.choice([1, 2, 0x10, 0xEF])
            ext = rng.choice([0, 1, 2, 5])
            # a third of the cases give the sizes per DTC (a dictionary): every record has its own size, and the size of an all-zero record is the
            # entry of DTC 0 (if there is one) - not that of a neighbouring key
            per_dtc = rng.random() < 0.34
            sizes = {}
            p['xrec'] = recno
            body = b''
            ids = set()
            for i in range(nrec):
                idb = nz(3)
                did_ = int.from_bytes(idb, 'big')
                if did_ in ids or did_ < 2:
                    continue
                ids.add(did_)
                e_ = rng.choice([0, 1, 2, 5]) if per_dtc else ext
                sizes[did_] = e_
                st, val = rng.randrange(256), rb(rng, e_)
                body += idb + bytes([st]) + val
                recs.append('%d:%d:0:-:-:-:%d/%s' % (did_, st, recno, bh(val)))
            good = bytes([recno]) + body
            cnt = len(recs)
            if per_dtc:
                zero_ext = rng.choice([None, 0, 1, 2, 5, ext])
                if zero_ext is not None:
                    sizes[0] = zero_ext
                sizes[1] = rng.choice([x for x in (0, 1, 2, 5, 7) if x != zero_ext])
                p['extmode'] = 'dictarg'
                p['extdict'] = dict(sizes)
                extline = 'd' + '|'.join('%d:%d' % kv for kv in sorted(sizes.items()))
                padunit = None if zero_ext is None else 4 + zero_ext
            else:
                zero_ext = ext
                p['extmode'] = 'arg'
                extline = 'i%d' % ext
                padunit = 4 + ext
        else:   # wwh
            fg = rng.choice([0, 0x33, 0xFE])
            av = rng.randrange(256)
            fmt = rng.choice([2, 4])
            p['fg'] = fg
            hdr = bytes([fg, av])
            if sf == 0x42:
                sevav = rng.randrange(256)
                hdr += bytes([sevav])
                p['sm'], p['sev'], p['cls'] = rng.randrange(256), 0xE0, 1
            hdr += bytes([fmt])
            body = b''
            for i in range(nrec):
                sev, idb, st = rng.randrange(256), nz(3), rng.randrange(256)
                body += bytes([sev]) + idb + bytes([st])
                recs.append('%d:%d:%d:-:-:-:-' % (int.from_bytes(idb, 'big'), st, sev & 0xE0))
            good = hdr + body
            cnt = nrec
            padunit = 5
            sevav_dump = None if sevav is None else sevav & 0xE0
        good = bytes([sf]) + good
        expect = 'dtc sf=%d ms=%s av=%s sevav=%s fmt=%s fg=%s n=%d recs=%s' % (sf, on(memsel), on(av), on(None if sevav is None else sevav & 0xE0), on(fmt), on(fg), cnt,
                                                                            ','.join(recs) if recs else '-')
        cfgd = {'standard_version': 2020, 'tolerate_zero_padding': tol, 'ignore_all_zero_dtc': ign, 'dtc_snapshot_did_size': k,
                'data_identifiers': {d_: 'B' * l_ for d_, l_ in snapdids.items()}}
        kwargs = {}
        for key, name in (('sm', 'status_mask'), ('sev', 'severity_mask'), ('cls', 'dtc_class'), ('dtc', 'dtc'), ('snap', 'snapshot_record_number'),
                          ('xrec', 'extended_data_record_number'), ('ms', 'memory_selection'), ('fg', 'functional_group_id')):
            if key in p:
                kwargs[name] = p[key]
        if 'dtc' in kwargs and rng.random() < 0.4:
            kwargs['dtc'] = Dtc(kwargs['dtc'])          # the helper object the API accepts in place of the number (also on the reply side: echo comparisons, messages)
        mode = p.get('extmode')
        if mode == 'arg':
            kwargs['extended_data_size'] = ext
        elif mode == 'cfg':
            cfgd['extended_data_size'] = ext
        elif mode == 'dict':
            cfgd['extended_data_size'] = {dtcid: ext, 0x777777: 3}
        elif mode == 'dictarg':
            r_ = rng.random()
            if r_ < 0.4:
                kwargs['extended_data_size'] = p['extdict']
            elif r_ < 0.7:
                cfgd['extended_data_size'] = p['extdict']
            else:
                # given both ways with other sizes in the configuration: the argument of the call is the one that counts
                kwargs['extended_data_size'] = p['extdict']
                cfgd['extended_data_size'] = {k_: v_ + 1 + (k_ % 3) for k_, v_ in p['extdict'].items()}
        dline = 'dec e=dtc std=2020 tol=%s ign=%s k=%d cfg=%s def=x ext=%s sf=%d dtc=%s snap=%s xrec=%s ms=%s fg=%s' % (
            b01(tol), b01(ign), k, ','.join('%d:%d' % (d_, l_) for d_, l_ in snapdids.items()), extline if g in ('extdtc', 'extrec') else '-', sf,
            on(p.get('dtc')), on(p.get('snap')), on(p.get('xrec')), on(p.get('ms')), on(p.get('fg')))
        echo = [('sub-function', 0, 1)]
        if sf in (0x17, 0x18, 0x19):
            echo.append(('memory selection', 1, 1))
        if sf in (0x42, 0x55):
            echo.append(('functional group', 1, 1))
        if sf == 0x16:
            echo.append(('record number', 1, 1))
        for o_ in recoffs:
            echo.append(('record number', o_, 1))
        if dtcoff is not None:
            # the DTC number is not among the echoes the property lists; the client compares it for snapshots only
            echo.append(('dtc number (snapshot)' if dtcoff[1] else 'dtc number (extended data: not compared)', dtcoff[0], 3))
        # half of the calls go through the getter the library offers for this sub-function (its own parameter names: record_number, data_size), as keyword
        # or positional arguments: a getter is a code path of its own between the caller's arguments and read_dtc_information
        getter = [n_ for n_, (sf_, _) in enclib.DTC_WRAPPERS.items() if sf_ == sf]
        via = None
        if getter and rng.random() < 0.5:
            import inspect as _insp
            from udsoncan.client import Client as _Client
            names_ = list(_insp.signature(getattr(_Client, getter[0])).parameters)[1:]
            src_ = dict(kwargs)
            gk = {}
            ok_ = True
            for pn in names_:
                if pn in src_:
                    gk[pn] = src_.pop(pn)
                elif pn == 'record_number' and ('snapshot_record_number' in src_ or 'extended_data_record_number' in src_):
                    gk[pn] = src_.pop('snapshot_record_number') if 'snapshot_record_number' in src_ else src_.pop('extended_data_record_number')
                elif pn == 'data_size':
                    if 'extended_data_size' in src_:
                        gk[pn] = src_.pop('extended_data_size')
                else:
                    ok_ = False
            if ok_ and not src_:
                positional = rng.random() < 0.5 and list(gk) == names_[:len(gk)]
                via = (getter[0], gk, positional)
        if via is not None:
            invoke_ = (lambda c, via=via: getattr(c, via[0])(*via[1].values())) if via[2] else (lambda c, via=via: getattr(c, via[0])(**via[1]))
        else:
            invoke_ = (lambda c, sf=sf, kwargs=kwargs: c.read_dtc_information(sf, **kwargs))
        case = DCase(via[0] if via else 'read_dtc_information', invoke_, dline, good, expect,
                     lambda r: dump_dtc(r.service_data), cfgd, rid=0x59, echo_fields=echo)
        case.group, case.sf, case.padunit, case.tol, case.ign = g, sf, padunit, tol, ign
        case.padclass = None if g == 'count' else ('tol' if tol else 'notol')
        case.nrec = nrec
        case.zero_ext = zero_ext if g == 'extrec' else None
        out.append(case)
    return out


def gen_wmba(rng, n):
    """write_memory_by_address: the reply echoes addressAndLengthFormatIdentifier, address and size (model: Driver/Mem `ml.echo`)"""
    out = []
    W = (8, 16, 24, 32, 40, 48, 56, 64)
    for _ in range(n):
        wa, ws = rng.choice(W), rng.choice(W)
        a = rng.choice([0, 2 ** wa - 1, rng.getrandbits(wa), 2 ** (wa - 8) if wa > 8 else 1])
        z = rng.choice([0, 2 ** ws - 1, rng.getrandbits(ws), 1])
        mode = rng.choice(['explicit', 'config'])
        if mode == 'explicit':
            af, mf, caf, cmf = wa, ws, rng.choice((None,) + W), rng.choice((None,) + W)
        else:
            af, mf, caf, cmf = None, None, wa, ws
        na, ns = wa // 8, ws // 8
        good = bytes([(ns << 4) | na]) + a.to_bytes(na, 'big') + z.to_bytes(ns, 'big')
        tail = rb(rng, rng.choice([0, 0, 2]))
        # the data record: empty (legal: only a warning when its length differs from the size), one byte, a few bytes, zeros
        wdata = rng.choice([b'', b'', b'\xAA', rb(rng, 3), bytes(2)])

        def dump(r):
            e = r.service_data
            return 'alfid=%d a=%d s=%d' % (e.alfid_echo, e.memory_location_echo.address, e.memory_location_echo.memorysize)
        c = DCase('write_memory_by_address', (lambda c_, a=a, z=z, af=af, mf=mf, wdata=wdata: c_.write_memory_by_address(MemoryLocation(a, z, af, mf), wdata)),
                  'ml.echo a=%d s=%d af=%s mf=%s caf=%s cmf=%s' % (a, z, on(af), on(mf), on(caf), on(cmf)), good + tail,
                  'alfid=%d a=%d s=%d' % ((ns << 4) | na, a, z), dump, {'server_address_format': caf, 'server_memorysize_format': cmf}, rid=0x7D,
                  echo_fields=[('address and length format', 0, 1), ('address', 1, na), ('size', 1 + na, ns)])
        out.append(c)
    return out


GENERATORS = [('simple', gen_simple), ('rdbi', gen_rdbi), ('wdbi', gen_wdbi), ('ddd', gen_ddd), ('readmem', gen_readmem), ('xfer', gen_xfer), ('io', gen_io),
              ('rft', gen_rft), ('auth', gen_auth), ('dtc', gen_dtc)]
ECHO_GENERATORS = GENERATORS + [('wmba', gen_wmba)]


def mutations(rng, good, n=6):
    """malformed stream for one good reply: prefixes, single-byte mutations over the boundary alphabet, extensions, zero padding"""
    alpha = [0x00, 0x01, 0x02, 0x03, 0x04, 0x05, 0x06, 0x07, 0x08, 0x09, 0x0A, 0x0F, 0x10, 0x40, 0x7F, 0x80, 0x90, 0xA0, 0xF0, 0xFF]
    wide = [0x09, 0x0A, 0x0F, 0x90, 0xA0, 0xF0]     # a length field one past (and well past) the widest supported width, as a byte and as a high nibble
    out = []
    # a field announced wider than the client supports, with enough bytes behind it that no length guard ends the parse first
    for i in range(min(len(good), 6)):
        b = bytearray(good)
        b[i] = rng.choice(wide)
        out.append(bytes(b) + bytes(rng.randrange(256) for _ in range(20)))
    if len(good) <= 40:
        out += [good[:i] for i in range(len(good))]      # every truncation point
    else:
        out += [good[:-1], good[:-2]]
    for _ in range(n):
        r = rng.random()
        if r < 0.35 and len(good) > 0:
            out.append(good[:rng.randrange(0, len(good))])
        elif r < 0.7 and len(good) > 0:
            i = rng.randrange(len(good))
            b = bytearray(good)
            b[i] = rng.choice(alpha)
            out.append(bytes(b))
        elif r < 0.85:
            out.append(good + bytes(rng.choice(alpha) for _ in range(rng.randrange(1, 5))))
        else:
            out.append(good + bytes(rng.randrange(1, 14)))
    return out
