"""child process of the C17 / C20 `isolated` suites (a process of its own: it must see the library as an application that imports only part of it does, and it
defines subclasses that would stay in the class registry of the check otherwise).  argv[1] selects the scenario; prints a JSON list of problems."""
import json
import logging
import os
import sys

sys.path.insert(0, os.environ.get('UDS_REPO', '/repo'))
logging.disable(logging.CRITICAL)
what = sys.argv[1]
problems = []


def bad(inp, observed, required):
    problems.append({'input': inp, 'observed': str(observed)[:200], 'required': str(required)[:200]})


if what == 'parse_only':
    # a log decoder / sniffer: nothing but the message classes is imported (no client, no services module by name)
    from udsoncan import Request, Response
    for payload, svc, positive in ((b'\x50\x03\x00\x32\x01\xf4', 'DiagnosticSessionControl', True), (b'\x7e\x00', 'TesterPresent', True), (b'\x62\xf1\x90\x41', 'ReadDataByIdentifier', True),
                                   (b'\x7f\x10\x22', 'DiagnosticSessionControl', False), (b'\x7f\x2e\x78', 'WriteDataByIdentifier', False), (b'\x59\x02\xff', 'ReadDTCInformation', True)):
        r = Response.from_payload(payload)
        got = (r.valid, getattr(r.service, '__name__', None), r.positive)
        if got != (True, svc, positive):
            bad('Response.from_payload(%s) in a process that imported only udsoncan.Request / Response' % payload.hex(), got, (True, svc, positive))
        elif r.get_payload() != payload:
            bad('re-encoding %s' % payload.hex(), r.get_payload().hex(), payload.hex())
    for payload, svc in ((b'\x10\x03', 'DiagnosticSessionControl'), (b'\x22\xf1\x90', 'ReadDataByIdentifier'), (b'\x3e\x80', 'TesterPresent')):
        q = Request.from_payload(payload)
        if getattr(q.service, '__name__', None) != svc:
            bad('Request.from_payload(%s) in a process that imported only udsoncan.Request / Response' % payload.hex(), getattr(q.service, '__name__', None), svc)
elif what == 'names':
    import enum
    import udsoncan.services as services
    from udsoncan.common.dids import DataIdentifier
    from udsoncan.common.Routine import Routine
    from udsoncan.ResponseCode import ResponseCode
    from udsoncan.common.dtc import Dtc

    # a user table that extends one of the library's sub-function tables: inherited constants and ranges keep their names, the new constant has its own
    class OemSession(services.DiagnosticSessionControl.Session):
        endOfLineSession = 0x40

    class OemSetting(services.ControlDTCSetting.SettingType):
        oemFrozen = 0x05
    for cls, base in ((OemSession, services.DiagnosticSessionControl.Session), (OemSetting, services.ControlDTCSetting.SettingType)):
        own = {0x40: 'endOfLineSession'} if cls is OemSession else {0x05: 'oemFrozen'}
        for v in range(256):
            want = own.get(v, base.get_name(v))
            got = cls.get_name(v)
            if got != want:
                bad('%s(%s).get_name(0x%02x)' % (cls.__name__, base.__qualname__, v), got, want)
                break

    # identifiers that are integers without being exactly `int` (an application's IntEnum of its identifiers)
    class Ids(enum.IntEnum):
        VIN = 0xF190
        ERASE = 0xFF00
        NRC = 0x22
        SESSION = 0x03
        FMT = 0x01
    for label, fn, v in (('DataIdentifier.name_from_id', DataIdentifier.name_from_id, Ids.VIN), ('Routine.name_from_id', Routine.name_from_id, Ids.ERASE),
                         ('ResponseCode.get_name', ResponseCode.get_name, Ids.NRC), ('DiagnosticSessionControl.Session.get_name', services.DiagnosticSessionControl.Session.get_name, Ids.SESSION),
                         ('Dtc.Format.get_name', Dtc.Format.get_name, Ids.FMT)):
        want = fn(int(v))
        try:
            got = fn(v)
        except Exception as e:  # noqa
            got = 'raised %s' % type(e).__name__
        if got != want:
            bad('%s(IntEnum member with value 0x%x)' % (label, int(v)), got, want)
    # the documented parameter names, given by keyword
    for label, call, want in (('DataIdentifier.name_from_id(did=0xF190)', lambda: DataIdentifier.name_from_id(did=0xF190), DataIdentifier.name_from_id(0xF190)),
                              ('Routine.name_from_id(routine_id=0xFF00)', lambda: Routine.name_from_id(routine_id=0xFF00), Routine.name_from_id(0xFF00)),
                              ('ResponseCode.get_name(given_id=0x22)', lambda: ResponseCode.get_name(given_id=0x22), ResponseCode.get_name(0x22)),
                              ('ECUReset.ResetType.get_name(subfn_id=1)', lambda: services.ECUReset.ResetType.get_name(subfn_id=1), services.ECUReset.ResetType.get_name(1)),
                              ('Dtc.Format.get_name(given_id=1)', lambda: Dtc.Format.get_name(given_id=1), Dtc.Format.get_name(1))):
        try:
            got = call()
        except Exception as e:  # noqa
            got = 'raised %s' % type(e).__name__
        if got != want:
            bad(label, got, want)
print(json.dumps(problems[:20]))
