"""Whole histories on one real client against the model's `hrun` (udsdrv `hist`), read for two properties:

C08 (`Props/C08Hist.history_switch_independent`): every history is run twice - as generated, and with another initial setting of the three exception_on_*
switches and every later change of them replaced by another setting.  Verdict of every call, every frame sent and every wait, the calls of the security
algorithm and the state at the end (block flags, adopted timing) must be the same; a response outcome is raised exactly when its switch is on.

C04 (`Props/C04Hist.history_documented`): every step ends in a value, a documented exception, or a refusal of the arguments before anything was sent."""
from . import core
from .core import Suite


def remap(rng, sw):
    alt = tuple(rng.random() < 0.5 for _ in range(3))
    return alt if alt != sw else tuple(not x for x in sw)


def suite_hist(ctx, focus):
    from . import hist, clientlib as cl
    s = Suite('hist')
    rng = ctx.rng
    lines, impl = [], []
    corpus = hist.corpus_histories()
    total = ctx.n(300, 6000)
    for i in range(len(corpus) + total):
        hcfg = hist.HCfg(rt=rng.choice([None, 5120, 300]), sw=tuple(rng.random() < 0.6 for _ in range(3)), std=rng.choice([2006, 2013, 2020]), cb=rng.random() < 0.3)
        if i < len(corpus):
            ops, meta = corpus[i]
        else:
            ops, meta = hist.gen_history(rng, 'residue' if focus == 'C06' else rng.choice(['residue', 'spr', 'spr', 'timing']) if focus == 'C01' else rng.choice(['residue', 'unlock', 'spr', 'timing']), rng.randrange(3, ctx.n(10, 40)), hcfg)
        out, tr, client, conn = hist.run_history(hcfg, ops)
        line = hcfg.line(ops)
        lines.append(line)
        impl.append(out)
        s.distinct.add(line)
        if focus == 'C01':
            # outside every block the frame a call transmits is the ISO encoding of its arguments, whatever the history left behind (C01Hist.frame_after_history);
            # read off the implementation for the entry kinds whose encoding hist.entry_frame gives exactly
            stack, std = [], hcfg.std
            for st in tr.steps:
                op = st['op']
                if op[0] in ('espr', 'eovr'):
                    stack.append(op[0])
                elif op[0] in ('xspr', 'xovr') and stack:
                    stack.pop()
                elif op[0] == 'std':
                    std = op[1]
                elif op[0] == 'call' and not stack and op[1][0] in ('cs', 'er', 'rs', 'sk', 'tp', 'at', 'cd', 'td', 'te', 'cl'):
                    sends = [o[1] for o in st['log'] if o[0] == 'send']
                    want = hist.entry_frame(op[1], std)
                    s.evaluations += 1
                    s.count('frame outside blocks: ' + op[1][0])
                    if sends and want is not None and sends != [want]:
                        s.fail({'site': 'history step', 'input': line, 'op': hist.op_str(op), 'observed': [x.hex() for x in sends],
                                'required': 'one frame, %s (no block is open at this point of the history)' % want.hex()})
            continue
        if focus == 'C06':
            # every negative response code ends the request with that code, whatever the history left behind (stray frames in the receive queue, failed calls,
            # blocks entered and left); read off the implementation for the calls whose scripted reply is a negative response arriving in time
            for st, m in zip(tr.steps, meta):
                if st['op'][0] != 'call' or m.get('kind') not in ('neg', 'pend_neg') or st['before']['timing'] != (None, None):
                    continue
                if not any(o[0] == 'wait' for o in st['log']):
                    continue            # refused, or inside a suppress block that does not wait
                code = st['op'][2][-1][1][2]
                s.evaluations += 1
                s.count('negative reply after: ' + ('stray frames' if any(x['op'][0] == 'stray' for x in tr.steps[:tr.steps.index(st)]) else 'no stray frame'))
                if st['verdict'] != 'negative:%d' % code:
                    s.fail({'site': 'history step', 'input': line, 'op': hist.op_str(st['op']), 'observed': '%s %s' % (st['how'], st['verdict']),
                            'required': 'negative:%d (the reply to this request is 7F .. %02X)' % (code, code)})
            continue
        if focus == 'C04':
            for st in tr.steps:
                if st['op'][0] not in ('call', 'unlock'):
                    continue
                s.evaluations += 1
                cls_ = st['verdict'].replace('other:', '').split(':')[0]
                s.count('step:' + (cls_ if st['how'] == 'exc' else 'returned'))
                if st['how'] == 'exc' and cls_ not in cl.DOCUMENTED and any(o[0] in ('send', 'flush') for o in st['log']):
                    s.fail({'site': 'history step', 'input': line, 'op': hist.op_str(st['op']), 'observed': st['verdict'],
                            'required': 'a value, a documented exception, or a refusal before anything is sent'})
            continue
        # C08: the same history under other switches
        h2 = hist.HCfg(rt=hcfg.rt, p2=hcfg.p2, p2s=hcfg.p2s, cb=hcfg.cb, std=hcfg.std, ust=hcfg.ust, sw=remap(rng, hcfg.sw))
        ops2 = [('sw', remap(rng, o[1])) if o[0] == 'sw' else o for o in ops]
        out2, tr2, client2, conn2 = hist.run_history(h2, ops2)
        sw, sw2 = hcfg.sw, h2.sw
        for a, b in zip(tr.steps, tr2.steps):
            op = a['op']
            if op[0] == 'sw':
                sw, sw2 = op[1], b['op'][1]
            if op[0] not in ('call', 'unlock'):
                continue
            s.evaluations += 1
            rec = {'site': 'history step', 'input': line, 'op': hist.op_str(op), 'switches': [list(sw), list(sw2)]}
            cls_ = a['verdict'].split(':')[0]
            s.count('step:' + cls_)
            if a['verdict'] != b['verdict']:
                s.fail(dict(rec, observed='%s under %s, %s under %s' % (a['verdict'], sw, b['verdict'], sw2), required='the same verdict'))
            elif cl.fmt_log(a['log']) != cl.fmt_log(b['log']) or a['algo'] != b['algo']:
                s.fail(dict(rec, observed=cl.fmt_log(b['log']), required='the same frames, waits and algorithm calls: ' + cl.fmt_log(a['log'])))
            elif cls_ in ('negative', 'invalid', 'unexpected'):
                k = ('negative', 'invalid', 'unexpected').index(cls_)
                for st, w in ((a, sw), (b, sw2)):
                    if st['how'] != ('exc' if w[k] else 'ret'):
                        s.fail(dict(rec, observed='%s with the switch %s' % (st['how'], 'on' if w[k] else 'off'), required='raised iff the switch is on'))
                if a['flags'] != b['flags']:
                    s.fail(dict(rec, observed=b['flags'], required=a['flags']))
            elif a['how'] != b['how']:
                s.fail(dict(rec, observed=b['how'], required=a['how']))
        if out.split(' || ')[1] != out2.split(' || ')[1]:
            s.fail({'site': 'history end', 'input': line, 'observed': out2.split(' || ')[1], 'required': out.split(' || ')[1]})
    core.compare(s, lines, core.drv_batch(lines), impl, lambda i, o: False)
    s.sample({'line': lines[0][:400], 'impl': impl[0][:300]})
    return s
