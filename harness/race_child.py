"""child process of the `races` suites: several threads use the library at the same moment, each on objects of its own, from the very first use in the process
(lazily built tables, scratch buffers and flags kept on a class or module are shared by them without anyone saying so).  sys.setswitchinterval is set very low and
the threads start on a barrier.  argv[1] selects the scenario; prints a JSON list of problems (what a thread got vs what the same call gives single-threaded)."""
import json
import logging
import os
import sys
import threading

sys.path.insert(0, os.environ.get('UDS_REPO', '/repo'))
logging.disable(logging.CRITICAL)
what = sys.argv[1]
NT = 4
ROUNDS = int(sys.argv[2]) if len(sys.argv) > 2 else 300
sys.setswitchinterval(1e-6)
problems = []
lock = threading.Lock()


def run_threads(work):
    """work(tid) -> list of (label, value); returns per-thread lists"""
    out = [None] * NT
    bar = threading.Barrier(NT)

    def body(tid):
        bar.wait()
        try:
            out[tid] = work(tid)
        except Exception as e:  # noqa
            out[tid] = [('thread %d' % tid, 'raised %s: %s' % (type(e).__name__, e))]
    ts = [threading.Thread(target=body, args=(i,)) for i in range(NT)]
    for t in ts:
        t.start()
    for t in ts:
        t.join(60)
    return out


if what == 'lookups':
    from udsoncan import Request, Response
    import udsoncan.services as services
    from udsoncan.ResponseCode import ResponseCode
    from udsoncan.common.dids import DataIdentifier
    payloads = [b'\x50\x03\x00\x32\x01\xf4', b'\x7e\x00', b'\x7f\x10\x22', b'\x62\xf1\x90\x41', b'\x7f\x31\x78', b'\x71\x01\x12\x34', b'\x54', b'\x76\x01']

    def work(tid):
        res = []
        for k in range(ROUNDS if tid else 1):
            for p in payloads[tid % 2:] + payloads[:tid % 2]:
                r = Response.from_payload(p)
                res.append(('Response.from_payload(%s)' % p.hex(), (r.valid, getattr(r.service, '__name__', None), r.positive, r.code)))
            res.append(('Request.from_payload(1003)', getattr(Request.from_payload(b'\x10\x03').service, '__name__', None)))
            res.append(('ResponseCode.get_name(0x10)', ResponseCode.get_name(0x10)))
            res.append(('ResponseCode.get_name(0x78)', ResponseCode.get_name(0x78)))
            res.append(('ECUReset.ResetType.get_name(1)', services.ECUReset.ResetType.get_name(1)))
            res.append(('ControlDTCSetting.SettingType.get_name(0x45)', services.ControlDTCSetting.SettingType.get_name(0x45)))
            res.append(('DataIdentifier.name_from_id(0xF190)', DataIdentifier.name_from_id(0xF190)))
        return res
    outs = run_threads(work)
    truth = dict(work(0))           # afterwards, single-threaded
    for tid, res in enumerate(outs):
        for label, v in (res or [('thread %d' % tid, 'did not finish')]):
            if label in truth and v != truth[label] or label not in truth:
                problems.append({'input': '%s in thread %d of %d starting together in a fresh process' % (label, tid, NT), 'observed': str(v), 'required': str(truth.get(label, 'a result'))})
                break
elif what == 'memloc':
    from udsoncan import MemoryLocation
    from udsoncan.services import ReadMemoryByAddress, WriteMemoryByAddress

    def work(tid):
        res = []
        for k in range(ROUNDS):
            a = (tid + 1) * 0x1111111111 + k
            z = (tid + 1) * 0x101 + (k % 7)
            ml = MemoryLocation(a, z, 48, 16)
            req = ReadMemoryByAddress.make_request(ml)
            res.append(('read %d/%d' % (a, z), req.get_payload().hex()))
            req = WriteMemoryByAddress.make_request(ml, b'\x01')
            res.append(('write %d/%d' % (a, z), req.get_payload().hex()))
        return res
    outs = run_threads(work)
    for tid, res in enumerate(outs):
        for label, v in (res or [('thread %d' % tid, 'did not finish')]):
            kind, rest = label.split(' ', 1)
            if '/' not in rest:
                problems.append({'input': label, 'observed': v, 'required': 'the thread finishes'})
                break
            a, z = (int(x) for x in rest.split('/'))
            want = ('23' if kind == 'read' else '3d') + '26' + a.to_bytes(6, 'big').hex() + z.to_bytes(2, 'big').hex() + ('' if kind == 'read' else '01')
            if v != want:
                problems.append({'input': '%s_memory_by_address request for address %d size %d built in thread %d while %d other threads build theirs' % (kind, a, z, tid, NT - 1), 'observed': v, 'required': want})
                break
elif what == 'padding':
    from udsoncan import Response
    from udsoncan.services import ReadDTCInformation
    from udsoncan.exceptions import InvalidResponseException

    def work(tid):
        tol = tid % 2 == 0
        res = []
        for k in range(ROUNDS):
            data = bytes([0x02, 0xFF, 0x12, 0x34, 0x56, 0x20 + (k % 3)]) + bytes(1 + k % 3)
            r = Response(ReadDTCInformation, Response.Code.PositiveResponse, data=data)
            try:
                ReadDTCInformation.interpret_response(r, ReadDTCInformation.Subfunction.reportDTCByStatusMask, tolerate_zero_padding=tol, ignore_all_zero_dtc=True)
                got = 'accepted %d' % len(r.service_data.dtcs)
            except InvalidResponseException:
                got = 'invalid'
            res.append((tol, got))
        return res
    outs = run_threads(work)
    for tid, res in enumerate(outs):
        for tol, got in (res or [(None, 'did not finish')]):
            want = 'accepted 1' if tol else 'invalid'
            if got != want:
                problems.append({'input': 'reportDTCByStatusMask reply with 1-3 trailing zero bytes interpreted with tolerate_zero_padding=%s in thread %d while other threads interpret with the other setting' % (tol, tid),
                                 'observed': got, 'required': want})
                break
elif what == 'names_first':
    # the very first name lookups of the process, made by all threads at once
    from udsoncan.ResponseCode import ResponseCode
    import udsoncan.services as services
    from udsoncan.common.dids import DataIdentifier
    from udsoncan.common.Routine import Routine

    def work(tid):
        res = []
        for k in range(3):
            res.append(('ResponseCode.get_name(0x%02x)' % (0x10 + tid), ResponseCode.get_name(0x10 + tid)))
            res.append(('ResponseCode.get_name(0x78)', ResponseCode.get_name(0x78)))
            res.append(('ECUReset.ResetType.get_name(%d)' % (tid + 1), services.ECUReset.ResetType.get_name(tid + 1)))
            res.append(('DataIdentifier.name_from_id(0xF190)', DataIdentifier.name_from_id(0xF190)))
            res.append(('Routine.name_from_id(0xFF00)', Routine.name_from_id(0xFF00)))
        return res
    outs = run_threads(work)
    truth = {}
    for tid in range(NT):
        truth.update(dict(work(tid)))
    for tid, res in enumerate(outs):
        for label, v in (res or [('thread %d' % tid, 'did not finish')]):
            if v != truth.get(label):
                problems.append({'input': '%s as one of the first lookups of the process, in thread %d of %d starting together' % (label, tid, NT), 'observed': str(v), 'required': str(truth.get(label))})
                break
print(json.dumps(problems[:10]))
