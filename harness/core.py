"""Common machinery for the checks: Lean build + axiom audit, driver process, verdict logic,
evidence and replay writers, known-findings matcher.

Verdict logic (DESIGN.md section 2.1): a check collects *obligations* (theorem modules, tie modules,
correspondence suites).  It also evaluates the property's spec predicate directly on the
implementation (`spec_failures`).  Outcome:
  * spec failure not listed in known_findings.json  -> VIOLATION with the failing input as replay
  * spec failure listed                              -> KNOWN-FINDING line, no alarm
  * an obligation is broken but no failing input     -> VIOLATION ... no-failing-input-found
  * otherwise exit 0
Exit code 2 is reserved for infrastructure failures (never reported as a violation).
"""
import fcntl
import hashlib
import json
import os
import random
import re
import subprocess
import sys
import time

ROOT = os.path.dirname(os.path.dirname(os.path.abspath(__file__)))
LEAN = os.path.join(ROOT, 'lean')
REPO = os.environ.get('UDS_REPO', '/repo')
DRV = os.path.join(LEAN, '.lake', 'build', 'bin', 'udsdrv')
ALLOWED_AXIOMS = {'propext', 'Classical.choice', 'Quot.sound'}
FORBIDDEN = re.compile(r'\b(sorry|admit|native_decide|bv_decide|implemented_by|unsafe)\b|^\s*axiom\s|maxHeartbeats\s+0', re.M)

TRUSTED_BASE = [
    "Lean 4.33.0 kernel; axioms allowed in property theorems: propext, Classical.choice, Quot.sound (audited per theorem on every run)",
    "no native_decide / bv_decide / sorry / own axioms (sources grepped on every run); `decide +kernel` is kernel evaluation",
    "harness/extract.py (Python introspection of /repo's working tree) that regenerates Uds/Generated/*.lean",
    "the hand-written Lean Model, tied to the code by the correspondence suites (differential testing against /repo in-process)",
    "the Spec definitions (my transcription of ISO 14229-1 layouts, name tables and documented domains)",
    "CPython itself (struct, int.to_bytes, slicing, queue, threading, select) is modelled, not verified",
]


class Infra(Exception):
    pass


class Broken(Exception):
    """the harness cannot drive the implementation the way it drives the unchanged one (a thread that does not stop, an object without an attribute the
    unchanged code always sets, ...): not an infrastructure failure - the correspondence no longer checks on this tree"""


def sh(cmd, cwd=None, timeout=3600, env=None):
    p = subprocess.run(cmd, cwd=cwd, stdout=subprocess.PIPE, stderr=subprocess.STDOUT, text=True, timeout=timeout, env=env)
    return p.returncode, p.stdout


class Watchdog:
    """a suite that does not come back: the unchanged tree finishes every suite in seconds (quick) / minutes (thorough), so a suite still running after the
    budget means the implementation hangs (a loop that no longer consumes, a join that never returns).  The verdict is written by the watchdog thread itself,
    with the stack of every thread as the replay, and the process ends with status 1."""

    def __init__(self, prop, tier, seed, suite, budget):
        import threading
        self.prop, self.tier, self.seed, self.suite, self.budget = prop, tier, seed, suite, budget
        self.t = threading.Timer(budget, self.fire)
        self.t.daemon = True
        self.t.start()

    def cancel(self):
        self.t.cancel()

    def fire(self):
        import traceback
        import threading
        frames = sys._current_frames()
        stacks = {}
        in_repo = None
        for th in threading.enumerate():
            fr = frames.get(th.ident)
            if fr is None:
                continue
            st = traceback.extract_stack(fr)
            stacks[th.name] = ''.join(traceback.format_list(st))[-2500:]
            for f in reversed(st):
                if os.path.realpath(f.filename).startswith(os.path.realpath(REPO) + os.sep):
                    if th is threading.main_thread() or in_repo is None:
                        in_repo = '%s:%d %s' % (os.path.relpath(f.filename, REPO), f.lineno, f.name)
                    break
        os.makedirs(os.path.join(ROOT, 'replays'), exist_ok=True)
        path = os.path.join(ROOT, 'replays', '%s-%d.json' % (self.prop, self.seed))
        rec = {'site': in_repo or self.suite, 'suite': self.suite.replace('suite_', ''), 'class': 'hang', 'input': 'the inputs of suite %s (deterministic for this seed and tier)' % self.suite,
               'observed': 'still running after %d s (the unchanged tree needs seconds); innermost library frame: %s' % (self.budget, in_repo),
               'required': 'every call returns or raises; nothing blocks without consuming input', 'property': self.prop}
        json.dump({'property': self.prop, 'kind': 'failing-input' if in_repo else 'no-failing-input-found', 'tier': self.tier, 'seed': self.seed, 'failure': rec, 'stacks': stacks},
                  open(path, 'w'), indent=1, default=str)
        print('VIOLATION property=%s replay=%s%s' % (self.prop, path, '' if in_repo else ' no-failing-input-found'))
        print('  first failing input: ' + json.dumps(rec)[:600])
        sys.stdout.flush()
        os._exit(1)


class BuildLock:
    def __enter__(self):
        self.f = open(os.path.join(ROOT, '.buildlock'), 'w')
        fcntl.flock(self.f, fcntl.LOCK_EX)
        return self

    def __exit__(self, *a):
        fcntl.flock(self.f, fcntl.LOCK_UN)
        self.f.close()


def write_if_changed(path, content):
    try:
        if open(path).read() == content:
            return False
    except FileNotFoundError:
        pass
    os.makedirs(os.path.dirname(path), exist_ok=True)
    tmp = path + '.tmp%d' % os.getpid()
    with open(tmp, 'w') as f:
        f.write(content)
    os.replace(tmp, path)
    return True


def lake_build(targets):
    """build each target separately so that a broken Tie does not hide the others.
    returns {target: (ok, log)}"""
    res = {}
    for t in targets:
        rc, out = sh(['lake', 'build', t], cwd=LEAN)
        res[t] = (rc == 0, out)
    return res


def audit(prop):
    """run Audit/<prop>.lean; returns (theorems: {name: {'axioms': [...], 'hash': str}}, log)"""
    rc, out = sh(['lake', 'env', 'lean', 'Audit/%s.lean' % prop], cwd=LEAN)
    thms = {}
    for m in re.finditer(r'AUDIT (\S+) AXIOMS \[([^\]]*)\] HASH (\d+)', out):
        axs = [a for a in m.group(2).split(',') if a]
        thms[m.group(1)] = {'axioms': axs, 'hash': m.group(3)}
    return rc, thms, out


def grep_forbidden(paths):
    hits = []
    for p in paths:
        try:
            src = open(p).read()
        except FileNotFoundError:
            continue
        # strip comments
        src2 = re.sub(r'/-.*?-/', lambda m: '\n' * m.group(0).count('\n'), src, flags=re.S)
        src2 = re.sub(r'--.*', '', src2)
        for m in FORBIDDEN.finditer(src2):
            line = src2.count('\n', 0, m.start()) + 1
            hits.append('%s:%d:%s' % (os.path.relpath(p, ROOT), line, m.group(0).strip()))
    return hits


class Driver:
    """udsdrv process; line in, line out"""

    def __init__(self):
        if not os.path.exists(DRV):
            raise Infra('driver not built: %s' % DRV)
        self.p = subprocess.Popen([DRV], stdin=subprocess.PIPE, stdout=subprocess.PIPE, text=True, bufsize=1)
        self.n = 0

    def ask(self, line):
        self.p.stdin.write(line + '\n')
        self.p.stdin.flush()
        self.n += 1
        out = self.p.stdout.readline()
        if not out:
            raise Infra('driver died on: %s' % line)
        return out.rstrip('\n')

    def close(self):
        try:
            self.p.stdin.close()
            self.p.wait(timeout=5)
        except Exception:
            self.p.kill()


def drv_batch(lines):
    """run a batch of lines through a fresh driver (much faster than ask() for big suites)"""
    if not lines:
        return []
    if not os.path.exists(DRV):
        raise Infra('driver not built: %s' % DRV)
    p = subprocess.run([DRV], input='\n'.join(lines) + '\n', stdout=subprocess.PIPE, text=True)
    out = p.stdout.split('\n')
    if out and out[-1] == '':
        out.pop()
    if len(out) != len(lines):
        raise Infra('driver answered %d lines for %d requests' % (len(out), len(lines)))
    return out


def hx(b):
    if b is None:
        return '-'
    return b.hex() if len(b) else '-'


def ohx(b):
    """Option bytes: None -> '-', b'' -> '.', else hex"""
    if b is None:
        return '-'
    return b.hex() if len(b) else '.'


def onat(n):
    return '-' if n is None else str(n)


def b01(x):
    return '1' if x else '0'


class Suite:
    """result of one correspondence suite / spec evaluation"""

    def __init__(self, name):
        self.name = name
        self.evaluations = 0
        self.distinct = set()
        self.divergences = []   # model != impl : dict(input, model, impl)
        self.spec_failures = []  # P_spec false on impl: dict(site, input, observed, required, ...)
        self.samples = []
        self.dist = {}
        self.exhaustive = False
        self.notes = []

    def count(self, key, n=1):
        self.dist[key] = self.dist.get(key, 0) + n

    def sample(self, s, cap=6):
        if len(self.samples) < cap:
            self.samples.append(s)

    def diverge(self, inp, model, impl, cap=50):
        if len(self.divergences) < cap:
            self.divergences.append({'input': inp, 'model': model, 'impl': impl})
        else:
            self.count('divergences_beyond_cap')

    def fail(self, rec, cap=200):
        if len(self.spec_failures) < cap:
            self.spec_failures.append(rec)
        else:
            self.count('spec_failures_beyond_cap')


def compare(suite, inputs, model_out, impl_out, nontrivial=None):
    for i, (a, b) in enumerate(zip(model_out, impl_out)):
        suite.evaluations += 1
        if a != b:
            suite.diverge(inputs[i], a, b)
    for i in range(len(inputs)):
        if nontrivial is None or nontrivial(inputs[i], impl_out[i]):
            suite.distinct.add(inputs[i] if isinstance(inputs[i], str) else json.dumps(inputs[i], sort_keys=True))


# ----------------------------------------------------------------------------------------------
# known findings
# ----------------------------------------------------------------------------------------------

def load_findings():
    p = os.path.join(ROOT, 'known_findings.json')
    try:
        return json.load(open(p))['findings']
    except FileNotFoundError:
        return []


def finding_matches(entry, rec):
    """entry['match'] is a dict of key -> value / {'in': [...]} / {'re': '...'} tested against the
    failure record (flat keys).  All must match."""
    if entry.get('status') != 'known':
        return False
    for k, want in entry.get('match', {}).items():
        have = rec.get(k)
        if isinstance(want, dict):
            if 'in' in want and have not in want['in']:
                return False
            if 're' in want and (have is None or not re.search(want['re'], str(have))):
                return False
            if 'ge' in want and not (isinstance(have, int) and have >= want['ge']):
                return False
            if 'le' in want and not (isinstance(have, int) and have <= want['le']):
                return False
        elif have != want:
            return False
    return True


# ----------------------------------------------------------------------------------------------
# the check runner
# ----------------------------------------------------------------------------------------------

class Ctx:
    def __init__(self, prop, tier, seed):
        self.prop = prop
        self.tier = tier
        self.seed = seed
        self.rng = random.Random((seed * 1000003) ^ int(hashlib.sha1(prop.encode()).hexdigest()[:8], 16))
        self.thorough = tier == 'thorough'
        self.t0 = time.time()

    def n(self, quick, thorough):
        return thorough if self.thorough else quick


def run_check(mod, prop, tier, seed, replay=None):
    """mod provides: LEAN_TARGETS (list), TIES (list of lean modules that are ties), GENERATE(ctx) -> None,
    SUITES: list of callables(ctx) -> Suite, optional TITLE"""
    ctx = Ctx(prop, tier, seed)
    t0 = time.time()
    obligations = []   # dict(name, kind, ok, detail)
    suites = []
    infra = None
    try:
        # 1. regenerate + build + audit, under the build lock
        with BuildLock():
            if hasattr(mod, 'generate'):
                try:
                    mod.generate(ctx)
                except Infra:
                    raise
                except Exception as e:  # noqa
                    # the extractor runs the library on fixed probes; on the unchanged tree every probe returns.  A probe that raises inside library code is a
                    # failing input of its own (the traceback names it); anything else is a tie that can no longer be regenerated.  The Generated files keep
                    # what the last successful extraction wrote, the build and the suites go on and look for more.
                    import traceback
                    tb = traceback.extract_tb(e.__traceback__)
                    inner = tb[-1].filename if tb else ''
                    text = ''.join(traceback.format_exception(type(e), e, e.__traceback__))[-3000:]
                    probe = next((f for f in reversed(tb) if f.filename.endswith('extract.py')), None)
                    if os.path.realpath(inner).startswith(os.path.realpath(REPO) + os.sep):
                        sx = Suite('extract')
                        sx.fail({'site': '%s:%d %s' % (os.path.relpath(inner, REPO), tb[-1].lineno, tb[-1].name), 'class': 'unforeseen exception',
                                 'input': 'extraction probe: %s' % (probe.line if probe else 'see traceback'),
                                 'observed': '%s: %s' % (type(e).__name__, e), 'required': 'the behaviour of the unchanged code (a value)', 'traceback': text})
                        suites.append(sx)
                    obligations.append({'name': 'extract (regeneration of lean/Uds/Generated from /repo)', 'kind': 'tie', 'ok': False,
                                        'detail': 'the extractor could not run to its end on this tree: %s: %s | %s' % (type(e).__name__, e, text[-1200:])})
            targets = list(getattr(mod, 'LEAN_TARGETS', []))
            b = lake_build(['udsdrv'])
            if not b['udsdrv'][0]:
                raise Infra('driver build failed:\n' + b['udsdrv'][1][-3000:])
            built = lake_build(targets)
            for t in targets:
                ok, log = built[t]
                kind = 'tie' if '.Tie.' in t else 'theorem-module'
                obligations.append({'name': t, 'kind': kind, 'ok': ok, 'detail': '' if ok else log[-1500:]})
            props_ok = all(built[t][0] for t in targets if '.Props.' in t)
            thms = {}
            if props_ok and os.path.exists(os.path.join(LEAN, 'Audit', prop + '.lean')):
                rc, thms, out = audit(prop)
                if rc != 0 or not thms:
                    obligations.append({'name': 'audit ' + prop, 'kind': 'audit', 'ok': False, 'detail': out[-1500:]})
                for name, info in sorted(thms.items()):
                    bad = [a for a in info['axioms'] if a not in ALLOWED_AXIOMS]
                    obligations.append({'name': 'theorem ' + name, 'kind': 'theorem', 'ok': not bad,
                                        'detail': 'axioms=' + ','.join(info['axioms']), 'hash': info['hash']})
            # thorough: the toolchain's independent re-checker replays the compiled property modules
            if ctx.thorough and props_ok:
                for t in targets:
                    if '.Props.' in t:
                        rc, out = sh(['lake', 'env', 'leanchecker', t], cwd=LEAN)
                        obligations.append({'name': 'leanchecker ' + t, 'kind': 'leanchecker', 'ok': rc == 0, 'detail': out[-800:] if rc != 0 else ''})
            # forbidden tokens
            srcs = []
            for d, _, fs in os.walk(os.path.join(LEAN, 'Uds')):
                srcs += [os.path.join(d, f) for f in fs if f.endswith('.lean')]
            hits = grep_forbidden(srcs)
            obligations.append({'name': 'no sorry/admit/axiom/native_decide/bv_decide in lean/Uds', 'kind': 'grep',
                                'ok': not hits, 'detail': ';'.join(hits[:10])})
            # statements lock
            lock = {}
            try:
                lock = json.load(open(os.path.join(ROOT, 'statements.lock'))).get(prop, {})
            except FileNotFoundError:
                pass
            changed = [n for n, info in thms.items() if n in lock and lock[n] != info['hash']]
            missing = [n for n in lock if n not in thms] if thms else []
            if lock:
                obligations.append({'name': 'statements.lock ' + prop, 'kind': 'lock', 'ok': not changed and not missing,
                                    'detail': 'changed=%s missing=%s' % (changed, missing)})
        # 2. suites
        for fn in mod.SUITES:
            dog = Watchdog(prop, tier, seed, getattr(fn, '__name__', 'suite'), 240 if tier == 'quick' else 3000)
            try:
                try:
                    s = fn(ctx)
                finally:
                    dog.cancel()
            except Infra:
                raise
            except Exception as e:  # noqa
                # an exception the harness did not foresee: if the innermost frame is library code, the implementation raised where the
                # unchanged code returns a value -> reported as a violation with the traceback as replay; otherwise it is a harness fault
                import traceback
                tb = traceback.extract_tb(e.__traceback__)
                inner = tb[-1].filename if tb else ''
                text = ''.join(traceback.format_exception(type(e), e, e.__traceback__))[-3000:]
                if os.path.realpath(inner).startswith(os.path.realpath(REPO) + os.sep):
                    s = Suite(getattr(fn, '__name__', 'suite'))
                    s.fail({'site': '%s:%d %s' % (os.path.relpath(inner, REPO), tb[-1].lineno, tb[-1].name), 'input': 'see traceback', 'class': 'unforeseen exception',
                            'observed': '%s: %s' % (type(e).__name__, e), 'required': 'the behaviour of the unchanged code (a value or a documented exception)', 'traceback': text})
                else:
                    # the suite runs to its end on the unchanged tree (that is checked before anything is committed): on this tree the harness could not drive
                    # the implementation as it drives the unchanged one - the correspondence is broken, no failing input was isolated
                    obligations.append({'name': 'suite ' + getattr(fn, '__name__', 'suite').replace('suite_', ''), 'kind': 'suite', 'ok': False,
                                        'detail': 'the suite could not run to its end on this tree: %s: %s | %s' % (type(e).__name__, e, text[-1200:])})
                    continue
            suites.append(s)
            obligations.append({'name': 'suite ' + s.name, 'kind': 'suite', 'ok': not s.divergences,
                                'detail': ('%d divergences' % len(s.divergences)) if s.divergences else ''})
    except Infra as e:
        infra = str(e)

    wall = time.time() - t0
    if infra is not None:
        print('INFRASTRUCTURE FAILURE: ' + infra)
        write_evidence(prop, tier, seed, mod, obligations, suites, wall, 0, note='infrastructure failure: ' + infra[:500])
        return 2

    # 3. verdict
    findings = load_findings()
    known_lines = []
    unknown = []
    for s in suites:
        for rec in s.spec_failures:
            rec = dict(rec)
            rec['property'] = prop
            rec['suite'] = s.name
            hit = None
            for e in findings:
                if e.get('property') == prop and finding_matches(e, rec):
                    hit = e
                    break
            if hit is not None:
                line = 'KNOWN-FINDING: property=%s %s' % (prop, hit['text'])
                if line not in known_lines:
                    known_lines.append(line)
            else:
                unknown.append(rec)
    broken = [o for o in obligations if not o['ok']]
    for l in known_lines:
        print(l)
    violations = 0
    rc = 0
    os.makedirs(os.path.join(ROOT, 'replays'), exist_ok=True)
    if unknown:
        violations = len(unknown)
        path = os.path.join(ROOT, 'replays', '%s-%d.json' % (prop, seed))
        json.dump({'property': prop, 'kind': 'failing-input', 'tier': tier, 'seed': seed, 'failure': unknown[0], 'more': unknown[1:20],
                   'broken_obligations': [o['name'] for o in broken],
                   'how_to_replay': './check %s --replay %s   (re-runs the suites with the recorded seed and tier against /repo as it is now and looks for this failing input again)' % (prop, path)},
                  open(path, 'w'), indent=1, default=str)
        print('VIOLATION property=%s replay=%s' % (prop, path))
        print('  first failing input: ' + json.dumps(unknown[0], default=str)[:600])
        rc = 1
    elif broken:
        violations = 1
        path = os.path.join(ROOT, 'replays', '%s-%d.json' % (prop, seed))
        first_div = None
        for s in suites:
            if s.divergences:
                first_div = {'suite': s.name, **s.divergences[0]}
                break
        json.dump({'property': prop, 'kind': 'no-failing-input-found', 'tier': tier, 'seed': seed,
                   'broken': [{'name': o['name'], 'kind': o['kind'], 'detail': o['detail']} for o in broken],
                   'first_divergence': first_div}, open(path, 'w'), indent=1, default=str)
        print('VIOLATION property=%s replay=%s no-failing-input-found' % (prop, path))
        for o in broken[:5]:
            print('  broken: %s (%s) %s' % (o['name'], o['kind'], o['detail'][-300:].replace('\n', ' | ')))
        rc = 1
    write_evidence(prop, tier, seed, mod, obligations, suites, wall, violations, known=known_lines)
    if rc == 0:
        print('OK property=%s tier=%s seed=%d obligations=%d suites=%s wall=%.1fs' % (
            prop, tier, seed, len(obligations), ','.join('%s:%d' % (s.name, s.evaluations) for s in suites), wall))
    return rc


def write_evidence(prop, tier, seed, mod, obligations, suites, wall, violations, known=(), note=None):
    ev_total = sum(s.evaluations for s in suites)
    distinct = sum(len(s.distinct) for s in suites)
    samples = []
    for o in obligations:
        if o['kind'] == 'theorem' and len(samples) < 4:
            samples.append({'obligation': o['name'], 'axioms': o['detail']})
    for s in suites:
        for x in s.samples[:4]:
            samples.append({'suite': s.name, 'case': x})
    if not samples:
        samples = [{'note': note or 'nothing ran'}]
    cov = {
        'obligations': max(1, len(obligations)),
        'discharged': max(0, sum(1 for o in obligations if o['ok'])),
        'checker_cmd': 'cd lean && lake build %s && lake env lean Audit/%s.lean' % (' '.join(getattr(mod, 'LEAN_TARGETS', [])), prop)
                       + (' && lake env leanchecker %s' % ' '.join(t for t in getattr(mod, 'LEAN_TARGETS', []) if '.Props.' in t) if tier == 'thorough' else ''),
        'trusted_base': TRUSTED_BASE + list(getattr(mod, 'TRUSTED_EXTRA', [])),
        'obligation_list': [{k: o[k] for k in ('name', 'kind', 'ok', 'detail') if k in o} | ({'hash': o['hash']} if 'hash' in o else {})
                            for o in obligations],
        'evaluations': ev_total,
        'distinct_nontrivial': distinct,
        'rule': getattr(mod, 'RULE', 'each case is one input driven through both the Lean model (udsdrv) and the real code; '
                                     'distinct = distinct canonical input records; non-trivial as stated per suite'),
        'samples': samples,
        'suites': [{'name': s.name, 'evaluations': s.evaluations, 'distinct_nontrivial': len(s.distinct),
                    'divergences': len(s.divergences), 'spec_failures': len(s.spec_failures),
                    'exhaustive': s.exhaustive, 'distribution': s.dist, 'notes': s.notes} for s in suites],
        'exhaustive': bool(suites) and all(s.exhaustive for s in suites),
        'known_findings_reported': list(known),
    }
    if note:
        cov['note'] = note
    ev = {
        'property_id': prop, 'tier': tier, 'seed': seed, 'level': 'proof', 'coverage': cov,
        'assumptions': list(getattr(mod, 'ASSUMPTIONS', [])),
        'wall_s': round(wall, 2), 'violations': violations,
    }
    os.makedirs(os.path.join(ROOT, 'evidence'), exist_ok=True)
    with open(os.path.join(ROOT, 'evidence', prop + '.json'), 'w') as f:
        json.dump(ev, f, indent=1, default=str)


def replay(mod, prop, path):
    """re-executes a recorded violation against /repo as it is now: the suites are deterministic functions of (property, seed, tier), so the
    recorded failing input is regenerated and evaluated again on the real code.  Exit 1 (and the VIOLATION line) if it fails again, 0 if it no
    longer does, 2 if the replay file cannot be used."""
    try:
        rec = json.load(open(path))
    except Exception as e:  # noqa
        print('cannot read replay file %s: %s' % (path, e))
        return 2
    print(json.dumps(rec, indent=1)[:4000])
    if rec.get('kind') != 'failing-input':
        print('this replay names broken proof obligations / ties, not an input: run ./check %s to re-evaluate them' % prop)
        return run_check(mod, prop, rec.get('tier', 'quick'), int(rec.get('seed', 0)))
    if not os.path.exists(DRV):
        with BuildLock():
            lake_build(['udsdrv'])
    ctx = Ctx(prop, rec.get('tier', 'quick'), int(rec.get('seed', 0)))
    if hasattr(mod, 'generate'):
        pass            # generated Lean tables are not needed to evaluate the property on the implementation
    want = rec['failure']
    keys = [k for k in ('site', 'input', 'call', 'class') if k in want]
    again = []
    for fn in mod.SUITES:
        try:
            s = fn(ctx)
        except Infra as e:
            print('INFRASTRUCTURE FAILURE: %s' % e)
            return 2
        except Exception as e:  # noqa
            import traceback
            print('suite %s raised %s' % (getattr(fn, '__name__', '?'), ''.join(traceback.format_exception(type(e), e, e.__traceback__))[-1500:]))
            if want.get('class') == 'unforeseen exception':
                again.append({'site': want.get('site'), 'observed': '%s: %s' % (type(e).__name__, e)})
            continue
        if s.name != want.get('suite'):
            continue
        for f in s.spec_failures:
            if all(str(f.get(k)) == str(want.get(k)) for k in keys):
                again.append(f)
    if again:
        print('REPRODUCED on the current tree: ' + json.dumps(again[0], default=str)[:800])
        print('VIOLATION property=%s replay=%s' % (prop, path))
        return 1
    print('NOT REPRODUCED: the recorded input no longer fails on the current tree (suite %s, seed %s, tier %s)' % (want.get('suite'), rec.get('seed'), rec.get('tier')))
    return 0


def child_problems(script, scenario, timeout=180):
    """run a child-process scenario (harness/<script> <scenario>) against the same /repo; returns its list of problems (a child that fails is one)"""
    import subprocess
    child = os.path.join(ROOT, 'harness', script)
    env = dict(os.environ, UDS_REPO=REPO, PYTHONPATH=REPO + os.pathsep + ROOT)
    p = subprocess.run([sys.executable, child, scenario], stdout=subprocess.PIPE, stderr=subprocess.PIPE, text=True, env=env, timeout=timeout)
    try:
        return json.loads(p.stdout.strip().split('\n')[-1])
    except Exception:  # noqa
        return [{'input': '%s %s' % (script, scenario), 'observed': 'child failed: ' + (p.stderr or p.stdout)[-600:], 'required': 'the scenario runs to its end'}]


def suite_user_code(scenario, site):
    """a suite made of one child-process scenario of harness/user_child.py"""
    s = Suite('user_code')
    s.evaluations += 1
    s.distinct.add(scenario)
    s.exhaustive = True
    for pr in child_problems('user_child.py', scenario):
        s.fail({'site': site, 'class': scenario, 'input': pr['input'], 'observed': pr['observed'], 'required': pr['required']})
    s.sample({'scenario': scenario})
    return s


def suite_races(scenarios, runs):
    """the `races` suite: every scenario of harness/race_child.py in `runs` fresh processes started together (a race at the first use of something in a process has one
    chance per process; a loaded machine changes the interleavings, more processes give more chances)"""
    import subprocess
    s = Suite('races')
    env = dict(os.environ, UDS_REPO=REPO)
    child = os.path.join(ROOT, 'harness', 'race_child.py')
    for what in scenarios:
        procs = [subprocess.Popen([sys.executable, child, what], stdout=subprocess.PIPE, stderr=subprocess.PIPE, text=True, env=env) for _ in range(runs)]
        reported = False
        for run, p in enumerate(procs):
            try:
                out, err = p.communicate(timeout=300)
            except subprocess.TimeoutExpired:
                p.kill()
                out, err = '', 'no result within 300 s'
            s.evaluations += 1
            s.distinct.add('%s:%d' % (what, run))
            try:
                problems = json.loads(out.strip().split('\n')[-1])
            except Exception:  # noqa
                problems = [{'input': 'race_child.py ' + what, 'observed': 'child failed: ' + (err or out)[-500:], 'required': 'the scenario runs to its end'}]
            if problems and not reported:
                reported = True
                for pr in problems[:3]:
                    s.fail({'site': 'threads (%s)' % what, 'input': pr['input'], 'observed': pr['observed'], 'required': pr['required']})
    return s
