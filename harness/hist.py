"""Histories on one real Client object (calls, with-blocks, configuration changes, stray frames), executed
on the stub connection under the virtual clock, and the same history as one `hist` line for udsdrv."""
import copy
import random

from . import core, stub, entries
from . import clientlib as cl
from .core import hx, ohx, onat, b01
from udsoncan import Baudrate
from udsoncan.client import Client


class BlockExit(Exception):
    pass


def arr_str(arr):
    return ','.join('%d~%s' % (t, p.hex() if p else '-') for t, p in arr) if arr else '-'


def oint(x):
    return '-' if x is None else str(x)


def entry_str(e):
    k = e[0]
    if k == 'cs':
        return 'cs/%d' % e[1]
    if k == 'er':
        return 'er/%d' % e[1]
    if k in ('rs', 'sk'):
        return '%s/%d/%s' % (k, e[1], ohx(e[2]))
    if k == 'tp':
        return 'tp'
    if k == 'cc':
        return 'cc/%d/%d/%s' % (e[1], e[2], oint(e[3]))
    if k in ('at', 'cd'):
        return '%s/%d/%s' % (k, e[1], ohx(e[2]))
    if k == 'lc':
        return 'lc/%d/%s/%s' % (e[1], oint(e[2]), e[3])
    if k == 'rc':
        return 'rc/%d/%d/%s' % (e[1], e[2], ohx(e[3]))
    if k == 'td':
        return 'td/%d/%s' % (e[1], ohx(e[2]))
    if k == 'te':
        return 'te/%s' % ohx(e[1])
    if k == 'cl':
        return 'cl/%d/%s' % (e[1], oint(e[2]))
    raise ValueError(e)


def invoke_entry(client, e):
    k = e[0]
    if k == 'cs':
        return client.change_session(e[1])
    if k == 'er':
        return client.ecu_reset(e[1])
    if k == 'rs':
        return client.request_seed(e[1], e[2])
    if k == 'sk':
        return client.send_key(e[1], e[2])
    if k == 'tp':
        return client.tester_present()
    if k == 'cc':
        return client.communication_control(e[1], e[2], e[3])
    if k == 'at':
        return client.access_timing_parameter(e[1], e[2])
    if k == 'cd':
        return client.control_dtc_setting(e[1], e[2])
    if k == 'lc':
        baud = None if e[2] is None else (Baudrate(e[2]) if e[3] == 'a' else Baudrate(e[2], {'f': Baudrate.Type.Fixed, 's': Baudrate.Type.Specific, 'i': Baudrate.Type.Identifier}[e[3]]))
        return client.link_control(e[1], baud)
    if k == 'rc':
        return client.routine_control(e[1], e[2], e[3])
    if k == 'td':
        return client.transfer_data(e[1], e[2])
    if k == 'te':
        return client.request_transfer_exit(e[1])
    if k == 'cl':
        return client.clear_dtc(e[1], e[2])
    raise ValueError(e)


def op_str(op):
    k = op[0]
    if k == 'call':
        return 'call@%s@%s' % (entry_str(op[1]), arr_str(op[2]))
    if k == 'unlock':
        return 'unlock@%d@%s@%s@%s' % (op[1], ohx(op[2]) if op[2] else '-', arr_str(op[3]), arr_str(op[4]))
    if k == 'espr':
        return 'espr@%s' % ('b' if op[1] == 'b' else b01(op[1]))     # 'b' = bare `with client.suppress_positive_response:`
    if k == 'xspr':
        return 'xspr'
    if k == 'eovr':
        return 'eovr@%s' % op[1].replace(':', '~')
    if k == 'xovr':
        return 'xovr'
    if k == 'std':
        return 'std@%d' % op[1]
    if k == 'ust':
        return 'ust@%s' % b01(op[1])
    if k == 'sw':
        return 'sw@%s' % ''.join(b01(x) for x in op[1])
    if k == 'stray':
        return 'stray@%s' % op[1].hex()
    raise ValueError(op)


class HCfg:
    def __init__(self, rt=5120, p2=1024, p2s=5120, cb=False, std=2020, ust=True, sw=(True, True, True)):
        self.rt, self.p2, self.p2s, self.cb, self.std, self.ust, self.sw = rt, p2, p2s, cb, std, ust, sw

    def line(self, ops):
        return 'hist rt=%s p2=%d p2s=%d cb=%s std=%d ust=%s msn=1024 msd=1000 sw=%s ops=%s' % (
            onat(self.rt), self.p2, self.p2s, b01(self.cb), self.std, b01(self.ust), ''.join(b01(x) for x in self.sw),
            ';'.join(op_str(o) for o in ops) if ops else '-')


def algo(seed, level, params):
    return bytes(b ^ 0xA5 for b in seed) + bytes([level % 256])


class Trace:
    """what happened at each op of a history on the real client"""

    def __init__(self):
        self.steps = []     # dict(op, out, log, how, verdict, flags, result, algo, spr_enabled, ovr_enabled, timing)


def run_history(hcfg, ops, algo_fn=None):
    """execute on a real client; returns (output string in the driver's format, Trace, client, conn)"""
    cfg = cl.Cfg(rt=hcfg.rt, p2=hcfg.p2, p2s=hcfg.p2s, cb=hcfg.cb, std=hcfg.std, exc=hcfg.sw)
    algo_calls = []

    def recording_algo(seed, level, params):
        algo_calls.append((bytes(seed), level, params))
        return (algo_fn or algo)(seed, level, params)
    client, conn = cl.make_client(cfg, extra={'use_server_timing': hcfg.ust, 'security_algo': recording_algo, 'security_algo_params': b'\x01'})
    tr = Trace()
    outs = []

    def state_snapshot():
        t = client.get_session_timing()
        return {'spr': client.suppress_positive_response.enabled, 'ovr': client.payload_override.enabled,
                'timing': (t.p2_server_max, t.p2_star_server_max)}

    def do_call(op):
        del algo_calls[:]
        if op[0] == 'call':
            conn.responder = None
            conn.script = list(op[2])
            fn = lambda: invoke_entry(client, op[1])
        else:
            n = {'i': 0}

            def responder(p, n=n):
                n['i'] += 1
                return list(op[3]) if n['i'] == 1 else list(op[4])
            conn.responder = responder
            fn = lambda: client.unlock_security_access(op[1], op[2]) if op[2] else client.unlock_security_access(op[1])
        before = state_snapshot()
        how, verdict, flags, payload, exc, r = cl.observe_outer(conn, fn)
        conn.responder = None
        log = list(conn.log)
        out = 'log=%s how=%s verdict=%s flags=%s' % (cl.fmt_log(log), how, verdict, flags)
        if algo_calls:
            out += ' algo=' + ','.join('%s/%d' % (hx(s), l) for s, l, _ in algo_calls)
        outs.append(out)
        tr.steps.append({'op': op, 'out': out, 'log': log, 'how': how, 'verdict': verdict, 'flags': flags, 'result': r, 'exc': exc,
                         'algo': list(algo_calls), 'before': before, 'after': state_snapshot()})

    def simple(op):
        k = op[0]
        if k == 'std':
            client.set_config('standard_version', op[1])
        elif k == 'ust':
            client.set_config('use_server_timing', op[1])
        elif k == 'sw':
            client.set_configs({'exception_on_negative_response': op[1][0], 'exception_on_invalid_response': op[1][1],
                                'exception_on_unexpected_response': op[1][2]})
        elif k == 'stray':
            conn.stale.append(op[1])
        outs.append('-')
        tr.steps.append({'op': op, 'out': '-', 'before': None, 'after': state_snapshot()})

    def run_block(i):
        """run ops[i:] until the matching exit op; returns (index after it, leave the block by an exception?).
        every op appends exactly one step, so step index == op index"""
        while i < len(ops):
            op = ops[i]
            k = op[0]
            if k in ('call', 'unlock'):
                do_call(op)
                i += 1
            elif k in ('espr', 'eovr'):
                outs.append('-')
                tr.steps.append({'op': op, 'out': '-', 'before': None, 'after': None})
                enter_idx = len(tr.steps) - 1
                if k == 'espr':
                    cm = client.suppress_positive_response if op[1] == 'b' else client.suppress_positive_response(wait_nrc=op[1])
                else:
                    cm = client.payload_override(cl.modifier_of(op[1]))
                try:
                    with cm:
                        tr.steps[enter_idx]['after'] = state_snapshot()
                        i, by_exc = run_block(i + 1)
                        if by_exc:
                            raise BlockExit()
                except BlockExit:
                    pass
                if 0 < i <= len(tr.steps) and tr.steps[i - 1]['op'][0] in ('xspr', 'xovr'):
                    tr.steps[i - 1]['after'] = state_snapshot()
            elif k in ('xspr', 'xovr'):
                outs.append('-')
                tr.steps.append({'op': op, 'out': '-', 'before': None, 'after': None})
                return i + 1, (len(op) > 1 and op[1] == 'exc')
            else:
                simple(op)
                i += 1
        return i, False
    run_block(0)
    t = client.get_session_timing()
    if t.p2_server_max is None:
        timing = '-'
    else:
        timing = '%s,%s' % (stub.fmt_tick(t.p2_server_max / stub.TICK), stub.fmt_tick(t.p2_star_server_max / stub.TICK))
    final = ' || timing=%s spr=%s ovr=%s rxq=%d' % (timing, b01(client.suppress_positive_response.enabled),
                                                   b01(client.payload_override.enabled), len(conn.stale))
    return ' | '.join(outs) + final, tr, client, conn


# ------------------------------------------------------------------------------------------------
# generators
# ------------------------------------------------------------------------------------------------

SID = {'cs': 0x10, 'er': 0x11, 'rs': 0x27, 'sk': 0x27, 'tp': 0x3E, 'cc': 0x28, 'at': 0x83, 'cd': 0x85, 'lc': 0x87, 'rc': 0x31, 'td': 0x36,
       'te': 0x37, 'cl': 0x14}
HAS_SF = {'cs', 'er', 'rs', 'sk', 'tp', 'cc', 'at', 'cd', 'lc', 'rc'}


def lc_eff_type(rate, ty):
    """Baudrate.Type.Auto resolved as the class documents: a standard rate is Fixed, a value that fits one byte an Identifier, anything else Specific"""
    if ty != 'a' or rate is None:
        return ty
    if rate in {9600, 19200, 38400, 57600, 115200, 125000, 250000, 500000, 1000000}:
        return 'f'
    return 'i' if 0 <= rate <= 0xFF else 's'


def rand_entry(rng, std=2020, allow_invalid=True):
    k = rng.choice(['cs', 'er', 'er', 'rs', 'sk', 'tp', 'tp', 'cc', 'at', 'cd', 'lc', 'rc', 'rc', 'td', 'td', 'te', 'cl'])
    bad = allow_invalid and rng.random() < 0.06
    rb = lambda n: bytes(rng.randrange(256) for _ in range(n))
    odata = lambda: rng.choice([None, None, b'', rb(1), rb(rng.randrange(1, 6))])
    if k == 'cs':
        return ('cs', rng.choice([1, 2, 3, 4, 0x7F, 0x40]) if not bad else rng.choice([-1, 0x80]))
    if k == 'er':
        return ('er', rng.choice([1, 2, 3, 4, 5, 0x60]) if not bad else 0x80)
    if k in ('rs', 'sk'):
        return (k, rng.choice([1, 2, 3, 4, 0x11, 0x7D, 0x7E]) if not bad else rng.choice([0, 0x7F, 0x80]), rb(rng.choice([0, 0, 1, 4])))
    if k == 'tp':
        return ('tp',)
    if k == 'cc':
        ct = rng.choice([0, 1, 2, 3, 4, 5, 0x10])
        node = rng.choice([0, 0x1234, 0xFFFF]) if (ct in (4, 5) and std >= 2013) else None
        if bad:
            node = None if node is not None else 5
        return ('cc', ct, rng.choice([0x01, 0x02, 0x03, 0x13, 0xF1]), node)
    if k == 'at':
        t = rng.choice([1, 2, 3, 4])
        rec = rb(rng.randrange(0, 4)) if t == 4 else None
        if bad:
            rec = None if rec is not None else b'\x01'
        return ('at', t, rec)
    if k == 'cd':
        return ('cd', rng.choice([1, 2, 0x40, 0x7F]) if not bad else 0x80, odata())
    if k == 'lc':
        ct = rng.choice([1, 2, 3])
        ty = rng.choice(['f', 's', 'i', 'a'])
        if ty == 'a':                                              # Baudrate(rate): the class guesses the type; the guess is validated like an explicit type
            rate = rng.choice([9600, 500000, 0x11, 0xFF, 0x100, 123456, 0xFFFFFF, 0x1000000, 0x1000000 + 500000, 0xFFFFFFFF])
        elif ty == 'i':
            rate = rng.choice([0x01, 0x05, 0x10, 0x12, 0x13, 0x13, 0x20, 0xFF])      # standard baudrate identifiers (effective rate differs from the number) and custom ones
        elif ty == 'f':
            rate = rng.choice([9600, 115200, 500000, 1000000])
        else:
            rate = rng.choice([123456, 500000, 0xFFFFFF, 0x11, 9600])
        if ct in (1, 2):
            return ('lc', ct, rate, ty)
        return ('lc', 3, None, 'f')
    if k == 'rc':
        return ('rc', rng.choice([0, 0x1234, 0xFF00, 0xFFFF]) if not bad else 0x10000, rng.choice([1, 2, 3, 0x7F]), odata())
    if k == 'td':
        return ('td', rng.choice([0, 1, 2, 0xFF]) if not bad else 0x100, odata())
    if k == 'te':
        return ('te', odata())
    if k == 'cl':
        return ('cl', rng.choice([0xFFFFFF, 0x123456, 0]) if not bad else 0x1000000,
                rng.choice([None, None, 3, 0, 0xFF]) if (std >= 2020 or (allow_invalid and rng.random() < 0.3)) else None)


def entry_frame(e, std=2020):
    """independent construction of the request frame of an entry (None if the arguments are rejected) — used to script replies"""
    k = e[0]
    try:
        if k == 'cs':
            return bytes([0x10, e[1]]) if 0 <= e[1] <= 0x7F else None
        if k == 'er':
            return bytes([0x11, e[1]]) if 0 <= e[1] <= 0x7F else None
        if k in ('rs', 'sk'):
            if not 1 <= e[1] <= 0x7E:
                return None
            lvl = e[1]
            sf = (lvl if lvl % 2 == 1 else lvl - 1) if k == 'rs' else (lvl if lvl % 2 == 0 else lvl + 1)
            return bytes([0x27, sf]) + e[2]
        if k == 'tp':
            return b'\x3e\x00'
        if k == 'cc':
            need = std >= 2013 and e[1] in (4, 5)
            if need != (e[3] is not None):
                return None
            return bytes([0x28, e[1], e[2]]) + (e[3].to_bytes(2, 'big') if e[3] is not None else b'')
        if k == 'at':
            if (e[2] is not None) != (e[1] == 4):
                return None
            return bytes([0x83, e[1]]) + (e[2] or b'')
        if k == 'cd':
            return bytes([0x85, e[1]]) + (e[2] or b'') if 0 <= e[1] <= 0x7F else None
        if k == 'lc':
            fixed = {9600, 19200, 38400, 57600, 115200, 125000, 250000, 500000, 1000000}
            ids = {1, 2, 3, 4, 5, 0x10, 0x11, 0x12, 0x13}
            ct, rate, ty = e[1], e[2], lc_eff_type(e[2], e[3])
            if ct in (1, 2):
                if rate is None or (ty == 'f' and rate not in fixed) or (ty == 'i' and not 0 <= rate <= 0xFF) or (ty == 's' and not 0 <= rate <= 0xFFFFFF):
                    return None
                if ct == 1 and ty == 's' and rate not in fixed:
                    return None
                if ct == 2 and ty == 'i' and rate not in ids:
                    return None
            elif rate is not None:
                return None
            return bytes([0x87, e[1]])   # data irrelevant for replies
        if k == 'rc':
            return bytes([0x31, e[2]]) + e[1].to_bytes(2, 'big') + (e[3] or b'') if 0 <= e[1] <= 0xFFFF else None
        if k == 'td':
            return bytes([0x36, e[1]]) + (e[2] or b'') if 0 <= e[1] <= 0xFF else None
        if k == 'te':
            return b'\x37' + (e[1] or b'')
        if k == 'cl':
            if not 0 <= e[1] <= 0xFFFFFF:
                return None
            if e[2] is not None and std < 2020:
                return None
            return b'\x14' + e[1].to_bytes(3, 'big') + (bytes([e[2]]) if e[2] is not None else b'')
    except Exception:
        return None


def good_reply_for(e, std, rng, p2=None):
    f = entry_frame(e, std)
    if f is None:
        f = bytes([SID[e[0]], 1, 0, 0, 0])
    if e[0] == 'cs':
        a, b = p2 if p2 else (rng.choice([125, 250, 1000, 8000]), rng.choice([25, 50, 100, 500]))
        if std >= 2013:
            return bytes([0x50, f[1]]) + a.to_bytes(2, 'big') + b.to_bytes(2, 'big')
        # 2006 edition: a manufacturer-specific parameter record of any length, four bytes included (not a timing record there)
        return bytes([0x50, f[1]]) + rng.choice([b'', b'', a.to_bytes(2, 'big') + b.to_bytes(2, 'big'), b'\x12\x34', b'\x00\x32\x01\xf4\x05'])
    if e[0] == 'lc':
        return bytes([0xC7, f[1]])
    return entries.good_reply(f, None, {'standard_version': std})


def rand_reply_schedule(rng, e, std, cfgp2=1024, kinds=None, p2=None):
    """arrivals for one call: mostly a good reply, sometimes negative / pending chains / silence / garbage / echo mismatch"""
    sid = SID[e[0]]
    kind = rng.choice(kinds or ['good'] * 6 + ['neg', 'pend_good', 'pend_neg', 'silence', 'invalid', 'badecho', 'wrongsvc', 'late', 'short'])
    good = good_reply_for(e, std, rng, p2)
    t = rng.choice([0, 1, 5, 100])
    if kind == 'good':
        return [(t, good)], kind
    if kind == 'neg':
        # any code but 0x78 ends the request (the busy / repeat / wait-style codes 0x21, 0x23, 0x24, 0x37, 0x7E, 0x7F included): exactly one frame is ever sent
        return [(t, bytes([0x7F, sid, rng.choice([0x10, 0x21, 0x21, 0x22, 0x23, 0x24, 0x31, 0x33, 0x37, 0x7E, 0x7F, 0x95, 0x00, rng.choice([c for c in range(256) if c != 0x78])])]))], kind
    if kind == 'pend_good':
        k = rng.randrange(1, 4)
        return [(t + 10 * i, bytes([0x7F, sid, 0x78])) for i in range(k)] + [(t + 10 * k, good)], kind
    if kind == 'pend_neg':
        return [(t, bytes([0x7F, sid, 0x78])), (t + 7, bytes([0x7F, sid, rng.choice([0x22, 0x21, 0x31, 0x10])]))], kind
    if kind == 'silence':
        return [], kind
    if kind == 'pend_silence':
        k = rng.randrange(1, 3)
        return [(t + 10 * i, bytes([0x7F, sid, 0x78])) for i in range(k)], kind
    if kind == 'invalid':
        return [(t, rng.choice([b'', bytes([0x7F]), bytes([0x7F, sid]), b'\x00\x01']))], kind
    if kind == 'badecho':
        g = bytearray(good)
        if len(g) > 1:
            g[1] ^= rng.choice([1, 2, 0x40])
        return [(t, bytes(g))], kind
    if kind == 'wrongsvc':
        return [(t, bytes([0x7E if sid != 0x3E else 0x51, 0x00]))], kind
    if kind == 'late':
        return [(cfgp2 + 1 + rng.randrange(50), good)], kind
    if kind == 'short':
        return [(t, good[:max(1, len(good) - rng.randrange(1, 3))])], kind
    raise ValueError(kind)


def gen_history(rng, focus, nops, hcfg):
    """well-nested random history.  focus in {'spr', 'timing', 'unlock', 'residue'} shifts the op mix."""
    ops = []
    meta = []          # per op: dict(kind=reply kind, ...)
    std = hcfg.std
    stack = []
    for _ in range(nops):
        r = rng.random()
        in_spr = 'spr' in stack
        if focus == 'spr' and r < 0.22 and 'spr' not in stack and len(stack) < 2:
            had_wait_block = any(o[0] == 'espr' and o[1] is True for o in ops)
            # a bare block right after a wait_nrc block is the interesting sequel: the flag must not carry over
            w = 'b' if (had_wait_block and rng.random() < 0.5) else rng.choice([True, True, False, False, 'b'])
            ops.append(('espr', w)); meta.append({}); stack.append('spr'); continue
        if focus in ('spr', 'residue') and r < 0.30 and 'ovr' not in stack and len(stack) < 2 and rng.random() < (0.5 if focus == 'spr' else 0.15):
            m = rng.choice(['i', 'a:ff', 'x:01', 'c:deadbeef', 'c:1101'])
            ops.append(('eovr', m)); meta.append({}); stack.append('ovr'); continue
        if stack and r < 0.45 and rng.random() < 0.5:
            top = stack.pop()
            ops.append(('xspr' if top == 'spr' else 'xovr', rng.choice(['normal', 'exc']))); meta.append({}); continue
        if focus == 'timing' and r < 0.08:
            std = rng.choice([2006, 2013, 2020]); ops.append(('std', std)); meta.append({}); continue
        if focus == 'timing' and r < 0.14:
            ops.append(('ust', rng.random() < 0.6)); meta.append({}); continue
        if focus in ('unlock', 'residue') and r < 0.10:
            ops.append(('sw', tuple(rng.random() < 0.6 for _ in range(3)))); meta.append({}); continue
        if focus == 'residue' and r < 0.35:
            ops.append(('stray', rng.choice([b'\x51\x01', b'\x7e\x00', b'\x7f\x11\x22', b'\x76\x01', b'\x50\x03\x00\x19\x00\xc8', b'\x67\x03\x01\x02', bytes(rng.randrange(256) for _ in range(3))])))
            meta.append({}); continue
        if focus == 'unlock' and 0.6 <= r < 0.72:
            # a frame nobody asked for sits in the receive queue when the next call starts - a seed reply delivered twice, a late key acknowledgement
            ops.append(('stray', rng.choice([b'\x67\x01\x11\x22', b'\x67\x03\xAA\xBB\xCC\xDD', b'\x67\x05\x01', b'\x67\x7d\x09\x08', b'\x67\x11\x01\x02\x03\x04', b'\x67\x02', b'\x67\x04', b'\x7f\x27\x35',
                                              b'\x67\x3f\x10\x20'])))
            meta.append({}); continue
        if focus == 'unlock' and r < 0.6 or (focus != 'unlock' and r > 0.93):
            level = rng.choice([1, 2, 3, 4, 5, 0x11, 0x7D, 0x7E, 0x3F]) if rng.random() < 0.92 else rng.choice([0, 0x7F])
            sp = rng.choice([b'', b'', b'\x01\x02'])
            seedsf = level if level % 2 == 1 else level - 1
            skind = rng.choice(['good'] * 5 + ['zero', 'zero1', 'neg', 'silence', 'invalid', 'badecho', 'badecho', 'empty_seed', 'pend_good'])
            seed = bytes(rng.randrange(1, 256) for _ in range(rng.choice([1, 2, 4, 4, 8, 40])))
            a1 = {'good': [(1, bytes([0x67, seedsf & 0xFF]) + seed)], 'zero': [(1, bytes([0x67, seedsf & 0xFF]) + bytes(len(seed)))],
                  'zero1': [(1, bytes([0x67, seedsf & 0xFF, 0]))], 'neg': [(1, bytes([0x7F, 0x27, rng.choice([0x22, 0x35, 0x37])]))], 'silence': [],
                  'invalid': [(1, b'\x7f\x27')],
                  # another level, the key sub-function of the same level, the requested level with bit 7 set (the suppress bit is no part of an echo)
                  'badecho': [(1, bytes([0x67, rng.choice([(seedsf + 2) & 0x7F, (seedsf + 1) & 0x7F, (seedsf | 0x80) & 0xFF, (seedsf | 0x80) & 0xFF, (seedsf ^ 0x40) & 0xFF])]) + seed)], 'empty_seed': [(1, bytes([0x67, seedsf & 0xFF]))],
                  'pend_good': [(1, b'\x7f\x27\x78'), (4, bytes([0x67, seedsf & 0xFF]) + seed)]}[skind]
            kkind = rng.choice(['good'] * 4 + ['neg', 'silence', 'badecho'])
            a2 = {'good': [(1, bytes([0x67, (seedsf + 1) & 0xFF]))], 'neg': [(1, b'\x7f\x27\x35')], 'silence': [], 'badecho': [(1, bytes([0x67, seedsf & 0xFF]))]}[kkind]
            ops.append(('unlock', level, sp, a1, a2)); meta.append({'skind': skind, 'kkind': kkind, 'seed': seed}); continue
        e = rand_entry(rng, std)
        if focus == 'timing' and rng.random() < 0.45:
            e = ('cs', rng.choice([1, 2, 3, 0x40]))
        p2 = None
        if e[0] == 'cs':
            p2 = (125 * rng.choice([0, 1, 2, 8, 40, 64, 524]), 25 * rng.choice([0, 1, 4, 20, 200, 2621]))
        kinds = None
        if focus == 'timing' and e[0] != 'cs':
            kinds = ['good', 'good', 'pend_good', 'pend_good', 'silence', 'late', 'neg']
        if focus == 'spr' and in_spr:
            kinds = ['good', 'good', 'silence', 'neg', 'pend_good', 'pend_neg', 'pend_silence', 'invalid', 'badecho']
        arr, kind = rand_reply_schedule(rng, e, std, hcfg.p2, kinds, p2)
        ops.append(('call', e, arr)); meta.append({'kind': kind, 'p2': p2})
    while stack:
        top = stack.pop()
        ops.append(('xspr' if top == 'spr' else 'xovr', rng.choice(['normal', 'exc']))); meta.append({})
    return ops, meta


def corpus_histories():
    """fixed histories that run before the random ones (so that the sequences past changes needed do not depend on what a random stream draws):
    a block whose flags must not carry over to the next block, blocks left by an exception, stray frames between two calls, a failed call followed by
    an ordinary one, a session change followed by configuration changes"""
    tp = ('tp',)
    good = lambda: ('call', tp, [(1, b'\x7e\x00')])
    neg = lambda: ('call', tp, [(1, b'\x7f\x3e\x22')])
    silent = lambda: ('call', tp, [])
    pend_silence = lambda: ('call', tp, [(1, b'\x7f\x3e\x78')])
    g, n_, s_, ps = {'kind': 'good', 'p2': None}, {'kind': 'neg', 'p2': None}, {'kind': 'silence', 'p2': None}, {'kind': 'pend_silence', 'p2': None}
    er = lambda: ('call', ('er', 1), [(1, b'\x51\x01')])
    hs = [
        # wait_nrc block, then a bare block: the bare block neither reads nor raises
        ([('espr', True), good(), ('xspr', 'normal'), ('espr', 'b'), neg(), good(), ('xspr', 'normal'), good()], [{}, g, {}, {}, n_, g, {}, g]),
        ([('espr', True), neg(), ('xspr', 'exc'), ('espr', 'b'), neg(), ('xspr', 'normal'), neg()], [{}, n_, {}, {}, n_, {}, n_]),
        # a block left by an exception: the next call outside is an ordinary call
        ([('espr', False), good(), ('xspr', 'exc'), good(), er(), neg()], [{}, g, {}, g, g, n_]),
        ([('espr', True), pend_silence(), silent(), ('xspr', 'exc'), er(), silent()], [{}, ps, s_, {}, g, s_]),
        ([('eovr', 'c:1101'), silent(), ('xovr', 'exc'), good(), er()], [{}, s_, {}, g, g]),
        ([('espr', True), ('eovr', 'a:ff'), neg(), ('xovr', 'exc'), ('xspr', 'exc'), good(), neg()], [{}, {}, n_, {}, {}, g, n_]),
        # stray frames between two calls, after a success and after a failure
        ([good(), ('stray', b'\x7e\x00'), silent(), ('stray', b'\x7f\x3e\x22'), good()], [g, {}, s_, {}, g]),
        ([silent(), ('stray', b'\x7e\x00'), ('stray', b'\x51\x01'), silent(), good()], [s_, {}, {}, s_, g]),
        ([neg(), ('stray', b'\x7e\x00'), silent(), er(), ('stray', b'\x51\x01'), ('call', ('er', 1), [])], [n_, {}, s_, g, {}, s_]),
        # a failed call, then switches off and a refused reply
        ([silent(), ('sw', (False, False, False)), neg(), ('call', tp, [(1, b'\x7f\x3e')]), ('call', tp, [(1, b'\x51\x01')]), good()],
         [s_, {}, n_, {'kind': 'invalid', 'p2': None}, {'kind': 'wrongsvc', 'p2': None}, g]),
    ]
    return hs


def all_in_time(arr, before_timing, hcfg):
    """do all scripted frames arrive inside the window of the wait they answer? (independent recomputation:
    first window min(P2, rt), later windows min(P2*, rt - now))"""
    tick = stub.TICK
    p2 = before_timing[0] / tick if before_timing[0] is not None else hcfg.p2
    p2s = before_timing[1] / tick if before_timing[1] is not None else hcfg.p2s
    now, single = 0, p2
    for (t, _) in arr:
        w = single if hcfg.rt is None else min(single, max(hcfg.rt - now, 0))
        if t > now + w:
            return False
        now = max(now, t)
        single = p2s
    return True
