"""helpers to drive the real udsoncan Client on the stub connection and to canonicalise what it did"""
import re
import struct
from . import core, stub
from .core import hx, ohx, onat, b01
from .stub import TICK, fmt_log, fmt_tick

import udsoncan
from udsoncan import Request, Response, services
from udsoncan.client import Client
from udsoncan.exceptions import (NegativeResponseException, InvalidResponseException, UnexpectedResponseException,
                                 TimeoutException, ConfigError)
from udsoncan.configs import default_client_config
from udsoncan.BaseService import BaseService

CLOCK = stub.install_clock()


def show_resp(r):
    return 'valid=%s svc=%s positive=%s code=%s name=%s reason=%s data=%s' % (
        b01(r.valid), r.service.__name__ if r.service is not None else '-', b01(r.positive), onat(r.code),
        r.code_name if r.code_name else '-', b01(bool(r.invalid_reason)), hx(r.data))


def exc_tag(e):
    """PyErr.tag of the Lean model"""
    if isinstance(e, NegativeResponseException):
        return 'negative:%d' % e.response.code
    if isinstance(e, InvalidResponseException):
        return 'invalid'
    if isinstance(e, UnexpectedResponseException):
        return 'unexpected'
    if isinstance(e, TimeoutException):
        return 'timeout'
    if isinstance(e, ConfigError):
        return 'config'
    if isinstance(e, NotImplementedError):
        return 'notimpl'
    if isinstance(e, struct.error):
        return 'struct.error'
    return type(e).__name__


DOCUMENTED = ('negative', 'invalid', 'unexpected', 'timeout', 'config', 'notimpl')


def timeout_kind(e):
    m = re.search(r'(P2\* timeout|P2 timeout|Global request timeout)', str(e))
    if not m:
        return '?'
    return {'P2* timeout': 'P2*', 'P2 timeout': 'P2', 'Global request timeout': 'Global'}[m.group(1)]


class Cfg:
    """send-level configuration in ticks"""

    def __init__(self, rt=None, p2=1024, p2s=5120, cb=False, tp2=None, tp2s=None, spr=False, wnrc=False, ovr='-', std=2020,
                 exc=(True, True, True)):
        self.rt, self.p2, self.p2s, self.cb, self.tp2, self.tp2s = rt, p2, p2s, cb, tp2, tp2s
        self.spr, self.wnrc, self.ovr, self.std, self.exc = spr, wnrc, ovr, std, exc

    def line(self):
        return 'rt=%s p2=%d p2s=%d cb=%s tp2=%s tp2s=%s spr=%s wnrc=%s ovr=%s' % (
            onat(self.rt), self.p2, self.p2s, b01(self.cb), onat(self.tp2), onat(self.tp2s), b01(self.spr), b01(self.wnrc), self.ovr)


def modifier_of(s):
    if s == '-':
        return None
    if s == 'i':
        return lambda p: p
    k, h = s.split(':')
    b = bytes.fromhex(h)
    if k == 'c':
        return b
    if k == 'a':
        return lambda p: p + b
    if k == 'x':
        return lambda p: (bytes([p[0] ^ b[0]]) + p[1:]) if p else p
    raise ValueError(s)


class _Drop(__import__('logging').Handler):
    def emit(self, record):
        record.getMessage()


def _debug_loggers():
    import logging
    for name in ('UdsClient[dbg]', 'Connection[stubdbg]'):
        lg = logging.getLogger(name)
        lg.setLevel(logging.DEBUG)
        lg.propagate = False
        if not lg.handlers:
            lg.addHandler(_Drop())


_debug_loggers()
_made = {'n': 0}


def make_client(cfg, extra=None):
    conn = stub.StubConn(CLOCK)
    config = dict(default_client_config)
    config['request_timeout'] = None if cfg.rt is None else cfg.rt * TICK
    config['p2_timeout'] = cfg.p2 * TICK
    config['p2_star_timeout'] = cfg.p2s * TICK
    config['standard_version'] = cfg.std
    config['exception_on_negative_response'], config['exception_on_invalid_response'], config['exception_on_unexpected_response'] = cfg.exc
    if cfg.cb:
        config['nrc78_callback'] = lambda: conn.log.append(('callback',))
    if extra:
        config.update(extra)
    # every second client logs at DEBUG level into a handler that formats each record and drops it (an application that traces its diagnostics);
    # the others keep the level the process has.  What a client does must not depend on it.
    _made['n'] += 1
    if _made['n'] % 2 == 0 and 'logger_name' not in config:
        config['logger_name'] = 'dbg'
    c = Client(conn, config=config)
    if cfg.tp2 is not None:
        c.session_timing.p2_server_max = cfg.tp2 * TICK
    if cfg.tp2s is not None:
        c.session_timing.p2_star_server_max = cfg.tp2s * TICK
    return c, conn


class Ctxs:
    """enter the suppress / override context managers according to cfg"""

    def __init__(self, client, cfg):
        self.client, self.cfg, self.stack = client, cfg, []

    def __enter__(self):
        if self.cfg.spr:
            cm = self.client.suppress_positive_response(wait_nrc=self.cfg.wnrc)
            cm.__enter__()
            self.stack.append(cm)
        m = modifier_of(self.cfg.ovr)
        if m is not None:
            cm = self.client.payload_override(m)
            cm.__enter__()
            self.stack.append(cm)
        return self

    def __exit__(self, *a):
        for cm in reversed(self.stack):
            cm.__exit__(None, None, None)


def arrivals_str(arr):
    return ','.join('%d:%s' % (t, p.hex()) for t, p in arr) if arr else '-'


def observe(conn, fn):
    """run fn(); returns 'log=... end=... out=...' in the driver's format"""
    conn.log = []
    conn.t_send = None
    t_call = CLOCK.now
    try:
        r = fn()
        if r is None:
            out = 'none'
        else:
            out = 'resp:' + show_resp(r)
    except Exception as e:  # noqa
        tag = exc_tag(e)
        out = 'raise:' + tag
        if tag == 'timeout':
            out += ':' + timeout_kind(e)
        resp = getattr(e, 'response', None)
        if resp is not None and tag.split(':')[0] in ('negative', 'invalid', 'unexpected'):
            out += ' rp=' + show_resp(resp)
    t0 = conn.t_send if conn.t_send is not None else t_call
    return 'log=%s end=%s out=%s' % (fmt_log(conn.log), fmt_tick((CLOCK.now - t0) / TICK), out)


def services_by_name():
    from .extract import all_subclasses
    return {c.__name__: c for c in all_subclasses(BaseService)}


def observe_outer(conn, fn):
    """run a decorated client call; returns (how, verdict, flags-string, payload, exception/None, result)"""
    conn.log = []
    conn.t_send = None
    try:
        r = fn()
        how, exc = 'ret', None
    except Exception as e:  # noqa
        how, exc, r = 'exc', e, getattr(e, 'response', None)
    if how == 'exc':
        tag = exc_tag(exc)
        verdict = tag if tag.split(':')[0] in ('negative', 'invalid', 'unexpected') else 'other:' + tag
        if tag.split(':')[0] not in ('negative', 'invalid', 'unexpected'):
            r = None
    else:
        if r is None:
            verdict = 'none'
        elif not isinstance(r, Response):
            verdict = 'ok'
        elif r.unexpected:
            verdict = 'unexpected'
        elif not r.valid:
            verdict = 'invalid'
        elif not r.positive:
            verdict = 'negative:%d' % (r.code if r.code is not None else 0)
        else:
            verdict = 'ok'
    if isinstance(r, Response):
        flags = 'p%sv%su%s code=%s data=%s' % (b01(r.positive), b01(r.valid), b01(r.unexpected), onat(r.code), hx(r.data))
    else:
        flags = '-'
    return how, verdict, flags, (r.original_payload if isinstance(r, Response) else None), exc, r


def frame_to_req(frame, svcs_by_sid):
    """(svc name, sf, data) of a frame the client sent, for the driver's `send` commands"""
    svc = svcs_by_sid[frame[0]]
    if svc.use_subfunction():
        return svc.__name__, frame[1] & 0x7F, frame[2:]
    return svc.__name__, None, frame[1:]


def documented_defaults():
    """{key: literal} for every configuration key whose default doc/source/udsoncan/client.rst states as "Default value of|is X" (read on every run; {} if the document is not there)"""
    import os
    from . import core
    path = os.path.join(core.REPO, 'doc', 'source', 'udsoncan', 'client.rst')
    out = {}
    try:
        text = open(path).read()
    except OSError:
        return out
    for m in re.finditer(r'\.\. attribute:: (\w+)\n(.*?)(?=\n\.\. (?:attribute|_config|note|autoclass)|\Z)', text, re.S):
        d = re.search(r'[Dd]efault value (?:of|is)\s*`*([^\s`,]+?)[.]?(?:\s|$)', m.group(2))
        if d:
            v = d.group(1)
            out[m.group(1)] = {'True': True, 'False': False, 'None': None}.get(v, None) if v in ('True', 'False', 'None') else (float(v) if re.fullmatch(r'[0-9.]+', v) else v)
    return out
