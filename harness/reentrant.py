"""Re-entrancy: the pending-response callback (`nrc78_callback`) uses the client it belongs to - the documentation suggests sending TesterPresent from it.
Whatever the nested request does, the request in flight goes on as if the callback had done nothing: same frames, same outcome (value, negative code,
unexpected / invalid / timeout), same instant, one callback per 0x78.  Metamorphic: every scenario runs twice on a fresh client, once with a callback that
only counts and once with a callback that sends a request through the same client, and the two runs are compared.  (The nested exchange takes no virtual
time and its reply cannot be confused with the outer one, so every difference is the library's.)"""
from . import core
from .core import Suite

OUTER = [
    ('ecu_reset(1)', lambda c: c.ecu_reset(1), 0x11, bytes([0x51, 0x01])),
    ('routine_control(0x1234, 1)', lambda c: c.routine_control(0x1234, 1), 0x31, bytes([0x71, 0x01, 0x12, 0x34])),
    ('clear_dtc(0xFFFFFF)', lambda c: c.clear_dtc(0xFFFFFF), 0x14, bytes([0x54])),
    ('transfer_data(1, 01)', lambda c: c.transfer_data(1, b'\x01'), 0x36, bytes([0x76, 0x01])),
    ('read_data_by_identifier([0x1234])', lambda c: c.read_data_by_identifier([0x1234]), 0x22, bytes([0x62, 0x12, 0x34, 0xAB, 0xCD])),
    ('change_session(3)', lambda c: c.change_session(3), 0x10, bytes([0x50, 0x03, 0x00, 0x32, 0x01, 0xF4])),
]
INNER = [
    ('tester_present()', lambda c: c.tester_present(), b'\x3e', b'\x7e\x00', b'\x7f\x3e\x22'),
    ('read_data_by_identifier([0x5678])', lambda c: c.read_data_by_identifier([0x5678]), b'\x22', b'\x62\x56\x78\x01', b'\x7f\x22\x31'),
]


def run(outer, inner, block, sched, inner_kind, sw, use_client, rt):
    from . import clientlib as cl
    cfg = cl.Cfg(rt=rt, p2=20, p2s=60, exc=sw)
    state = {'cb': 0, 'inner': [], 'frames': []}
    client, conn = cl.make_client(cfg, extra={'data_identifiers': {0x1234: '>H', 0x5678: 'B'}})
    conn.inflight_survives_flush = True
    oname, ocall, osid, ogood = outer
    iname, icall, ifirst, igood, ineg = inner

    def cb():
        state['cb'] += 1
        if use_client:
            try:
                r = icall(client)
                state['inner'].append('none' if r is None else ('ok' if getattr(r, 'positive', True) else 'returned-negative'))
            except Exception as e:  # noqa
                state['inner'].append(cl.exc_tag(e))
    client.config['nrc78_callback'] = cb
    client.refresh_config() if hasattr(client, 'refresh_config') else None

    def responder(p):
        state['frames'].append(bytes(p))
        if p[:1] == ifirst and p[0] != osid:
            suppressed = len(p) > 1 and p[0] == 0x3E and (p[1] & 0x80)
            if suppressed and (inner_kind == 'good' or block is False):
                return []           # a server does not answer a suppressed request positively; a negative reply nobody waits for is left out of the scenario
            return [(0, igood if inner_kind == 'good' else ineg)]          # the nested exchange takes no time
        if len([f for f in state['frames'] if f[0] == osid]) > 1:
            return []
        return sched(osid, ogood)
    conn.responder = responder
    t0 = cl.CLOCK.now
    cms = []
    if block is not None:
        cms.append(client.suppress_positive_response(wait_nrc=block))
    for cm in cms:
        cm.__enter__()
    try:
        how, verdict, flags, payload, exc, r = cl.observe_outer(conn, lambda: ocall(client))
    finally:
        for cm in cms:
            cm.__exit__(None, None, None)
    end = round((cl.CLOCK.now - t0) / cl.TICK, 3)
    timing = None
    try:
        t = client.get_session_timing()
        timing = (t.p2_server_max, t.p2_star_server_max)
    except Exception:  # noqa
        pass
    outer_frames = [f.hex() for f in state['frames'] if f[0] == osid]
    return {'how': how, 'verdict': verdict, 'flags': flags, 'end': end, 'callbacks': state['cb'], 'outer_frames': outer_frames, 'timing': timing}, state


SCHEDULES = {
    # name: (function(sid, good) -> arrivals, overall timeout in ticks)
    'pending x2 then good': (lambda sid, good: [(10, bytes([0x7F, sid, 0x78])), (30, bytes([0x7F, sid, 0x78])), (50, good)], 2000),
    'pending then negative 0x22': (lambda sid, good: [(10, bytes([0x7F, sid, 0x78])), (40, bytes([0x7F, sid, 0x22]))], 2000),
    'pending x3 then negative 0x00': (lambda sid, good: [(5, bytes([0x7F, sid, 0x78])), (25, bytes([0x7F, sid, 0x78])), (45, bytes([0x7F, sid, 0x78])), (65, bytes([0x7F, sid, 0x00]))], 2000),
    'pending then the reply of the nested service': (lambda sid, good: [(10, bytes([0x7F, sid, 0x78])), (40, bytes([0x7E, 0x01, 0x12, 0x34]))], 2000),
    'pending then a reply shaped like the nested read': (lambda sid, good: [(10, bytes([0x7F, sid, 0x78])), (40, bytes([0x62, 0x12, 0x34, 0xAB, 0xCD]))], 2000),
    'pending every 10 ticks, good after the overall deadline': (lambda sid, good: [(10 * i, bytes([0x7F, sid, 0x78])) for i in range(1, 12)] + [(115, good)], 45),
    'pending then silence': (lambda sid, good: [(10, bytes([0x7F, sid, 0x78]))], 2000),
    'pending x2 then invalid': (lambda sid, good: [(10, bytes([0x7F, sid, 0x78])), (20, bytes([0x7F, sid, 0x78])), (40, bytes([0x7F, sid]))], 2000),
}


def suite_reentrant(ctx, focus=None):
    s = Suite('reentrant')
    rng = ctx.rng
    combos = []
    for outer in OUTER:
        for inner in INNER:
            for block in (None, True, False):
                for sname in SCHEDULES:
                    combos.append((outer, inner, block, sname))
    if not ctx.thorough:
        # every outer call x inner call x block once with a schedule in rotation, so that all schedules and all combinations of two dimensions occur in every run
        sel = []
        names = list(SCHEDULES)
        i = 0
        for outer in OUTER:
            for inner in INNER:
                for block in (None, True, False):
                    for k in range(3):
                        sel.append((outer, inner, block, names[(i + k * 3) % len(names)]))
                    i += 1
        combos = sel
    for (outer, inner, block, sname) in combos:
        if outer[2] == 0x22 and inner[2] == b'\x22':
            continue            # the nested request would be a request of the outer service: the stub could not tell the two apart
        if block is True and inner[2] == b'\x3e':
            continue            # a nested suppressed request that waits for an NRC spends its own P2 reading the connection: it would eat the outer frames
        sched, rt = SCHEDULES[sname]
        inner_kind = rng.choice(['good', 'good', 'negative'])
        sw = rng.choice([(True, True, True), (False, False, False), (False, True, True), (True, True, False)])
        import signal

        class _Hang(BaseException):
            pass

        def _alarm(signum, frame):
            raise _Hang()
        old_handler = signal.signal(signal.SIGALRM, _alarm)
        hung = False
        try:
            signal.setitimer(signal.ITIMER_REAL, 8, 1)      # fires again every second: library code that swallows the first interruption is interrupted again
            base, _ = run(outer, inner, block, sched, inner_kind, sw, False, rt)
            got, st = run(outer, inner, block, sched, inner_kind, sw, True, rt)
        except _Hang:
            hung = True
        finally:
            signal.setitimer(signal.ITIMER_REAL, 0)
            signal.signal(signal.SIGALRM, old_handler)
        s.evaluations += 1
        if hung:
            s.fail({'site': 'nrc78_callback', 'class': 'hang', 'input': '%s; nrc78_callback calls %s; replies: %s' % (outer[0], inner[0], sname),
                    'observed': 'the call did not come back within 8 s of real time (virtual clock: every wait is instantaneous)', 'required': 'a result or a documented exception'})
            continue
        label = '%s; nrc78_callback calls %s (answered %s); %s; switches %s; replies: %s' % (
            outer[0], inner[0], inner_kind, 'no suppress block' if block is None else 'inside suppress_positive_response(wait_nrc=%s)' % block, sw, sname)
        s.distinct.add(label)
        s.count('%s:%s' % (sname, got['verdict'].split(':')[0]))
        if got != base:
            diff = {k: (base[k], got[k]) for k in base if base[k] != got[k]}
            s.fail({'site': 'nrc78_callback', 'input': label, 'observed': 'with a callback that uses the client: %s' % {k: v[1] for k, v in diff.items()},
                    'required': 'as with a callback that does nothing: %s' % {k: v[0] for k, v in diff.items()}})
            continue
        # the nested calls themselves: handled like any other call of theirs
        has_sf = inner[2] == b'\x3e'
        for r_ in st['inner']:
            if block is not None and has_sf:
                want = ('none',) if not block else ('none', 'negative:34', 'returned-negative') if inner_kind == 'negative' else ('none',)
            elif inner_kind == 'good':
                want = ('ok',)
            else:
                want = ('negative:34', 'negative:49') if sw[0] else ('returned-negative',)
            if r_ not in want:
                s.fail({'site': 'nrc78_callback', 'input': label, 'class': 'the nested call', 'observed': r_, 'required': ' / '.join(want)})
                break
    s.sample({'scenario': 'ecu_reset(1) answered 7F1178, 7F1178, 5101; callback sends tester_present()', 'required': 'identical to a callback that does nothing'})
    return s
