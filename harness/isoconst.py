"""The named sub-function constants of the library against the values ISO 14229-1 assigns (Spec.isoSubfn, obtained from the Lean driver).

A caller writes `ECUReset.ResetType.hardReset`, not 1: the constant is how the argument is given (C01), and get_name must answer the standard's
value with the standard's name (C20).  The code may define more constants than the standard's table lists; it may not move or drop one of them."""
from . import core
from .core import Suite


def iso_tables():
    """[(qualified class name, [(name, int | (lo, hi))])] as the Spec has them"""
    out = []
    for t in core.drv_batch(['spec.iso'])[0].split(';'):
        cls, ms = t.split('|')
        mem = []
        for m in ms.split(','):
            f = m.split(':')
            mem.append((f[0], int(f[2]) if f[1] == 'e' else (int(f[2]), int(f[3]))))
        out.append((cls, mem))
    return out


def resolve(qual):
    import udsoncan.services as services
    if qual == 'Dtc.Format':
        from udsoncan.common.dtc import Dtc
        return Dtc.Format
    if qual == 'Dtc.FunctionalGroupIdentifiers':
        from udsoncan.common.dtc import Dtc
        return getattr(Dtc, 'FunctionalGroupIdentifiers', None)
    obj = services
    for part in qual.split('.'):
        obj = getattr(obj, part, None)
        if obj is None:
            return None
    return obj


def frames_for(qual, value):
    """a client call that takes the constant as its argument: (callable(client), index of the byte that must carry the value)"""
    from udsoncan import Baudrate
    if qual == 'DiagnosticSessionControl.Session':
        return (lambda c: c.change_session(value)), 1
    if qual == 'ECUReset.ResetType':
        return (lambda c: c.ecu_reset(value)), 1
    if qual == 'CommunicationControl.ControlType':
        return (lambda c: c.communication_control(value, 1, node_id=5 if value in (4, 5) else None)), 1
    if qual == 'AccessTimingParameter.AccessType':
        return (lambda c: c.access_timing_parameter(value, b'\x01\x02' if value == 4 else None)), 1
    if qual == 'ControlDTCSetting.SettingType':
        return (lambda c: c.control_dtc_setting(value)), 1
    if qual == 'RoutineControl.ControlType':
        return (lambda c: c.routine_control(0x1234, value)), 1
    if qual == 'LinkControl.ControlType':
        br = {1: Baudrate(115200, baudtype=Baudrate.Type.Fixed), 2: Baudrate(123456, baudtype=Baudrate.Type.Specific)}.get(value)
        return (lambda c: c.link_control(value, br)), 1
    return None, None


def suite_iso(ctx, with_frames=False):
    from . import clientlib
    s = Suite('iso_consts')
    s.exhaustive = True
    for qual, members in iso_tables():
        cls = resolve(qual)
        if cls is None:
            s.fail({'site': 'iso constant', 'input': qual, 'observed': 'no such class', 'required': 'the sub-function table of the standard'})
            continue
        s.count('tables')
        for name, want in members:
            if with_frames and not isinstance(want, int):
                continue            # a range constant only names values (C20); it is not an argument
            s.evaluations += 1
            s.distinct.add('%s.%s' % (qual, name))
            have = getattr(cls, name, None)
            if isinstance(have, tuple):
                have = tuple(have)
            if have != want or isinstance(have, bool):
                s.fail({'site': 'iso constant', 'input': '%s.%s' % (qual, name), 'observed': repr(have),
                        'required': 'ISO 14229-1 value ' + (('0x%02X' % want) if isinstance(want, int) else '0x%02X..0x%02X' % want)})
                continue
            values = [want] if isinstance(want, int) else list(range(want[0], want[1] + 1))
            if not hasattr(cls, 'get_name'):
                values = []         # a plain table of constants (no lookup)
            for v in values:
                s.evaluations += 1
                try:
                    got = cls.get_name(v)
                except Exception as e:  # noqa
                    got = 'raised %s' % type(e).__name__
                if got != name and not (qual == 'Dtc.Format' and getattr(cls, str(got), None) == v):     # two standard names for format 0
                    s.fail({'site': 'iso name', 'input': '%s.get_name(0x%02X)' % (qual, v), 'observed': got, 'required': name})
            if with_frames:
                for v in ([want] if isinstance(want, int) else [want[0], want[1]]):
                    fn, idx = frames_for(qual, getattr(cls, name) if isinstance(want, int) else v)
                    if fn is None:
                        continue
                    client, conn = clientlib.make_client(clientlib.Cfg(rt=64, p2=32, p2s=32))
                    try:
                        fn(client)
                    except Exception:  # noqa   (nobody answers: the call times out after the frame went out)
                        pass
                    sends = [op[1] for op in conn.log if op[0] == 'send']
                    s.evaluations += 1
                    s.count('frames')
                    if len(sends) != 1 or len(sends[0]) <= idx or sends[0][idx] != v:
                        s.fail({'site': 'iso frame', 'input': 'client call with %s.%s' % (qual, name), 'observed': [x.hex() for x in sends],
                                'required': 'one frame whose byte %d is the ISO value 0x%02X' % (idx, v)})
    s.sample({'table': 'ECUReset.ResetType', 'hardReset': getattr(resolve('ECUReset.ResetType'), 'hardReset', None)})
    return s
