"""Stub connection + exact virtual clock for driving the real Client deterministically (no source hooks).

1 tick = 2**-10 s, so every float operation send_request performs on these times is exact.
The connection contract (stated in the Lean model too): a wait of tau started at `now` returns the first
not-yet-consumed frame whose arrival is <= now + tau (at max(now, arrival)); else it times out at now + tau.
"""
import sys
from . import core

sys.path.insert(0, core.REPO)
import udsoncan  # noqa: E402
import udsoncan.client as uc  # noqa: E402
from udsoncan.connections import BaseConnection  # noqa: E402
from udsoncan.exceptions import TimeoutException  # noqa: E402

TICK = 2.0 ** -10


class Clock:
    def __init__(self):
        self.now = 1000.0      # seconds
        self.wall_reads = 0

    def monotonic(self):
        return self.now

    def time(self):
        # the wall clock is not the monotonic clock: it is stepped (NTP, an operator, DST on a badly configured host) while requests are in flight -
        # here by +2 h / -1 h between any two readings.  Durations the library measures must not depend on it.
        self.wall_reads += 1
        return 1.6e9 + self.now + (7200.0 if self.wall_reads % 2 else -3600.0)

    def __getattr__(self, name):  # anything else the client might look up on `time`
        import time as _t
        return getattr(_t, name)


class Runaway(RuntimeError):
    """raised by the stub connection when one request is waited for thousands of times"""


class StubConn(BaseConnection):
    """records flush/send/wait; frames are (arrival_tick_after_send, payload)"""
    made = 0

    def __init__(self, clock):
        super().__init__('stub' if StubConn.made % 2 else 'stubdbg')        # every second one logs at DEBUG level (clientlib configures the logger)
        self.clock = clock
        self.opened = True
        self.log = []
        self.stale = []         # frames already in the rx queue
        self.script = []        # arrivals for the *next* send: list of (ticks after send, payload)
        self.pending = []       # absolute (time, payload)
        self.t_send = None
        self.fail_send = None   # exception to raise from send
        self.waits_since_send = 0
        self.send_delay = 0     # ticks the transport blocks inside send(); windows are measured from its return
        self.responder = None   # callable(payload) -> list of (ticks, payload) scripted for this send
        self.open_calls = 0
        self.close_calls = 0
        # how this transport reports that nothing arrived within the timeout: by raising TimeoutException, or - every third connection the harness makes - by
        # returning None (the documented alternative: `specific_wait_frame` returns "bytes or None"; some of the library's own connections do).  The client
        # must treat both alike, so no suite needs to know which one it got.
        StubConn.made += 1
        self.none_on_timeout = StubConn.made % 3 == 0
        self.inflight_survives_flush = False   # a flush can only drop what has arrived: frames still on their way stay (used where the harness controls idle time)

    def open(self):
        self.opened = True
        self.open_calls += 1
        return self

    def close(self):
        self.opened = False
        self.close_calls += 1

    def is_open(self):
        return self.opened

    def empty_rxqueue(self):
        self.log.append(('flush',))
        self.stale = []
        self.pending = [(t, p) for t, p in self.pending if t > self.clock.now] if self.inflight_survives_flush else []

    def specific_send(self, payload):
        self.log.append(('send', bytes(payload)))
        self.waits_since_send = 0
        if self.fail_send is not None:
            raise self.fail_send
        self.clock.now += self.send_delay * TICK
        self.t_send = self.clock.now
        if self.responder is not None:
            self.script = list(self.responder(bytes(payload)))
        # frames of an earlier exchange that were never consumed nor flushed are still in the transport's queue: those that have arrived by
        # now are delivered first (a client that flushed before sending has none)
        leftover = self.pending
        self.stale = self.stale + [p for t, p in leftover if t <= self.clock.now]
        self.pending = [(t, p) for t, p in leftover if t > self.clock.now] + [(self.t_send + t * TICK, p) for t, p in self.script]
        self.pending.sort(key=lambda x: x[0])
        self.script = []

    def specific_wait_frame(self, timeout=2):
        t0 = self.t_send if self.t_send is not None else self.clock.now
        self.waits_since_send += 1
        if self.waits_since_send > 3000:
            # no request of any suite needs more than a few dozen waits: a client that keeps waiting (virtual time: every wait returns at once) would
            # never come back.  The call is ended here and shows up as an outcome no oracle accepts.
            raise Runaway('the client waited %d times for one request without ending it (last timeout %r)' % (self.waits_since_send, timeout))
        self.log.append(('wait', (self.clock.now - t0) / TICK, timeout / TICK))
        if self.stale:
            return self.stale.pop(0)
        if self.pending and self.pending[0][0] <= self.clock.now + timeout:
            t, p = self.pending.pop(0)
            self.clock.now = max(self.clock.now, t)
            return p
        self.clock.now += timeout
        if self.none_on_timeout:
            return None
        raise TimeoutException('stub timeout')


def install_clock():
    clk = Clock()
    uc.time = clk
    return clk


def fmt_tick(x):
    """ticks as integer string when exact, else repr (a non-integer shows up as a divergence)"""
    if isinstance(x, float) and x == int(x):
        return str(int(x))
    return repr(x)


def fmt_log(log):
    out = []
    for op in log:
        if op[0] == 'flush':
            out.append('F')
        elif op[0] == 'send':
            out.append('S:' + core.hx(op[1]))
        elif op[0] == 'wait':
            out.append('W:%s:%s' % (fmt_tick(op[1]), fmt_tick(op[2])))
        elif op[0] == 'callback':
            out.append('C')
    return ','.join(out) if out else '-'
