"""Stub connection + exact virtual clock for driving the real Client deterministically (no source hooks).

1 tick = 2**-10 s, so every float operation send_request performs on these times is exact.
The connection contract (stated in the Lean model too): a wait of tau started at `now` returns the first
not-yet-consumed frame whose arrival is <= now + tau (at max(now, arrival)); else it times out at now + tau.
"""
import sys
from . import core

sys.path.insert(0, core.REPO)
import udsoncan  # noqa: E402
import udsoncan.client as uc  # noqa: E402
from udsoncan.connections import BaseConnection  # noqa: E402
from udsoncan.exceptions import TimeoutException  # noqa: E402

TICK = 2.0 ** -10


class Clock:
    def __init__(self):
        self.now = 1000.0      # seconds

    def monotonic(self):
        return self.now

    def time(self):
        return self.now

    def __getattr__(self, name):  # anything else the client might look up on `time`
        import time as _t
        return getattr(_t, name)


class StubConn(BaseConnection):
    """records flush/send/wait; frames are (arrival_tick_after_send, payload)"""

    def __init__(self, clock):
        super().__init__('stub')
        self.clock = clock
        self.opened = True
        self.log = []
        self.stale = []         # frames already in the rx queue
        self.script = []        # arrivals for the *next* send: list of (ticks after send, payload)
        self.pending = []       # absolute (time, payload)
        self.t_send = None
        self.fail_send = None   # exception to raise from send
        self.send_delay = 0     # ticks the transport blocks inside send(); windows are measured from its return
        self.responder = None   # callable(payload) -> list of (ticks, payload) scripted for this send
        self.open_calls = 0
        self.close_calls = 0
        self.inflight_survives_flush = False   # a flush can only drop what has arrived: frames still on their way stay (used where the harness controls idle time)

    def open(self):
        self.opened = True
        self.open_calls += 1
        return self

    def close(self):
        self.opened = False
        self.close_calls += 1

    def is_open(self):
        return self.opened

    def empty_rxqueue(self):
        self.log.append(('flush',))
        self.stale = []
        self.pending = [(t, p) for t, p in self.pending if t > self.clock.now] if self.inflight_survives_flush else []

    def specific_send(self, payload):
        self.log.append(('send', bytes(payload)))
        if self.fail_send is not None:
            raise self.fail_send
        self.clock.now += self.send_delay * TICK
        self.t_send = self.clock.now
        if self.responder is not None:
            self.script = list(self.responder(bytes(payload)))
        # frames of an earlier exchange that were never consumed nor flushed are still in the transport's queue: those that have arrived by
        # now are delivered first (a client that flushed before sending has none)
        leftover = self.pending
        self.stale = self.stale + [p for t, p in leftover if t <= self.clock.now]
        self.pending = [(t, p) for t, p in leftover if t > self.clock.now] + [(self.t_send + t * TICK, p) for t, p in self.script]
        self.pending.sort(key=lambda x: x[0])
        self.script = []

    def specific_wait_frame(self, timeout=2):
        t0 = self.t_send if self.t_send is not None else self.clock.now
        self.log.append(('wait', (self.clock.now - t0) / TICK, timeout / TICK))
        if self.stale:
            return self.stale.pop(0)
        if self.pending and self.pending[0][0] <= self.clock.now + timeout:
            t, p = self.pending.pop(0)
            self.clock.now = max(self.clock.now, t)
            return p
        self.clock.now += timeout
        raise TimeoutException('stub timeout')


def install_clock():
    clk = Clock()
    uc.time = clk
    return clk


def fmt_tick(x):
    """ticks as integer string when exact, else repr (a non-integer shows up as a divergence)"""
    if isinstance(x, float) and x == int(x):
        return str(int(x))
    return repr(x)


def fmt_log(log):
    out = []
    for op in log:
        if op[0] == 'flush':
            out.append('F')
        elif op[0] == 'send':
            out.append('S:' + core.hx(op[1]))
        elif op[0] == 'wait':
            out.append('W:%s:%s' % (fmt_tick(op[1]), fmt_tick(op[2])))
        elif op[0] == 'callback':
            out.append('C')
    return ','.join(out) if out else '-'
