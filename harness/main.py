import argparse
import importlib
import os
import sys

from . import core


def main():
    ap = argparse.ArgumentParser()
    ap.add_argument('prop')
    ap.add_argument('--tier', default=os.environ.get('VERIF_TIER', 'quick'))
    ap.add_argument('--replay')
    a = ap.parse_args()
    seed = int(os.environ.get('VERIF_SEED', '0') or 0)
    prop = a.prop.upper()
    os.environ.setdefault('UDSONCAN_VERIF', '1')
    import logging
    # the library's log output goes nowhere, but logging stays switched on: clients made with the 'dbg' logger name run at DEBUG level (clientlib)
    logging.getLogger().addHandler(logging.NullHandler())
    mod = importlib.import_module('harness.props.' + prop.lower())
    if a.replay:
        if hasattr(mod, 'replay'):
            sys.exit(mod.replay(a.replay))
        sys.exit(core.replay(mod, prop, a.replay))
    tier = a.tier if a.tier in ('quick', 'thorough') else 'quick'
    sys.exit(core.run_check(mod, prop, tier, seed))


if __name__ == '__main__':
    main()
