"""The 80 public service entry points of udsoncan.Client: for each one, valid calls (arguments + the client
configuration they need) and a reference responder that builds a well-formed positive reply to the frame the
client sent.  Used by the call-level suites (C03, C04, C06, C08, C09, C11, C15)."""
import inspect
import random
import struct

import udsoncan
from udsoncan import (MemoryLocation, DataFormatIdentifier, Baudrate, CommunicationType, DynamicDidDefinition, Filesize,
                      IOValues, IOMasks, Dtc, AsciiCodec, DidCodec)
from udsoncan.client import Client

INFRA = {'open', 'close', 'configure_logger', 'set_config', 'set_configs', 'refresh_config', 'validate_config',
         'service_log_prefix', 'get_session_timing', 'send_request', 'standard_error_management'}


def entry_points():
    return sorted(n for n, f in inspect.getmembers(Client, inspect.isfunction) if not n.startswith('_') and n not in INFRA)


class ReadAllCodec(DidCodec):
    def encode(self, v):
        return bytes(v)

    def decode(self, b):
        return bytes(b)

    def __len__(self):
        raise DidCodec.ReadAllRemainingData


def algo(seed, level, params):
    return bytes(b ^ 0xA5 for b in seed) + bytes([level & 0xFF])


DID_LEN = {0x1234: 2, 0x5678: 4, 0xF190: 4, 0x0102: 1, 0xABCD: 8}


def base_config():
    return {
        'data_identifiers': {0x1234: '>H', 0x5678: '>BBH', 0xF190: AsciiCodec(4), 0x0102: 'B', 0xABCD: '>Q'},
        'input_output': {0x1111: {'codec': '>B', 'mask': {'a': 1, 'b': 2, 'c': 0x80}, 'mask_size': 1}, 0x2222: '>H', 0x3333: {'codec': '>HB'}},
        'security_algo': algo,
        'security_algo_params': b'\x01',
        'dtc_snapshot_did_size': 2,
        'extended_data_size': 2,
    }


IO_LEN = {0x1111: 1, 0x2222: 2, 0x3333: 3}
ALGO16 = bytes(range(16))


class Call:
    def __init__(self, name, *args, cfg=None, **kwargs):
        self.name, self.args, self.kwargs, self.cfg = name, args, kwargs, (cfg or {})

    def config(self):
        c = base_config()
        c.update(self.cfg)
        return c

    def fresh_args(self):
        """arguments are rebuilt for every invocation (MemoryLocation objects are mutated by the client)"""
        a = [x() if callable(x) and getattr(x, '_thunk', False) else x for x in self.args]
        k = {n: (x() if callable(x) and getattr(x, '_thunk', False) else x) for n, x in self.kwargs.items()}
        return a, k

    def invoke(self, client):
        a, k = self.fresh_args()
        return getattr(client, self.name)(*a, **k)

    def desc(self):
        a, k = self.fresh_args()
        return '%s(%s)' % (self.name, ', '.join([_r(x) for x in a] + ['%s=%s' % (n, _r(v)) for n, v in k.items()]))


def _r(x):
    if isinstance(x, bytes):
        return 'b:' + x.hex()
    if isinstance(x, MemoryLocation):
        return 'ML(%d,%d,%s,%s)' % (x.address, x.memorysize, x.address_format, x.memorysize_format)
    if isinstance(x, DataFormatIdentifier):
        return 'DFI(%d,%d)' % (x.compression, x.encryption)
    if isinstance(x, Baudrate):
        return 'Baud(%d,%d)' % (x.baudrate, x.baudtype)
    if isinstance(x, Filesize):
        return 'FS(%s,%s,%s)' % (x.uncompressed, x.compressed, x.width)
    if isinstance(x, DynamicDidDefinition):
        return 'DDD(%d)' % len(x.get())
    if isinstance(x, IOMasks):
        return 'IOMasks(%s)' % sorted(x.get_dict().items())
    return repr(x)


def thunk(f):
    f._thunk = True
    return f


def ml(a, s, af=None, mf=None):
    return thunk(lambda: MemoryLocation(a, s, af, mf))


def default_calls():
    """at least one valid call per entry point (80 entry points)"""
    C = Call
    ddd_did = thunk(lambda: DynamicDidDefinition(source_did=0x1234, position=1, memorysize=2))
    calls = [
        C('access_timing_parameter', 1),
        C('access_timing_parameter', 4, b'\x11\x22'),
        C('add_file', 'a.bin', None, 0x1234),
        C('add_file', 'dir/b', DataFormatIdentifier(1, 2), Filesize(uncompressed=0x100, compressed=0x80, width=3)),
        C('authentication', 0),
        C('authentication', 5, communication_configuration=1, algorithm_indicator=ALGO16),
        C('authentication_configuration'),
        C('change_session', 3),
        C('change_session', 1, cfg={'standard_version': 2006}),
        C('clear_all_dynamically_defined_did'),
        C('clear_dtc'),
        C('clear_dtc', 0x123456, 5),
        C('clear_dynamically_defined_did', 0xF300),
        C('communication_control', 0, 0x01),
        C('communication_control', 4, CommunicationType(3, True, True), 0x1234),
        C('control_dtc_setting', 1),
        C('control_dtc_setting', 2, b'\xAA'),
        C('deauthenticate'),
        C('delete_file', 'x/y.z'),
        C('do_clear_dynamically_defined_did'),
        C('do_clear_dynamically_defined_did', 0xF301),
        C('dynamically_define_did', 0xF300, ddd_did),
        C('dynamically_define_did', 0xF301, ml(0x1234, 4, 16, 8)),
        C('ecu_reset', 1),
        C('ecu_reset', 4),
        C('get_dtc_by_status_mask', 0xFF),
        C('get_dtc_by_status_severity_mask', 0x0F, 0xE0),
        C('get_dtc_extended_data_by_dtc_number', 0x123456, 0x01, 3),
        C('get_dtc_extended_data_by_dtc_number', 0x123456),
        C('get_dtc_extended_data_by_record_number', 0x02, 1),
        C('get_dtc_fault_counter'),
        C('get_dtc_severity', 0xABCDEF),
        C('get_dtc_snapshot_by_dtc_number', 0x123456, 2),
        C('get_dtc_snapshot_by_record_number', 2),
        C('get_dtc_snapshot_identification'),
        C('get_dtc_with_permanent_status'),
        C('get_emission_dtc_by_status_mask', 0x08),
        C('get_first_confirmed_dtc'),
        C('get_first_test_failed_dtc'),
        C('get_mirrormemory_dtc_by_status_mask', 0x2F),
        C('get_mirrormemory_dtc_extended_data_by_dtc_number', 0x010203, 0x10, 2),
        C('get_mirrormemory_number_of_dtc_by_status_mask', 0x01),
        C('get_most_recent_confirmed_dtc'),
        C('get_most_recent_test_failed_dtc'),
        C('get_number_of_dtc_by_status_mask', 0x55),
        C('get_number_of_dtc_by_status_severity_mask', 0x55, 0x20),
        C('get_number_of_emission_dtc_by_status_mask', 0xAA),
        C('get_routine_result', 0x1234),
        C('get_supported_dtc'),
        C('get_user_defined_dtc_extended_data_by_dtc_number', 0x123456, 0x42, 0x03, 2),
        C('get_user_defined_dtc_snapshot_by_dtc_number', 0x123456, 0x42, 3),
        C('get_user_defined_memory_dtc_by_status_mask', 0xFF, 0x33),
        C('get_wwh_obd_dtc_by_status_mask', 0x33, 0x08, 0x40, 0x02),
        C('get_wwh_obd_dtc_with_permanent_status', 0xFE),
        C('io_control', 0x1111),
        C('io_control', 0x2222, 3, [0x1234]),
        C('io_control', 0x1111, 3, [0x55], ['a', 'c']),
        C('link_control', 1, Baudrate(500000)),
        C('link_control', 2, Baudrate(123456)),
        C('link_control', 3),
        C('proof_of_ownership', b'\x01\x02\x03', b'\x04'),
        C('read_active_timing_parameters'),
        C('read_data_by_identifier', 0x1234),
        C('read_data_by_identifier', [0x1234, 0x5678, 0xF190]),
        C('read_data_by_identifier_first', [0x5678, 0x0102]),
        C('read_dir', '/tmp'),
        C('read_dtc_information', 0x02, status_mask=0x09),
        C('read_dtc_information', 0x19, dtc=0x000102, extended_data_record_number=4, memory_selection=7, extended_data_size=1),
        C('read_extended_timing_parameters'),
        C('read_file', 'f.txt', DataFormatIdentifier(0, 1)),
        C('read_file', 'g'),
        C('read_memory_by_address', ml(0x1234, 4)),
        C('read_memory_by_address', ml(0x12, 3, 32, 16)),
        C('replace_file', 'r', None, Filesize(uncompressed=5, compressed=4)),
        C('request_challenge_for_authentication', 0, ALGO16),
        C('request_download', ml(0x8000, 0x100)),
        C('request_download', ml(0x10000, 0x20, 32, 16), DataFormatIdentifier(2, 3)),
        C('request_file_transfer', 1, 'p', None, 3),
        C('request_file_transfer', 2, 'p'),
        C('request_seed', 1),
        C('request_seed', 4, b'\x99'),
        C('request_transfer_exit'),
        C('request_transfer_exit', b'\x01\x02'),
        C('request_upload', ml(0x8000, 0x100)),
        C('request_upload_download', udsoncan.services.RequestUpload, ml(0x1, 0x1)),
        C('reset_default_timing_parameters'),
        C('resume_file', 's', DataFormatIdentifier(3, 0), 0x10000),
        C('routine_control', 0xFF00, 1, b'\x01'),
        C('routine_control', 0x0203, 0x7F),
        C('send_key', 2, b'\xde\xad'),
        C('send_key', 5, b''),
        C('set_timing_parameters', b'\x01\x02\x03'),
        C('start_routine', 0x1234, b'\xAA\xBB'),
        C('stop_routine', 0xE200),
        C('test_data_identifier', [0x1234, 0xFFFF]),
        C('tester_present'),
        C('transfer_data', 1, b'\x01\x02\x03'),
        C('transfer_data', 0xFF),
        C('transmit_certificate', 0x1234, b'\x30\x82'),
        C('unlock_security_access', 3),
        C('unlock_security_access', 6, b'\x01'),
        C('verify_certificate_bidirectional', 2, b'\x11' * 5, b'\x22' * 3),
        C('verify_certificate_unidirectional', 1, b'\x11', None),
        C('verify_proof_of_ownership_bidirectional', ALGO16, b'\x01', b'\x02\x03'),
        C('verify_proof_of_ownership_unidirectional', ALGO16, b'\x01\x02', None, b'\x05'),
        C('write_data_by_identifier', 0x1234, 0xBEEF),
        C('write_data_by_identifier', 0xF190, 'ABCD'),
        C('write_data_by_identifier', 0x5678, (1, 2, 0x0304)),
        C('write_memory_by_address', ml(0x1234, 2), b'\x66\x77'),
        C('write_memory_by_address', ml(0x123456, 3, 32, 16), b'\x01\x02\x03'),
    ]
    return calls


def lp(b):
    return struct.pack('>H', len(b)) + b


def good_reply(frame, call=None, config=None, rng=None, nrec=None):
    """reference responder: a well-formed positive response to `frame` (a request this client sent).
    nrec: number of records for list-shaped answers (default 2)"""
    config = config or base_config()
    std = config.get('standard_version', 2020)
    rng = rng or random.Random(0)
    n = 2 if nrec is None else nrec
    sid = frame[0]
    sf = frame[1] & 0x7F if len(frame) > 1 else 0
    rid = bytes([sid + 0x40])
    dids = config.get('data_identifiers', {})

    def didlen(d):
        return DID_LEN.get(d, 2)

    def rb(k):
        return bytes(rng.randrange(1, 256) for _ in range(k))

    def dtcrec():
        return rb(3) + rb(1)
    if sid == 0x10:
        return rid + bytes([sf]) + (b'\x00\x32\x01\xF4' if std >= 2013 else b'')
    if sid == 0x11:
        return rid + bytes([sf]) + (b'\x05' if sf == 4 else b'')
    if sid == 0x27:
        return rid + bytes([sf]) + (b'\x12\x34\x56\x78' if sf % 2 == 1 else b'')
    if sid in (0x28, 0x85, 0x87):
        return rid + bytes([sf])
    if sid == 0x83:
        return rid + bytes([sf]) + (b'\x01\x02' if sf in (1, 3) else b'')
    if sid == 0x3E:
        return rid + b'\x00'
    if sid == 0x22:
        out = rid
        for i in range(1, len(frame) - 1, 2):
            d = struct.unpack('>H', frame[i:i + 2])[0]
            if d == 0xF190:
                out += frame[i:i + 2] + b'WXYZ'
            else:
                out += frame[i:i + 2] + rb(didlen(d))
        return out
    if sid == 0x2E:
        return rid + frame[1:3]
    if sid in (0x23, 0x3D):
        al, sl = frame[1] & 0xF, frame[1] >> 4
        size = int.from_bytes(frame[2 + al:2 + al + sl], 'big')
        if sid == 0x23:
            return rid + rb(size)
        return rid + frame[1:2 + al + sl]
    if sid == 0x2F:
        did = struct.unpack('>H', frame[1:3])[0]
        has_cp = call is not None and (len(call.args) > 1 and call.args[1] is not None or call.kwargs.get('control_param') is not None)
        return rid + frame[1:3] + (frame[3:4] if has_cp else b'') + rb(IO_LEN.get(did, 1))
    if sid == 0x31:
        return rid + bytes([sf]) + frame[2:4] + b'\x10'
    if sid == 0x2C:
        return rid + bytes([sf]) + frame[2:4]
    if sid in (0x14, 0x37):
        return rid
    if sid in (0x34, 0x35):
        return rid + b'\x20\x0F\xFA'
    if sid == 0x36:
        return rid + frame[1:2]
    if sid == 0x38:
        moop = frame[1]
        plen = struct.unpack('>H', frame[2:4])[0]
        dfi = frame[4 + plen:5 + plen] or b'\x00'
        if moop in (1, 3):
            return rid + bytes([moop, 2, 0x0F, 0xFA]) + dfi
        if moop == 6:
            return rid + bytes([moop, 2, 0x0F, 0xFA]) + dfi + struct.pack('>Q', 0x1122)
        if moop == 2:
            return rid + bytes([moop])
        if moop == 4:
            return rid + bytes([moop, 2, 0x0F, 0xFA]) + dfi + b'\x00\x02' + b'\x12\x34' + b'\x10\x00'
        if moop == 5:
            return rid + bytes([moop, 2, 0x0F, 0xFA]) + b'\x00' + b'\x00\x02' + b'\x00\x40'
    if sid == 0x29:
        t = sf
        hd = rid + bytes([t, 0x10])
        if t in (0, 4, 8):
            return hd
        if t == 1:
            return hd + lp(rb(3)) + lp(rb(2))
        if t == 2:
            return hd + lp(rb(3)) + lp(rb(4)) + lp(rb(1)) + lp(b'')
        if t == 3:
            return hd + lp(rb(5))
        if t == 5:
            return hd + ALGO16 + lp(rb(4)) + lp(b'')
        if t == 6:
            return hd + ALGO16 + lp(rb(2))
        if t == 7:
            return hd + ALGO16 + lp(rb(3)) + lp(rb(2))
    if sid == 0x19:
        hd = rid + bytes([sf])
        eds = config.get('extended_data_size', 2)
        if call is not None:
            if call.kwargs.get('extended_data_size') is not None:
                eds = call.kwargs['extended_data_size']
            elif call.name in ('get_dtc_extended_data_by_dtc_number', 'get_mirrormemory_dtc_extended_data_by_dtc_number') and len(call.args) > 2:
                eds = call.args[2]
            elif call.name == 'get_user_defined_dtc_extended_data_by_dtc_number' and len(call.args) > 3:
                eds = call.args[3]
            elif call.name == 'get_dtc_extended_data_by_record_number' and len(call.args) > 1:
                eds = call.args[1]
        if sf in (0x01, 0x07, 0x11, 0x12):
            return hd + b'\xFF\x01\x00\x02'
        if sf in (0x02, 0x0A, 0x0B, 0x0C, 0x0D, 0x0E, 0x0F, 0x13, 0x15):
            return hd + b'\xFF' + b''.join(dtcrec() for _ in range(n))
        if sf == 0x17:
            return hd + frame[3:4] + b'\xFF' + b''.join(dtcrec() for _ in range(n))
        if sf == 0x08:
            return hd + b'\xFF' + b''.join(rb(2) + dtcrec() for _ in range(n))
        if sf == 0x09:
            return hd + b'\xFF' + rb(2) + frame[2:5] + rb(1)
        if sf == 0x14:
            return hd + b''.join(dtcrec() for _ in range(n))
        if sf == 0x03:
            return hd + b''.join(dtcrec() for _ in range(n))
        if sf in (0x04, 0x18):
            rec = frame[5] if frame[5] != 0xFF else 1
            ms = frame[6:7] if sf == 0x18 else b''
            return hd + ms + frame[2:5] + b'\x24' + b''.join(bytes([rec, 2]) + b'\x12\x34' + rb(2) + b'\x01\x02' + rb(1) for _ in range(max(n - 1, 1)))
        if sf == 0x05:
            rec = frame[2] if frame[2] != 0xFF else 1
            return hd + bytes([rec]) + rb(3) + b'\x24' + b'\x01' + b'\x12\x34' + rb(2)
        if sf in (0x06, 0x10, 0x19):
            rec = frame[5] if frame[5] < 0xF0 else 1
            ms = frame[6:7] if sf == 0x19 else b''
            return hd + ms + frame[2:5] + b'\x24' + b''.join(bytes([rec]) + rb(eds) for _ in range(max(n - 1, 1)))
        if sf == 0x16:
            return hd + frame[2:3] + b''.join(bytes([0x10 + i, 0x20, 0x30]) + b'\x24' + rb(eds) for i in range(n))
        if sf == 0x42:
            return hd + frame[2:3] + b'\xFF\xE0\x04' + b''.join(rb(1) + dtcrec() for _ in range(n))
        if sf == 0x55:
            return hd + frame[2:3] + b'\xFF\x04' + b''.join(rb(1) + dtcrec() for _ in range(n))
        return hd
    raise ValueError('no responder for frame %s' % frame.hex())
