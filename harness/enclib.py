"""Request construction (C01 / C07): generators of client calls with in-domain and out-of-domain arguments, the same call as a
udsdrv `enc` line, the documented domain (InDomain) and the ISO rendering of the arguments (canon) written independently of the
client code.  Every call is run on the real client with a recording connection; nothing answers, so the call ends in a timeout
after (possibly) sending."""
import random
import struct

from . import core, stub
from . import clientlib as cl
from .core import hx, ohx, onat, b01

import udsoncan
from udsoncan import (MemoryLocation, DataFormatIdentifier, Baudrate, CommunicationType, DynamicDidDefinition, Filesize,
                      IOValues, IOMasks, Dtc, AsciiCodec, DidCodec)


class RawCodec(DidCodec):
    def __init__(self, n):
        self.n = n

    def encode(self, v):
        if not isinstance(v, bytes) or len(v) != self.n:
            raise ValueError('RawCodec wants %d bytes' % self.n)
        return bytes(v)

    def decode(self, b):
        return bytes(b)

    def __len__(self):
        return self.n


class ReadAllCodec(DidCodec):
    def encode(self, v):
        return bytes(v)

    def decode(self, b):
        return bytes(b)

    def __len__(self):
        raise DidCodec.ReadAllRemainingData


# did -> (kind, length)   kind: 'B' struct string of n 'B', 'ascii', 'raw', 'all'
DIDS = {0x1234: ('B', 2), 0x5678: ('B', 4), 0xF190: ('ascii', 4), 0x0102: ('B', 1), 0xABCD: ('raw', 8), 0xEEEE: ('all', None), 0xEEEF: ('all', None),
        0x0000: ('B', 2), 0xFFFF: ('raw', 3)}


def codec_obj(kind, n):
    if kind == 'B':
        return 'B' * n
    if kind == 'ascii':
        return AsciiCodec(n)
    if kind == 'raw':
        return RawCodec(n)
    return ReadAllCodec()


def did_config(default):
    cfg = {d: codec_obj(*k) for d, k in DIDS.items()}
    if default is not None:
        cfg['default'] = codec_obj(*default)
    return cfg


def didcfg_line(default):
    ent = ','.join('%d:%s' % (d, '*' if k[1] is None else k[1]) for d, k in DIDS.items())
    return 'cfg=%s def=%s' % (ent, 'x' if default is None else ('*' if default[1] is None else default[1]))


def py_value(kind, v):
    """the Python value whose encoding by the codec is the byte string v (v: bytes)"""
    if kind == 'B':
        return tuple(v) if len(v) != 1 else v[0]
    if kind == 'ascii':
        return v.decode('latin1')
    return bytes(v)


IO = {0x1111: dict(codec=('B', 1), mask={'a': 1, 'b': 2, 'c': 0x80}, mask_size=1),
      0x2222: dict(codec=('B', 2)),
      0x3333: dict(codec=('B', 3), composite=True),
      0x4444: dict(codec=('B', 2), mask={'x': 0x0100, 'y': 0x8000, 'z': 1}),
      0x4545: dict(codec=('B', 1), mask={'pedalA': 0x20, 'pedalB': 0x10, 'pedals': 0x30, 'all': 0xFF}),      # masks sharing bits: the enable mask is the OR, not the sum
      0x4646: dict(codec=('B', 1), mask={'top': 0xFF, 'low': 1}, mask_size=1),           # a mask equal to the largest value its declared size holds is in the domain
      0x4747: dict(codec=('B', 2), mask={'w': 0xFFFF, 'v': 0x0100}, mask_size=2),
      0x5555: dict(codec=('B', 1), mask_size=2),
      0x5656: dict(codec=('B', 1), mask_size=0),                                         # a declared size of zero without masks is a valid (if useless) entry
      0x6666: dict(codec=('B', 1), mask={'big': 0x1FF}, mask_size=1),
      0x7777: dict(codec=('raw', 2), mask={'m': 0x00FF00, 'n': 1 << 55, 'o': 1 << 56}),
      0x7878: dict(codec=('raw', 2)),                                                    # a codec of fixed length whose decode() takes whatever it is handed (no length check of its own)
      0x8888: dict(codec=('all', None), mask={'p': 1}, mask_size=0),
      0x9000: dict(codec=('all', None), composite=True)}


def io_config(default):
    cfg = {}
    for d, e in IO.items():
        c = codec_obj(*e['codec'])
        if 'mask' in e or 'mask_size' in e or e.get('composite'):
            x = {'codec': c}
            if 'mask' in e:
                x['mask'] = dict(e['mask'])
            if 'mask_size' in e:
                x['mask_size'] = e['mask_size']
            cfg[d] = x
        else:
            cfg[d] = c
    if default is not None:
        cfg['default'] = codec_obj(*default)
    return cfg


def iocfg_line(default):
    ents = []
    for d, e in IO.items():
        n = e['codec'][1]
        m = '|'.join('%s~%d' % (k, v) for k, v in e['mask'].items()) if 'mask' in e else '-'
        if 'mask' in e and not e['mask']:
            m = '.'
        ms = e.get('mask_size')
        ents.append('%d@%s/%s/%s' % (d, '*' if n is None else n, m, '-' if ms is None else ms))
    dflt = 'x' if default is None else '%s/-/-' % ('*' if default[1] is None else default[1])
    return 'iocfg=%s iodef=%s' % (','.join(ents), dflt)


def oint(x):
    return '-' if x is None else str(x)


class Case:
    """one call: how to run it on a client, its udsdrv line, whether its arguments are in the documented domain, and (if so) the
    canonical ISO rendering + the server view needed to split it"""

    def __init__(self, site, invoke, line, in_domain, canon=None, config=None, view=(1, 0), why=None, sid=None, superfluous=False):
        self.site, self.invoke, self.line, self.in_domain, self.canon = site, invoke, line, in_domain, canon
        self.config, self.view, self.why, self.sid, self.superfluous = config or {}, view, why, sid, superfluous


def run_case(case, spr=False, std=None, after=None):
    """returns (frames sent, verdict, exception).  `after`: something that happened on the same client before the call and is over when the call is
    made - a suppress block left by an exception ('spr_exc': a negative reply under wait_nrc) or normally ('spr_ok'), a payload-override block
    left by an exception ('ovr_exc'): none of them may show in the frame of the call"""
    extra = dict(case.config)
    cfg = cl.Cfg(rt=4, p2=2, p2s=2, std=std or extra.pop('standard_version', 2020))
    client, conn = cl.make_client(cfg, extra=extra)
    if after == 'spr_exc':
        conn.script = [(0, b'\x7f\x3e\x31')]
        try:
            with client.suppress_positive_response(wait_nrc=True):
                client.tester_present()
        except Exception:  # noqa
            pass
    elif after == 'spr_ok':
        with client.suppress_positive_response:
            client.tester_present()
    elif after == 'ovr_exc':
        try:
            with client.payload_override(b'\x11\x01'):
                client.tester_present()
        except Exception:  # noqa  (nobody answers 11 01 with a tester-present reply: timeout)
            pass
    conn.script = []
    try:
        if spr:
            with client.suppress_positive_response:
                how, verdict, flags, payload, exc, r = cl.observe_outer(conn, lambda: case.invoke(client))
        else:
            how, verdict, flags, payload, exc, r = cl.observe_outer(conn, lambda: case.invoke(client))
    except Exception as e:  # noqa  (observe_outer catches everything; this is for the with-statement)
        verdict, exc = 'other:' + type(e).__name__, e
    sends = [o[1] for o in conn.log if o[0] == 'send']
    touched = bool(conn.log)
    return sends, verdict, touched


# ------------------------------------------------------------------------------------------------------------------
# per-service generators.  Each returns a list of Case.
# ------------------------------------------------------------------------------------------------------------------

INTS16 = [0, 1, 0xFF, 0x100, 0x1234, 0xFFFE, 0xFFFF]
BAD16 = [-1, 0x10000, 0x12345]
INTS8 = [0, 1, 0x7F, 0x80, 0xFE, 0xFF]
BAD8 = [-1, 0x100, 0x1FF]
INTS7 = [0, 1, 2, 0x40, 0x7E, 0x7F]
BAD7 = [-1, 0x80, 0x81, 0xFF, 0x100]


def rb(rng, n):
    return bytes(rng.randrange(256) for _ in range(n))


def gen_rdbi(rng, n):
    out = []
    dids = list(DIDS)
    for _ in range(n):
        default = rng.choice([None, None, ('B', 3)])
        k = rng.choice([1, 1, 2, 3, 5])
        lst = [rng.choice(dids + [0x4321, 0x0001]) for _ in range(k)]
        r = rng.random()
        if r < 0.15:
            lst[rng.randrange(k)] = rng.choice(BAD16)
        elif r < 0.3:
            lst = [rng.choice([0xEEEE, 0xEEEF])] + lst         # a read-all codec followed by something
        elif r < 0.4:
            lst = lst + [rng.choice([0xEEEE, 0xEEEF])]          # read-all last: fine
        how = rng.choice(['rdbi', 'rdbi', 'first', 'test', 'int'])
        if how == 'int':
            lst = lst[:1]
        nocfg = how == 'test'
        ok_range = all(isinstance(d, int) and 0 <= d <= 0xFFFF for d in lst)
        if nocfg:
            in_dom = ok_range
        else:
            known = all((d in DIDS) or default is not None for d in lst) if ok_range else False
            kinds = [(DIDS[d] if d in DIDS else default) for d in lst] if known else []
            alls = [i for i, kk in enumerate(kinds) if kk[0] == 'all']
            in_dom = ok_range and known and (not alls or alls == [len(lst) - 1])
        arg = lst[0] if how == 'int' else list(lst)

        def invoke(c, how=how, arg=arg):
            if how == 'first':
                return c.read_data_by_identifier_first(arg)
            if how == 'test':
                return c.test_data_identifier(arg)
            return c.read_data_by_identifier(arg)
        line = 'enc e=rdbi %s nocfg=%s dids=%s' % (didcfg_line(default), b01(nocfg), ','.join(str(d) for d in lst))
        canon = 'rdbi ' + ','.join(str(d) for d in lst) if in_dom else None
        out.append(Case({'rdbi': 'read_data_by_identifier', 'int': 'read_data_by_identifier', 'first': 'read_data_by_identifier_first', 'test': 'test_data_identifier'}[how],
                        invoke, line, in_dom, canon, {'data_identifiers': did_config(default)}, sid=0x22))
    return out


def gen_wdbi(rng, n):
    out = []
    for _ in range(n):
        default = rng.choice([None, None, ('B', 3), ('all', None)])
        did = rng.choice(list(DIDS) + [0x4321] + BAD16[:2]) if rng.random() < 0.9 else rng.choice(BAD16)
        ok_range = 0 <= did <= 0xFFFF
        kind = DIDS.get(did, default) if ok_range else None
        if kind is None:
            v = rb(rng, 2)
            pyv = tuple(v)
            in_dom = False
        else:
            nlen = kind[1] if kind[1] is not None else rng.randrange(0, 6)
            delta = rng.choice([0, 0, 0, 0, 1, -1]) if kind[1] is not None else 0
            v = bytes(rng.randrange(0x20, 0x7F) for _ in range(max(nlen + delta, 0)))
            pyv = py_value(kind[0], v)
            in_dom = ok_range and len(v) == nlen
            if kind[0] == 'B' and len(v) == 0:
                pyv = ()
        line = 'enc e=wdbi %s did=%d val=%s' % (didcfg_line(default), did, hx(v))
        canon = 'wdbi %d %s' % (did, hx(v)) if in_dom else None
        out.append(Case('write_data_by_identifier', lambda c, did=did, pyv=pyv: c.write_data_by_identifier(did, pyv), line, in_dom, canon,
                        {'data_identifiers': did_config(default)}, sid=0x2E))
    return out


def _io_case(default, did, cp, vals, pyvals, vals_ok, mchoice, pick=(), form='dict'):
    """one io_control case: identifier, control parameter, values (bytes + the Python spelling), masks as True / False / named picks in list / dict / object form"""
    e = IO.get(did)
    if e is None and default is not None and 0 <= did <= 0xFFFF:
        e = dict(codec=default)
    masks = None
    mline = '-'
    mask_ok = True
    mask_bytes = b''
    if mchoice in ('T', 'F'):
        masks = mchoice == 'T'
        mline = mchoice
        ms = e.get('mask_size') if e else None
        mask_ok = e is not None and ms is not None
        if mask_ok:
            mask_bytes = (b'\xFF' if masks else b'\x00') * ms
    elif mchoice == 'named':
        pick = list(pick)
        mline = '|'.join('%s~%s' % (k, b01(v)) for k, v in pick) if pick else '.'
        if form == 'list' and all(v for _, v in pick):
            masks = [k for k, _ in pick]
        elif form == 'dict':
            masks = dict(pick)
        else:
            masks = IOMasks(**dict(pick))
        mask_ok = e is not None and 'mask' in e and all(k in e['mask'] for k, _ in pick)
        if mask_ok:
            val = 0
            for k, v in pick:
                if v:
                    val |= e['mask'][k]
            ms = e.get('mask_size')
            size = ms if ms is not None else (val.bit_length() + 7) // 8
            mask_ok = val < 256 ** size
            if mask_ok:
                mask_bytes = val.to_bytes(size, 'big')
    cfg_ok = e is not None and not ('mask' in (e or {}) and e.get('mask_size') is not None and any(v > 2 ** (e['mask_size'] * 8) - 1 for v in e['mask'].values()))
    in_dom = (0 <= did <= 0xFFFF and (cp is None or 0 <= cp <= 3) and cfg_ok and vals_ok and mask_ok
              and not (vals is None and masks is not None))
    line = 'enc e=io %s did=%d cp=%s vals=%s masks=%s' % (iocfg_line(default), did, oint(cp), ohx(vals), mline)
    canon = None
    view = (1 if cp is not None else 0, len(vals) if vals is not None else 0)
    if in_dom:
        canon = 'io %d %s %s %s' % (did, oint(cp), hx(vals or b''), hx(mask_bytes))
    return Case('io_control', lambda c, did=did, cp=cp, pyvals=pyvals, masks=masks: c.io_control(did, cp, pyvals, masks), line, in_dom, canon,
                {'input_output': io_config(default)}, view=view, sid=0x2F)


def io_corpus():
    """fixed cases that run first whatever the seed: every composite identifier x every form of giving the masks (list of names, dict, IOMasks object, True, False)
    x which of its masks are set (all, none, each one alone cleared, each one alone set)"""
    out = []
    for did, e in IO.items():
        if 'mask' not in e:
            continue
        kind = e['codec']
        nlen = kind[1] if kind[1] is not None else 2
        vals = bytes((0x11 * (i + 1)) & 0xFF for i in range(nlen))
        pyvals = list(vals) if kind[0] == 'B' else [vals]
        names = list(e['mask'])
        picks = [[(nm, True) for nm in names], [(nm, False) for nm in names], []]
        for one in names:
            picks.append([(nm, nm != one) for nm in names])
            picks.append([(nm, nm == one) for nm in names])
            picks.append([(one, True)])
            picks.append([(one, False)])
        for pick in picks:
            for form in ('list', 'dict', 'obj'):
                if form == 'list' and not all(v for _, v in pick):
                    continue
                out.append(_io_case(None, did, 3, vals, pyvals, True, 'named', pick, form))
        for m in ('T', 'F', 'none'):
            out.append(_io_case(None, did, 3, vals, pyvals, True, m))
    return out


def gen_io(rng, n):
    out = io_corpus()
    for _ in range(n):
        default = rng.choice([None, None, ('B', 1)])
        did = rng.choice(list(IO) + [0x9999]) if rng.random() < 0.93 else rng.choice(BAD16)
        cp = rng.choice([None, 0, 1, 2, 3, 3, 3]) if rng.random() < 0.9 else rng.choice([-1, 4, 0x100])
        e = IO.get(did)
        if e is None and default is not None and 0 <= did <= 0xFFFF:
            e = dict(codec=default)
        has_vals = rng.random() < 0.7
        focus = rng.random() < 0.2          # composite identifiers with named masks and values: the enable-mask arithmetic
        if focus:
            did = rng.choice([d_ for d_, e_ in IO.items() if 'mask' in e_])
            e = IO[did]
            has_vals = True
            cp = rng.choice([3, 3, 0, None])
        vals = None
        pyvals = None
        vals_ok = True
        if has_vals:
            kind = e['codec'] if e else ('B', 1)
            nlen = kind[1] if kind[1] is not None else rng.randrange(0, 4)
            delta = rng.choice([0, 0, 0, 0, 1, -1]) if kind[1] is not None else 0
            vals = rb(rng, max(nlen + delta, 0))
            vals_ok = len(vals) == nlen
            if kind[0] == 'B':
                pyvals = rng.choice([list(vals), IOValues(*vals)])
            else:
                pyvals = [vals]
        mchoice = 'named' if focus else rng.choice(['none', 'none', 'T', 'F', 'named', 'named', 'named'])
        pick, form = [], 'dict'
        if mchoice == 'named':
            names = list(e['mask']) if e and 'mask' in e else []
            pick = [(nm, rng.random() < 0.7) for nm in names if rng.random() < 0.7]
            if rng.random() < 0.15:
                pick.append(('nosuch', rng.random() < 0.5))      # an undefined name is refused whatever value it carries
            form = rng.choice(['list', 'dict', 'obj'])
        out.append(_io_case(default, did, cp, vals, pyvals, vals_ok, mchoice, pick, form))
    return out


def helper_obj(rng, key, v):
    """the helper classes a caller may pass instead of a number (a Dtc object for a DTC number, Dtc.Status / Severity / DtcClass for the masks): the value such an
    object holds is checked like the number itself - in range it gives the same frame, out of range it is refused"""
    if not isinstance(v, int) or isinstance(v, bool) or rng.random() < 0.6:
        return v
    from udsoncan import Dtc
    try:
        if key == 'dtc':
            return Dtc(v)
        if key == 'sm' and 0 <= v <= 0xFF:
            return Dtc.Status.from_byte(v)
        if key == 'sev' and 0 <= v <= 0xFF and v & 0x1F == 0:
            return Dtc.Severity.from_byte(v)
        if key == 'cls' and 0 <= v <= 0x1F:
            return Dtc.DtcClass.from_byte(v)
    except Exception:  # noqa
        return v
    return v


DTC_WRAPPERS = {
    # name: (sf, positional parameter names)
    'get_dtc_by_status_mask': (0x02, ['sm']), 'get_user_defined_memory_dtc_by_status_mask': (0x17, ['sm', 'ms']),
    'get_emission_dtc_by_status_mask': (0x13, ['sm']), 'get_mirrormemory_dtc_by_status_mask': (0x0F, ['sm']),
    'get_dtc_by_status_severity_mask': (0x08, ['sm', 'sev']), 'get_wwh_obd_dtc_with_permanent_status': (0x55, ['fg']),
    'get_number_of_dtc_by_status_mask': (0x01, ['sm']), 'get_mirrormemory_number_of_dtc_by_status_mask': (0x11, ['sm']),
    'get_number_of_emission_dtc_by_status_mask': (0x12, ['sm']), 'get_number_of_dtc_by_status_severity_mask': (0x07, ['sm', 'sev']),
    'get_dtc_severity': (0x09, ['dtc']), 'get_supported_dtc': (0x0A, []), 'get_first_test_failed_dtc': (0x0B, []),
    'get_first_confirmed_dtc': (0x0C, []), 'get_most_recent_test_failed_dtc': (0x0D, []), 'get_most_recent_confirmed_dtc': (0x0E, []),
    'get_dtc_with_permanent_status': (0x15, []), 'get_dtc_fault_counter': (0x14, []), 'get_dtc_snapshot_identification': (0x03, []),
    'get_dtc_snapshot_by_dtc_number': (0x04, ['dtc', 'snap']), 'get_user_defined_dtc_snapshot_by_dtc_number': (0x18, ['dtc', 'ms', 'snap']),
    'get_dtc_snapshot_by_record_number': (0x05, ['snap']), 'get_dtc_extended_data_by_dtc_number': (0x06, ['dtc', 'ext']),
    'get_dtc_extended_data_by_record_number': (0x16, ['ext']), 'get_user_defined_dtc_extended_data_by_dtc_number': (0x19, ['dtc', 'ms', 'ext']),
    'get_mirrormemory_dtc_extended_data_by_dtc_number': (0x10, ['dtc', 'ext']),
}
DTC_KW = {'sm': 'status_mask', 'sev': 'severity_mask', 'cls': 'dtc_class', 'dtc': 'dtc', 'snap': 'snapshot_record_number', 'ext': 'extended_data_record_number',
          'ms': 'memory_selection', 'fg': 'functional_group_id'}
# ISO request layouts written from 14229-1:2020 tables (name, width, parameter key)
DTC_LAYOUT = {}
for _sf in (0x01, 0x02, 0x0F, 0x11, 0x12, 0x13):
    DTC_LAYOUT[_sf] = [('DTCStatusMask', 'sm')]
for _sf in (0x03, 0x0A, 0x0B, 0x0C, 0x0D, 0x0E, 0x14, 0x15):
    DTC_LAYOUT[_sf] = []
DTC_LAYOUT[0x04] = [('DTCMaskRecord', 'dtc'), ('DTCSnapshotRecordNumber', 'snap')]
DTC_LAYOUT[0x05] = [('DTCStoredDataRecordNumber', 'snap')]
DTC_LAYOUT[0x06] = DTC_LAYOUT[0x10] = [('DTCMaskRecord', 'dtc'), ('DTCExtDataRecordNumber', 'ext')]
DTC_LAYOUT[0x07] = DTC_LAYOUT[0x08] = [('DTCSeverityMask', 'sev'), ('DTCStatusMask', 'sm')]
DTC_LAYOUT[0x09] = [('DTCMaskRecord', 'dtc')]
DTC_LAYOUT[0x16] = [('DTCExtDataRecordNumber', 'ext')]
DTC_LAYOUT[0x17] = [('DTCStatusMask', 'sm'), ('MemorySelection', 'ms')]
DTC_LAYOUT[0x18] = [('DTCMaskRecord', 'dtc'), ('UserDefDTCSnapshotRecordNumber', 'snap'), ('MemorySelection', 'ms')]
DTC_LAYOUT[0x19] = [('DTCMaskRecord', 'dtc'), ('DTCExtDataRecordNumber', 'ext'), ('MemorySelection', 'ms')]
DTC_LAYOUT[0x42] = [('FunctionalGroupIdentifier', 'fg'), ('DTCStatusMask', 'sm'), ('DTCSeverityMask', 'sev')]
DTC_LAYOUT[0x55] = [('FunctionalGroupIdentifier', 'fg')]
DTC_RANGE = {'sm': 0xFF, 'sev': 0xFF, 'dtc': 0xFFFFFF, 'snap': 0xFF, 'ext': 0xFF, 'ms': 0xFF, 'fg': 0xFE, 'cls': 0x1F}
ONLY2020 = {0x16, 0x17, 0x18, 0x19, 0x1A, 0x42, 0x55, 0x56}


def gen_dtc(rng, n):
    out = []
    names = sorted(DTC_WRAPPERS)
    for _ in range(n):
        std = rng.choice([2006, 2013, 2020, 2020, 2020])
        use_wrapper = rng.random() < 0.45
        p = {}
        sup = False
        if use_wrapper:
            name = rng.choice(names)
            sf, keys = DTC_WRAPPERS[name]
            for k in keys:
                mx = DTC_RANGE[k] if not (sf == 0x16 and k == 'ext') else 0xEF
                p[k] = rng.choice([0, 1, mx - 1, mx, rng.randrange(0, mx + 1)]) if rng.random() < 0.88 else rng.choice([-1, mx + 1, mx + 0x100])
            args = [helper_obj(rng, k, p[k]) for k in keys]
            invoke = lambda c, name=name, args=args: getattr(c, name)(*args)
            site = name
        else:
            sf = rng.choice(sorted(DTC_LAYOUT)) if rng.random() < 0.85 else rng.choice([0, 0x1A, 0x1B, 0x20, 0x56, 0x7F, 0x80, 0x82, 0xC2, 0xFF, 0x100, -1])
            need = [k for _, k in DTC_LAYOUT.get(sf, [])]
            for k in need:
                mx = DTC_RANGE[k] if not (sf == 0x16 and k == 'ext') else 0xEF
                r = rng.random()
                if r < 0.85:
                    p[k] = rng.choice([0, 1, mx - 1, mx, rng.randrange(0, mx + 1)])
                elif r < 0.93:
                    p[k] = rng.choice([-1, mx + 1])
                # else: missing
            if rng.random() < 0.15:           # a parameter the subfunction does not take
                extra = rng.choice([k for k in ('sm', 'sev', 'dtc', 'snap', 'ext', 'ms', 'fg') if k not in need] or ['sm'])
                if extra not in need:
                    p[extra] = rng.choice([0, 1, 5])
                    sup = True
            if 'sev' in need and 'sev' in p and rng.random() < 0.25:
                p['cls'] = rng.choice([0, 1, 0x1F]) if rng.random() < 0.8 else rng.choice([0x20, 0x21, -1])
            kwargs = {DTC_KW[k]: helper_obj(rng, k, v) for k, v in p.items()}
            invoke = lambda c, sf=sf, kwargs=kwargs: c.read_dtc_information(sf, **kwargs)
            site = 'read_dtc_information'
        layout = DTC_LAYOUT.get(sf)
        in_dom = layout is not None and not (sf in ONLY2020 and std < 2020)
        if in_dom:
            for _, k in layout:
                mx = DTC_RANGE[k] if not (sf == 0x16 and k == 'ext') else 0xEF
                if k not in p or not (0 <= p[k] <= mx):
                    in_dom = False
            if 'cls' in p and not (0 <= p['cls'] <= 0x1F):
                in_dom = False
        canon = None
        if in_dom:
            vals = dict(p)
            if 'cls' in p:
                vals['sev'] = p['sev'] | p['cls']
            canon = 'dtc %d %s' % (sf, ','.join('%s=%d' % (nm, vals[k]) for nm, k in layout) if layout else '-')
        line = 'enc e=dtc std=%d sf=%d sm=%s sev=%s cls=%s dtc=%s snap=%s ext=%s ms=%s fg=%s' % (
            std, sf, oint(p.get('sm')), oint(p.get('sev')), oint(p.get('cls')), oint(p.get('dtc')), oint(p.get('snap')), oint(p.get('ext')), oint(p.get('ms')), oint(p.get('fg')))
        case = Case(site, invoke, line, in_dom and not sup, canon, {'standard_version': std, 'extended_data_size': 2}, sid=0x19,
                    superfluous=sup and in_dom)
        case.todo_subfunction = sf in (0x1A, 0x56)
        out.append(case)
    return out


def gen_wwh(rng, n):
    """get_wwh_obd_dtc_by_status_mask(functional_group_id, status_mask, severity_mask, dtc_class)"""
    out = []
    for _ in range(n):
        std = rng.choice([2013, 2020, 2020])
        sm, sev, fg = rng.choice(INTS8 + [0x100]), rng.choice([0, 0x20, 0xE0, 0xFF, -1]), rng.choice([0, 0x33, 0xFE, 0xFF, 0x100])
        cls = rng.choice([0, 1, 0x1F, 0x1F, 0x20, -1])
        in_dom = std >= 2020 and 0 <= fg <= 0xFE and 0 <= cls <= 0x1F and 0 <= sm <= 0xFF and 0 <= sev <= 0xFF
        line = 'enc e=dtc std=%d sf=66 sm=%d sev=%d cls=%s dtc=- snap=- ext=- ms=- fg=%d' % (std, sm, sev, oint(cls), fg)
        canon = 'dtc 66 FunctionalGroupIdentifier=%d,DTCStatusMask=%d,DTCSeverityMask=%d' % (fg, sm, sev | cls) if in_dom else None
        out.append(Case('get_wwh_obd_dtc_by_status_mask', lambda c, sm=sm, sev=sev, cls=cls, fg=fg: c.get_wwh_obd_dtc_by_status_mask(fg, sm, sev, cls),
                        line, in_dom, canon, {'standard_version': std}, sid=0x19))
    return out


def gen_rft(rng, n):
    out = []
    wrappers = {1: 'add_file', 2: 'delete_file', 3: 'replace_file', 4: 'read_file', 5: 'read_dir', 6: 'resume_file'}
    for _ in range(n):
        moop = rng.choice([1, 2, 3, 4, 5, 6]) if rng.random() < 0.93 else rng.choice([0, 7, -1, 0x100])
        plen = rng.choice([1, 2, 5, 20, 300]) if rng.random() < 0.95 else rng.choice([0, 0xFFFF, 0x10000])
        path = ''.join(chr(rng.randrange(0x21, 0x7F)) for _ in range(plen))
        if rng.random() < 0.03 and plen:
            path = path[:-1] + 'é'
        use_dfi = moop in (1, 3, 4, 6)
        use_fs = moop in (1, 3, 6)
        r = rng.random()
        dfi = None
        if (use_dfi and r < 0.6) or (not use_dfi and r < 0.1):
            dfi = (rng.randrange(16), rng.randrange(16))
        fs = None
        fsline = '-'
        fs_ok = True
        fs_vals = None
        r = rng.random()
        if (use_fs and r < 0.93) or (not use_fs and r < 0.1):
            if rng.random() < 0.4:
                v = rng.choice([0, 1, 0xFF, 0x100, 0x1234, 2 ** 32, 2 ** 56 - 1, 2 ** 56, 2 ** 64 - 1, 2 ** 64, -1])
                fs = ('i', v)
                fsline = 'i:%d' % v
                fs_ok = v >= 0
                w = (v.bit_length() + 7) // 8 if v >= 0 else 0
                fs_vals = (w, v, v)
            else:
                u = rng.choice([None, 0, 1, 0x100, 0xFFFF, 0x10000, 2 ** 56, 2 ** 64 - 1, -5])
                c = rng.choice([None, None, 0, 0x80, 0xFFFF, 2 ** 40, -1])
                w = rng.choice([None, None, None, 0, 1, 2, 3, 8, 9, 255, 256, -1])
                fs = ('o', u, c, w)
                fsline = 'o:%s:%s:%s' % (oint(u), oint(c), oint(w))
                fs_ok = not (u is None and c is None) and (u is None or u >= 0) and (c is None or c >= 0) and (w is None or w >= 0)
                if fs_ok and w is not None:
                    fs_ok = all(x is None or x <= 2 ** (8 * w) - 1 for x in (u, c)) and w <= 255
                if fs_ok:
                    fs_ok = u is not None
                if fs_ok:
                    ww = w if w is not None else (max(u, c if c is not None else 0).bit_length() + 7) // 8
                    fs_vals = (ww, u, c if c is not None else u)
        ascii_ok = all(ord(ch) < 128 for ch in path)
        in_dom = (moop in (1, 2, 3, 4, 5, 6) and 1 <= plen <= 0xFFFF and ascii_ok and (use_dfi or dfi is None) and
                  ((use_fs and fs is not None and fs_ok) or (not use_fs and fs is None)))
        pbytes = path.encode('ascii', 'replace')

        def invoke(c, moop=moop, path=path, dfi=dfi, fs=fs):
            d = DataFormatIdentifier(*dfi) if dfi is not None else None
            if fs is None:
                f = None
            elif fs[0] == 'i':
                f = fs[1]
            else:
                f = Filesize(uncompressed=fs[1], compressed=fs[2], width=fs[3])
            return c.request_file_transfer(moop, path, d, f)
        dfib = None if dfi is None else (dfi[0] << 4 | dfi[1])
        line = 'enc e=rft moop=%d path=%s dfi=%s fs=%s' % (moop, hx(pbytes) if ascii_ok else '-', oint(dfib), fsline)
        canon = None
        if in_dom:
            dd = (dfib if dfib is not None else 0) if use_dfi else None
            canon = 'fileTransfer %d %s %s %s %s %s' % (moop, hx(pbytes), oint(dd), oint(fs_vals[0] if use_fs else None),
                                                     oint(fs_vals[1] if use_fs else None), oint(fs_vals[2] if use_fs else None))
        out.append(Case('request_file_transfer', invoke, line, in_dom, canon, sid=0x38, why='non-ascii' if not ascii_ok else None))
    return out


AUTH_FIELDS = {
    0: [], 8: [],
    1: [('communicationConfiguration', 'cc'), ('certificateClient', 'cert'), ('challengeClient', 'chal')],
    2: [('communicationConfiguration', 'cc'), ('certificateClient', 'cert'), ('challengeClient', 'chal')],
    3: [('proofOfOwnershipClient', 'pown'), ('ephemeralPublicKeyClient', 'eph')],
    4: [('certificateEvaluationId', 'evalid'), ('certificateData', 'certdata')],
    5: [('communicationConfiguration', 'cc'), ('algorithmIndicator', 'algo')],
    6: [('algorithmIndicator', 'algo'), ('proofOfOwnershipClient', 'pown'), ('challengeClient', 'chal'), ('additionalParameter', 'add')],
    7: [('algorithmIndicator', 'algo'), ('proofOfOwnershipClient', 'pown'), ('challengeClient', 'chal'), ('additionalParameter', 'add')],
}
AUTH_KW = {'cc': 'communication_configuration', 'cert': 'certificate_client', 'chal': 'challenge_client', 'algo': 'algorithm_indicator', 'evalid': 'certificate_evaluation_id',
           'certdata': 'certificate_data', 'pown': 'proof_of_ownership_client', 'eph': 'ephemeral_public_key_client', 'add': 'additional_parameter'}


def gen_auth(rng, n):
    out = []
    for _ in range(n):
        task = rng.choice(list(range(9))) if rng.random() < 0.93 else rng.choice([-1, 9, 0x7F, 0x100])
        p = {}
        sup = False
        need = [k for _, k in AUTH_FIELDS.get(task, [])]
        for k in need:
            r = rng.random()
            if k == 'cc':
                if r < 0.9:
                    p[k] = rng.choice(INTS8)
                elif r < 0.96:
                    p[k] = rng.choice(BAD8)
            elif k == 'evalid':
                if r < 0.9:
                    p[k] = rng.choice(INTS16)
                elif r < 0.96:
                    p[k] = rng.choice(BAD16)
            elif k == 'algo':
                if r < 0.88:
                    p[k] = rb(rng, 16)
                elif r < 0.96:
                    p[k] = rb(rng, rng.choice([0, 15, 17]))
            else:
                if r < 0.8:
                    p[k] = rb(rng, rng.choice([0, 1, 3, 40, 300]))
                elif r < 0.82:
                    p[k] = rb(rng, 0x10000)
        if rng.random() < 0.12:
            extra = rng.choice([k for k in AUTH_KW if k not in need])
            p[extra] = {'cc': 1, 'evalid': 2}.get(extra, b'\x01')
            sup = True
        in_dom = 0 <= task <= 8
        fields = []
        if in_dom:
            for nm, k in AUTH_FIELDS[task]:
                if k == 'cc':
                    if k not in p or not 0 <= p[k] <= 0xFF:
                        in_dom = False
                    else:
                        fields.append((nm, bytes([p[k]])))
                elif k == 'evalid':
                    if k not in p or not 0 <= p[k] <= 0xFFFF:
                        in_dom = False
                    else:
                        fields.append((nm, p[k].to_bytes(2, 'big')))
                elif k == 'algo':
                    if k not in p or len(p[k]) != 16:
                        in_dom = False
                    else:
                        fields.append((nm, p[k]))
                else:
                    v = p.get(k)
                    if v is not None and len(v) > 0xFFFF:
                        in_dom = False
                    fields.append((nm, v or b''))
        kwargs = {AUTH_KW[k]: v for k, v in p.items()}
        line = 'enc e=auth task=%d cc=%s cert=%s chal=%s algo=%s evalid=%s certdata=%s pown=%s eph=%s add=%s' % (
            task, oint(p.get('cc')), ohx(p.get('cert')), ohx(p.get('chal')), ohx(p.get('algo')), oint(p.get('evalid')), ohx(p.get('certdata')),
            ohx(p.get('pown')), ohx(p.get('eph')), ohx(p.get('add')))
        canon = 'auth %d %s' % (task, ','.join('%s=%s' % (nm, hx(v)) for nm, v in fields) if fields else '-') if in_dom else None
        out.append(Case('authentication', lambda c, task=task, kwargs=kwargs: c.authentication(task, **kwargs), line, in_dom and not sup, canon, sid=0x29,
                        superfluous=sup and in_dom))
    return out


def gen_ddd(rng, n):
    out = []
    for _ in range(n):
        if rng.random() < 0.3:
            did = rng.choice([None, 0xF300, 0, 0xFFFF]) if rng.random() < 0.9 else rng.choice(BAD16)
            in_dom = did is None or 0 <= did <= 0xFFFF
            how = rng.choice(['do', 'clear', 'all']) if did is not None else rng.choice(['do', 'all'])
            if how == 'all':
                did = None
                in_dom = True

            def invoke(c, how=how, did=did):
                if how == 'all':
                    return c.clear_all_dynamically_defined_did()
                if how == 'clear':
                    return c.clear_dynamically_defined_did(did)
                return c.do_clear_dynamically_defined_did(did)
            line = 'enc e=dddclear did=%s' % oint(did)
            out.append(Case({'all': 'clear_all_dynamically_defined_did', 'clear': 'clear_dynamically_defined_did', 'do': 'do_clear_dynamically_defined_did'}[how],
                            invoke, line, in_dom, 'dddClear %s' % oint(did) if in_dom else None, sid=0x2C))
            continue
        did = rng.choice([0xF300, 0xF3FF, 0, 0xFFFF]) if rng.random() < 0.9 else rng.choice(BAD16)
        k = rng.randrange(0, 4) if rng.random() < 0.15 else rng.randrange(1, 4)
        ents = []
        for _ in range(k):
            s = rng.choice(INTS16) if rng.random() < 0.93 else rng.choice(BAD16)
            pos = rng.choice([0, 1, 5, 0xFF]) if rng.random() < 0.93 else rng.choice([-1, 0x100])
            size = rng.choice([0, 1, 4, 0xFF]) if rng.random() < 0.93 else rng.choice([-1, 0x100])
            ents.append((s, pos, size))
        in_dom = 0 <= did <= 0xFFFF and k >= 1 and all(0 <= s <= 0xFFFF and 0 <= p <= 0xFF and 0 <= z <= 0xFF for s, p, z in ents)

        form = rng.choice(['kw', 'positional', 'constructor'])     # the documented ways of giving a piece: keywords, positionally (source_did, position, memorysize), to the constructor

        def invoke(c, did=did, ents=ents, form=form):
            if form == 'constructor' and ents:
                d = DynamicDidDefinition(ents[0][0], ents[0][1], ents[0][2])
                rest = ents[1:]
            else:
                d = DynamicDidDefinition()
                rest = ents
            for s, p, z in rest:
                if form == 'kw':
                    d.add(source_did=s, position=p, memorysize=z)
                else:
                    d.add(s, p, z)
            return c.dynamically_define_did(did, d)
        line = 'enc e=dddid did=%d entries=%s' % (did, ';'.join('%d:%d:%d' % e for e in ents) if ents else '-')
        canon = 'dddByDid %d %s' % (did, ';'.join('%d:%d:%d' % e for e in ents)) if in_dom else None
        if k == 0:
            # an empty definition has no type: the client cannot pick a subfunction (ValueError) - out of domain, nothing to compare on the model side
            line = 'enc e=dddid did=%d entries=-' % did
        out.append(Case('dynamically_define_did', invoke, line, in_dom, canon, sid=0x2C))
    return out


def gen_simple(rng, n):
    """the 13 simple entry points and their wrappers (start/stop routine, timing-parameter helpers, ...)"""
    from . import hist
    out = []
    # corpus (runs first): link control with standard / custom identifiers, guessed types and the 24-bit boundary
    corpus = [('lc', 1, 0x20, 'i'), ('lc', 1, 0xFF, 'i'), ('lc', 1, 0xFF, 'a'), ('lc', 1, 0x12, 'i'), ('lc', 2, 0x12, 'i'), ('lc', 2, 0x20, 'i'), ('lc', 1, 0x100, 'a'),
              ('lc', 2, 0xFFFFFF, 'a'), ('lc', 2, 0x1000000, 'a'), ('lc', 2, 0x1000000 + 500000, 'a'), ('lc', 2, 0xFFFFFF, 's'), ('lc', 2, 0x1000000, 's'), ('lc', 1, 500000, 'a'),
              ('lc', 2, 500000, 'f'), ('lc', 1, 500000, 's'), ('lc', 1, 123456, 's'), ('lc', 3, None, 'f'), ('lc', 3, 9600, 'f'), ('lc', 1, None, 'f')]
    # boundary corpus (deterministic, every edition): each integer argument of each simple entry point at the ends of its domain and one step outside,
    # every optional parameter absent / 0 / largest / one too large - so that a boundary slip does not depend on what a random stream happens to draw
    bcorpus = []
    for std_ in (2006, 2013, 2020):
        for v in (0, 1, 0x7F, 0x80, -1):
            bcorpus += [(('cs', v), std_), (('er', v), std_), (('cd', v, None), std_), (('cd', v, b''), std_)]
        for lvl in (0, 1, 2, 0x7D, 0x7E, 0x7F, 0x80):
            bcorpus += [(('rs', lvl, b''), std_), (('sk', lvl, b'\x01'), std_)]
        for rid in (0, 0xFFFF, 0x10000, -1):
            for ct in (0, 1, 0x7F, 0x80):
                bcorpus.append((('rc', rid, ct, None), std_))
        for sq in (0, 0xFF, 0x100, -1):
            bcorpus += [(('td', sq, None), std_), (('td', sq, b''), std_)]
        for g in (0, 0xFFFFFF, 0x1000000, -1):
            for ms in (None, 0, 1, 0xFF, 0x100, -1):
                bcorpus.append((('cl', g, ms), std_))
        for ct in (0, 3, 4, 5, 0x7F, 0x80):
            for node in (None, 0, 0xFFFF, 0x10000, -1):
                bcorpus.append((('cc', ct, 0x01, node), std_))
        for t in (0, 1, 4, 0x7F, 0x80):
            bcorpus += [(('at', t, None), std_), (('at', t, b''), std_), (('at', t, b'\x01\x02'), std_)]
        bcorpus += [(('te', None), std_), (('te', b''), std_), (('tp',), std_)]
    total = len(corpus) + len(bcorpus) + n
    for i in range(total):
        std = rng.choice([2006, 2013, 2020])
        if i < len(corpus):
            e = corpus[i]
        elif i < len(corpus) + len(bcorpus):
            e, std = bcorpus[i - len(corpus)]
        else:
            e = hist.rand_entry(rng, std, allow_invalid=True)
            if rng.random() < 0.25:      # push one integer out of range / to a boundary
                e = mutate_entry(rng, e)
        ok = in_domain_simple(e, std)
        canon = canon_simple(e, std) if ok else None
        line = 'enc e=simple entry=%s std=%d' % (hist.entry_str(e), std)
        wrap = pick_wrapper(rng, e)
        cfg = {'standard_version': std}
        if wrap[0] == 'unlock_security_access':
            cfg['security_algo'] = lambda level, seed, params: b'\x00'
        out.append(Case(wrap[0], wrap[1], line, ok, canon, cfg, sid=hist.SID[e[0]]))
    return out


FIXED_BAUD = {9600, 19200, 38400, 57600, 115200, 125000, 250000, 500000, 1000000}
BAUD_BY_ID = {1: 9600, 2: 19200, 3: 38400, 4: 57600, 5: 115200, 0x10: 125000, 0x11: 250000, 0x12: 500000, 0x13: 1000000}


def in_domain_simple(e, std):
    """documented argument domains of the simple services (docstrings of the client methods / service classes)"""
    k = e[0]
    if k in ('cs', 'er'):
        return 0 <= e[1] <= 0x7F
    if k in ('rs', 'sk'):
        return 1 <= e[1] <= 0x7E
    if k == 'tp':
        return True
    if k == 'cc':
        ct, comm, node = e[1], e[2], e[3]
        if not 0 <= ct <= 0x7F:
            return False
        if not (0 <= comm <= 0xFF and comm & 0x0C == 0 and comm & 3 != 0):
            return False
        need = std >= 2013 and ct in (4, 5)
        if need != (node is not None):
            return False
        return node is None or 0 <= node <= 0xFFFF
    if k == 'at':
        return 0 <= e[1] <= 0x7F and ((e[2] is not None) == (e[1] == 4))
    if k == 'cd':
        return 0 <= e[1] <= 0x7F
    if k == 'lc':
        from . import hist
        ct, rate, ty = e[1], e[2], hist.lc_eff_type(e[2], e[3])
        if not 0 <= ct <= 0x7F:
            return False
        if ct in (1, 2):
            if rate is None:
                return False
            if ty == 'f' and rate not in FIXED_BAUD:
                return False                    # the Baudrate object itself cannot be built
            if ct == 1:
                return rate in FIXED_BAUD if ty in ('f', 's') else 0 <= rate <= 0xFF
            if ty == 'i':
                return rate in BAUD_BY_ID       # a standard identifier stands for its rate; sent as that specific rate
            return 0 <= rate <= 0xFFFFFF
        return rate is None
    if k == 'rc':
        return 0 <= e[1] <= 0xFFFF and 0 <= e[2] <= 0x7F
    if k == 'td':
        return 0 <= e[1] <= 0xFF
    if k == 'te':
        return True
    if k == 'cl':
        if not 0 <= e[1] <= 0xFFFFFF:
            return False
        if e[2] is None:
            return True
        return std >= 2020 and 0 <= e[2] <= 0xFF
    raise ValueError(e)


def mutate_entry(rng, e):
    k = e[0]
    if k in ('cs', 'er'):
        return (k, rng.choice(INTS7 + BAD7))
    if k in ('rs', 'sk'):
        return (k, rng.choice([0, 1, 2, 0x7D, 0x7E, 0x7F, 0x80, -1]), e[2])
    if k == 'rc':
        return ('rc', rng.choice(INTS16 + BAD16), rng.choice(INTS7 + BAD7), e[3])
    if k == 'td':
        return ('td', rng.choice(INTS8 + BAD8), e[2])
    if k == 'cl':
        return ('cl', rng.choice([0, 1, 0xFFFFFE, 0xFFFFFF, 0x1000000, -1]), e[2] if e[2] is None else rng.choice(INTS8 + BAD8))
    if k == 'cc':
        return ('cc', rng.choice([0, 1, 3, 4, 5, 5, 6, 0x7F] + BAD7), rng.choice([1, 2, 3, 0x13, 0xF1, 0, 0x0D, 0x101]), rng.choice([None, None, 0, 0x1234, 0xFFFF] + BAD16))
    if k in ('at', 'cd'):
        return (k, rng.choice(INTS7 + BAD7), e[2])
    return e


def pick_wrapper(rng, e):
    k = e[0]
    if k == 'rc' and e[2] in (1, 2, 3) and rng.random() < 0.6:
        name = {1: 'start_routine', 2: 'stop_routine', 3: 'get_routine_result'}[e[2]]
        return name, (lambda c, name=name, e=e: getattr(c, name)(e[1], e[3]))
    if k == 'at' and rng.random() < 0.6:
        if e[1] == 1 and e[2] is None:
            return 'read_extended_timing_parameters', lambda c: c.read_extended_timing_parameters()
        if e[1] == 2 and e[2] is None:
            return 'reset_default_timing_parameters', lambda c: c.reset_default_timing_parameters()
        if e[1] == 3 and e[2] is None:
            return 'read_active_timing_parameters', lambda c: c.read_active_timing_parameters()
        if e[1] == 4 and e[2] is not None:
            return 'set_timing_parameters', lambda c, e=e: c.set_timing_parameters(e[2])
    if k == 'rs' and rng.random() < 0.35:
        # the seed request of the seed/key composite: same level spelling rules, the seed parameters go out as the request data
        return 'unlock_security_access', (lambda c, e=e: c.unlock_security_access(e[1], seed_params=e[2]) if e[2] else c.unlock_security_access(e[1]))
    from . import hist
    names = {'cs': 'change_session', 'er': 'ecu_reset', 'rs': 'request_seed', 'sk': 'send_key', 'tp': 'tester_present', 'cc': 'communication_control',
             'at': 'access_timing_parameter', 'cd': 'control_dtc_setting', 'lc': 'link_control', 'rc': 'routine_control', 'td': 'transfer_data',
             'te': 'request_transfer_exit', 'cl': 'clear_dtc'}
    return names[k], (lambda c, e=e: hist.invoke_entry(c, e))


def canon_simple(e, std):
    """ISO rendering of a simple entry's arguments (independent of the client)"""
    k = e[0]
    if k == 'cs':
        return 'session %d' % e[1]
    if k == 'er':
        return 'reset %d' % e[1]
    if k == 'rs':
        return 'securityAccess %d %s' % (e[1] if e[1] % 2 == 1 else e[1] - 1, hx(e[2]))
    if k == 'sk':
        return 'securityAccess %d %s' % (e[1] if e[1] % 2 == 0 else e[1] + 1, hx(e[2]))
    if k == 'tp':
        return 'testerPresent 0'
    if k == 'cc':
        return 'commControl %d %d %s' % (e[1], e[2], oint(e[3]))
    if k == 'at':
        return 'accessTiming %d %s' % (e[1], hx(e[2] or b''))
    if k == 'cd':
        return 'controlDtc %d %s' % (e[1], hx(e[2] or b''))
    if k == 'lc':
        if e[2] is None:
            return 'linkControl %d -' % e[1]
        from . import hist
        ty = hist.lc_eff_type(e[2], e[3])
        if e[1] == 1:
            fixed = {9600: 1, 19200: 2, 38400: 3, 57600: 4, 115200: 5, 125000: 0x10, 250000: 0x11, 500000: 0x12, 1000000: 0x13}
            return 'linkControl 1 %02x' % (e[2] if ty == 'i' else fixed[e[2]])
        rate = BAUD_BY_ID[e[2]] if ty == 'i' else e[2]
        return 'linkControl %d %s' % (e[1], rate.to_bytes(3, 'big').hex())
    if k == 'rc':
        return 'routine %d %d %s' % (e[2], e[1], hx(e[3] or b''))
    if k == 'td':
        return 'transferData %d %s' % (e[1], hx(e[2] or b''))
    if k == 'te':
        return 'transferExit %s' % hx(e[1] or b'')
    if k == 'cl':
        return 'clearDtc %d %s' % (e[1], oint(e[2]))
    raise ValueError(e)


def gen_cc(rng, n):
    """communication_control: edition x control type x node id (the node-id rule has two sides: demanded, and not allowed)"""
    from . import hist
    out = []
    for std in (2006, 2013, 2020):
        for ct in (0, 1, 3, 4, 5, 6, 0x7F):
            for node in (None, 0, 0x1234, 0xFFFF):
                for comm in (0x01, 0x13) if rng.random() < 0.5 else (0x02,):
                    e = ('cc', ct, comm, node)
                    ok = in_domain_simple(e, std)
                    line = 'enc e=simple entry=%s std=%d' % (hist.entry_str(e), std)
                    out.append(Case('communication_control', (lambda c, e=e: hist.invoke_entry(c, e)), line, ok, canon_simple(e, std) if ok else None,
                                    {'standard_version': std}, sid=0x28))
    return out


GENERATORS = [('cc', gen_cc), ('rdbi', gen_rdbi), ('wdbi', gen_wdbi), ('io', gen_io), ('dtc', gen_dtc), ('wwh', gen_wwh), ('rft', gen_rft), ('auth', gen_auth), ('ddd', gen_ddd),
              ('simple', gen_simple)]


def gen_mem(rng, n):
    """memory-addressed requests (widths are C14's subject; here: the whole frame decodes to the arguments)"""
    from .props import c14
    out = []
    for _ in range(n):
        k = rng.choice(c14.KINDS)
        bits = rng.choice([0, 1, 8, 9, 16, 24, 32, 33, 40, 48, 56, 63, 64])
        a = rng.getrandbits(bits) if bits else 0
        bits = rng.choice([0, 1, 8, 16, 17, 32, 64])
        z = rng.getrandbits(bits) if bits else 0
        if rng.random() < 0.1:
            a = rng.choice([-1, 2 ** 64, 2 ** 64 + 5])
        af, mf, caf, cmf = (rng.choice(c14.FORMATS[:9]) for _ in range(4))
        if rng.random() < 0.08:
            af = rng.choice([0, 12, 72])
        data = rb(rng, rng.randrange(0, 5)) if k == 'write' else b''
        dfi = rng.randrange(256)
        exp = c14.expected_widths(a, z, af, mf, caf, cmf)
        in_dom = exp is not None

        def invoke(c, k=k, a=a, z=z, af=af, mf=mf, data=data, dfi=dfi):
            ml = MemoryLocation(a, z, af, mf)
            if k == 'read':
                return c.read_memory_by_address(ml)
            if k == 'write':
                return c.write_memory_by_address(ml, data)
            d = DataFormatIdentifier(dfi >> 4, dfi & 0xF)
            return c.request_download(ml, d) if k == 'download' else c.request_upload(ml, d)
        line = 'ml.req kind=%s a=%d s=%d af=%s mf=%s caf=%s cmf=%s data=%s dfi=%d' % (k, a, z, oint(af), oint(mf), oint(caf), oint(cmf), hx(data), dfi)
        canon = None
        if in_dom:
            al, sl = exp[0] // 8, exp[1] // 8
            canon = {'read': 'readMem %d %d %d %d' % (al, sl, a, z), 'write': 'writeMem %d %d %d %d %s' % (al, sl, a, z, hx(data)),
                     'download': 'download %d %d %d %d %d' % (dfi, al, sl, a, z), 'upload': 'upload %d %d %d %d %d' % (dfi, al, sl, a, z)}[k]
        out.append(Case({'read': 'read_memory_by_address', 'write': 'write_memory_by_address', 'download': 'request_download', 'upload': 'request_upload'}[k],
                        invoke, line, in_dom, canon, {'server_address_format': caf, 'server_memorysize_format': cmf},
                        sid={'read': 0x23, 'write': 0x3D, 'download': 0x34, 'upload': 0x35}[k]))
    return out


GENERATORS.append(('mem', gen_mem))
