#!/bin/sh
# setup: regenerate lean/Uds/Generated from /repo's working tree, then build everything (Lean libs + native driver)
cd "$(dirname "$0")" || exit 2
export PYTHONPATH=/repo:$(pwd)
/venv/bin/python -c "from harness import extract; extract.generate(sorted(extract.GENERATORS))" || exit 2
cd lean && lake build
