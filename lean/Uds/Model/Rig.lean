import Uds.Model.DecodeDtc
import Uds.Model.MemLoc
import Uds.Model.Send
import Uds.Spec.Ecu
/-
  The client model composed with the reference ECU (`Uds.Spec.Ecu`): one client call = build the request (Model.Encode /
  Model.MemLoc / Model.Simple), hand its payload to the ECU, classify the reply exactly as `send_request` does
  (`Response.fromPayload`, `classifyResp`), interpret it and run the client's checks (Model.Decode).

  The client model has no per-call state: the only thing a call leaves behind is the ECU's state.  (That the real client
  leaves nothing else behind is what the history correspondence of C12 checks.)
-/
namespace Uds.Model
open Uds.Spec (Ecu)

structure RigCfg where
  dids : DidCfg := {}
  tol : Bool := true
  caf : Option Int := none            -- `server_address_format`
  cmf : Option Int := none            -- `server_memorysize_format`
  std : Nat := 2020
  deriving DecidableEq, Repr

inductive RCall where
  | wdbi (did : Int) (v : Bytes)
  | rdbi (dids : List Int)
  | writeMem (a s : Int) (af mf : Option Int) (data : Bytes)
  | readMem (a s : Int) (af mf : Option Int)
  | xferReq (upload : Bool) (a s : Int) (af mf : Option Int) (dfi : Nat)
  | simple (e : Entry)
  deriving DecidableEq, Repr

inductive RData where
  | sd (s : SData)
  | wm (e : WriteMemEcho)
  deriving DecidableEq, Repr

/-- the reply as `send_request` sees it (the ECU answers at once: no timing, no 0x78) -/
def classifyReply (svc : Service) (reply : Bytes) : Py Response :=
  if reply = [] then throw .timeout
  else
    let r := Response.fromPayload reply
    match classifyResp (svc.sid + 0x40) r with
    | .positive => pure r
    | .negative c => throw (.negative c)
    | .invalid => throw .invalid
    | .unexpected => throw .unexpected
    | .pending => throw .timeout
    | .assertFail => throw .assertErr

/-- send the request's payload to the ECU and classify the reply -/
def exchange (ecu : Ecu) (req : Request) : Ecu × Py Response :=
  match req.getPayload none, req.service with
  | .ok p, some svc =>
    let out := ecu.step p
    (out.1, classifyReply svc out.2)
  | .error err, _ => (ecu, throw err)
  | .ok _, none => (ecu, throw .valueErr)

def MemLoc.ready (cfg : RigCfg) (a s : Int) (af mf : Option Int) : Py MemLoc := do
  let ml ← MemLoc.new a s af mf
  ml.applyConfig cfg.caf cfg.cmf

/-- the request a call builds (nothing is sent when this fails) and the interpretation + checks run on the reply data -/
def RCall.request (cfg : RigCfg) : RCall → Py Request
  | .wdbi did v => wdbiMakeRequest cfg.dids did v
  | .rdbi dids => rdbiMakeRequest (some cfg.dids) dids
  | .writeMem a s af mf data => do let ml ← MemLoc.ready cfg a s af mf; writeMemMakeRequest ml data
  | .readMem a s af mf => do let ml ← MemLoc.ready cfg a s af mf; readMemMakeRequest ml
  | .xferReq up a s af mf dfi => do let ml ← MemLoc.ready cfg a s af mf; requestXferMakeRequest up ml dfi
  | .simple e => e.makeRequest cfg.std

def RCall.interpret (cfg : RigCfg) (c : RCall) (d : Bytes) : Py RData :=
  match c with
  | .wdbi did _ => do let r ← wdbiClient did.toNat d; pure (.sd r)
  | .rdbi dids => do let r ← rdbiClient cfg.dids cfg.tol (dids.map Int.toNat) d; pure (.sd r)
  | .writeMem a s af mf _ => do let ml ← MemLoc.ready cfg a s af mf; let e ← writeMemPost ml d; pure (.wm e)
  | .readMem a s af mf => do let ml ← MemLoc.ready cfg a s af mf; let r ← readMemClient ml.size.toNat cfg.tol d; pure (.sd r)
  | .xferReq _ _ _ _ _ _ => do let r ← xferInterpret d; pure (.sd r)
  | .simple e => do let r ← simpleClient cfg.std e d; pure (.sd r)

/-- one client call against the ECU -/
def rigStep (cfg : RigCfg) (ecu : Ecu) (c : RCall) : Ecu × Py RData :=
  match c.request cfg with
  | .error err => (ecu, throw err)
  | .ok req =>
    let x := exchange ecu req
    match x.2 with
    | .error err => (x.1, throw err)
    | .ok resp => (x.1, c.interpret cfg resp.data)

/-- the same call when the reply arrives too late (after the request timeout): the ECU has executed the request, the caller gets a timeout -/
def rigStepLate (cfg : RigCfg) (ecu : Ecu) (c : RCall) : Ecu × Py RData :=
  match c.request cfg with
  | .error err => (ecu, throw err)
  | .ok req =>
    match req.getPayload none, req.service with
    | .ok p, some _ => ((ecu.step p).1, throw .timeout)
    | .error err, _ => (ecu, throw err)
    | .ok _, none => (ecu, throw .valueErr)

/-- a history of calls -/
def rigRun (cfg : RigCfg) (ecu : Ecu) (cs : List RCall) : Ecu := cs.foldl (fun e c => (rigStep cfg e c).1) ecu

end Uds.Model
