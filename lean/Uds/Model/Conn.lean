import Uds.Basic
/-
  Mirror of udsoncan/connections.py: BaseConnection.send / wait_frame, QueueConnection and
  SocketConnection as labelled transition systems.  One `step` per atomic action of one of the three
  parties (peer, receiver thread, consumer); an arbitrary action list is an arbitrary interleaving.

  Atomicity assumed (named in the trusted base): `queue.Queue.put/get`, one iteration of the receiver
  loop (`select` → `recv` → `put`), `sock.send`.  Ghost fields (`sent`, `taken`) record history and are
  never read by the transitions.
-/
namespace Uds.Model.Conn

/-- what the OS socket does at the end of the peer's data -/
inductive Kind where
  | dgram      -- connectionless, message preserving (UDP-like): no end-of-stream, empty datagrams are messages
  | seqpacket  -- connection oriented, message preserving: `recv` returns b'' once the peer has closed
  | stream     -- connection oriented byte stream: `recv(n)` returns 1..n bytes, b'' at end of stream
  deriving DecidableEq, Repr

inductive Out where
  | none                    -- the action produces no value (or `wait_frame(exception=False)` returned None)
  | frame (b : Bytes)
  | timeout                 -- TimeoutException
  | runtimeErr              -- RuntimeError("Connection is not opened")
  | oserr                   -- the socket refused (send on a closed peer); propagates
  deriving DecidableEq, Repr

structure Sock where
  kind : Kind
  bufsize : Nat
  opened : Bool := false
  exitReq : Bool := false
  alive : Bool := false             -- the receiver thread is inside its `while not exit_requested` loop
  osbuf : List Bytes := []          -- message kinds: datagrams queued in the kernel; stream: the unread bytes as chunks
  peerClosed : Bool := false
  rxq : List Bytes := []            -- `rxqueue`
  toPeer : List Bytes := []         -- what `sock.send` handed to the kernel
  -- ghost history
  sent : List Bytes := []           -- everything the peer wrote, in order
  taken : List (Bytes × Bool) := [] -- everything removed from `rxqueue`, in order; true = returned by wait_frame, false = discarded by empty_rxqueue
  deriving DecidableEq, Repr

inductive Act where
  | open
  | close                   -- `close()` when the thread is idle in `select`
  | closeRacing             -- `close()` racing an iteration that already passed the loop test: that iteration completes first
  | peerSend (f : Bytes)
  | peerClose
  | rxStep (k : Nat)        -- one iteration of the receiver loop; on a stream socket the kernel hands over `k` bytes (1 ≤ k ≤ bufsize)
  | rxFault                 -- `select`/`recv` raises inside the loop
  | get (exc : Bool)        -- `wait_frame(timeout, exception=exc)`; times out iff the queue is empty for the whole wait
  | flush                   -- `empty_rxqueue()`
  | send (p : Bytes)        -- `send(p)`
  deriving DecidableEq, Repr

def flat (l : List Bytes) : Bytes := l.flatten

/-- what one `recv(bufsize)` returns and leaves; `none` = nothing readable (select times out) -/
def recv (s : Sock) (k : Nat) : Option (Bytes × List Bytes) :=
  match s.kind with
  | .stream =>
    let all := flat s.osbuf
    if all.isEmpty then (if s.peerClosed then some ([], []) else none)
    else
      let n := max 1 (min k s.bufsize)
      some (all.take n, if (all.drop n).isEmpty then [] else [all.drop n])
  | .seqpacket =>
    match s.osbuf with
    | m :: rest => some (m.take s.bufsize, rest)
    | [] => if s.peerClosed then some ([], []) else none
  | .dgram =>
    match s.osbuf with
    | m :: rest => some (m.take s.bufsize, rest)
    | [] => none

/-- one iteration of `rxthread_task` that has passed the `while not exit_requested` test -/
def rxBody (s : Sock) (k : Nat) : Sock :=
  match recv s k with
  | none => s                                                    -- `events` empty
  | some (data, rest) =>
    if data.isEmpty && s.kind != .dgram then { s with alive := false }         -- end of stream: leave the loop, queue nothing
    else { s with osbuf := rest, rxq := s.rxq ++ [data] }

def step (s : Sock) : Act → Sock × Out
  | .open => ({ s with exitReq := false, alive := true, opened := true }, .none)      -- a new thread is started
  | .close => ({ s with exitReq := true, alive := false, opened := false }, .none)    -- join returns once the loop test fails
  | .closeRacing =>
    let s1 := if s.alive && !s.exitReq then rxBody s s.bufsize else s
    ({ s1 with exitReq := true, alive := false, opened := false }, .none)
  | .peerSend f =>
    if s.peerClosed then (s, .none)
    else ({ s with osbuf := s.osbuf ++ [f], sent := s.sent ++ [f] }, .none)
  | .peerClose => ({ s with peerClosed := true }, .none)
  | .rxStep k =>
    if !s.alive then (s, .none)
    else if s.exitReq then ({ s with alive := false }, .none)
    else (rxBody s k, .none)
  | .rxFault =>
    if s.alive && !s.exitReq then ({ s with exitReq := true, alive := false }, .none) else (s, .none)
  | .get exc =>
    if !s.opened then (s, .runtimeErr)
    else match s.rxq with
      | f :: rest => ({ s with rxq := rest, taken := s.taken ++ [(f, true)] }, .frame f)
      | [] => (s, if exc then .timeout else .none)
  | .flush => ({ s with rxq := [], taken := s.taken ++ s.rxq.map (fun f => (f, false)) }, .none)
  | .send p =>
    if !s.opened then (s, .runtimeErr)
    else if s.peerClosed && s.kind != .dgram then (s, .oserr)
    else ({ s with toPeer := s.toPeer ++ [p] }, .none)

def run (s : Sock) : List Act → Sock × List Out
  | [] => (s, [])
  | a :: as =>
    let (s1, o) := step s a
    let (s2, os) := run s1 as
    (s2, o :: os)

/-- frames returned by `wait_frame`, in order -/
def delivered (s : Sock) : List Bytes := (s.taken.filter (·.2)).map (·.1)

/-! ### QueueConnection -/

structure QConn where
  mtu : Nat
  opened : Bool := false
  fromUser : List Bytes := []
  toUser : List Bytes := []
  sent : List Bytes := []                 -- ghost: what the peer put into `fromuserqueue`
  taken : List (Bytes × Bool) := []       -- ghost: removed from the queue; true = returned by wait_frame (after MTU truncation)
  deriving DecidableEq, Repr

inductive QAct where
  | open | close
  | peerPut (f : Bytes)
  | get (exc : Bool)
  | flush
  | send (p : Bytes)
  deriving DecidableEq, Repr

def qstep (s : QConn) : QAct → QConn × Out
  | .open => ({ s with opened := true }, .none)
  | .close => ({ s with opened := false, fromUser := [], toUser := [],
                        taken := s.taken ++ s.fromUser.map (fun f => (f.take s.mtu, false)) }, .none)
  | .peerPut f => ({ s with fromUser := s.fromUser ++ [f], sent := s.sent ++ [f] }, .none)
  | .get exc =>
    if !s.opened then (s, .runtimeErr)
    else match s.fromUser with
      | f :: rest => ({ s with fromUser := rest, taken := s.taken ++ [(f.take s.mtu, true)] }, .frame (f.take s.mtu))
      | [] => (s, if exc then .timeout else .none)
  | .flush => ({ s with fromUser := [], taken := s.taken ++ s.fromUser.map (fun f => (f.take s.mtu, false)) }, .none)
  | .send p =>
    if !s.opened then (s, .runtimeErr)
    else ({ s with toUser := s.toUser ++ [p.take s.mtu] }, .none)

def qrun (s : QConn) : List QAct → QConn × List Out
  | [] => (s, [])
  | a :: as =>
    let (s1, o) := qstep s a
    let (s2, os) := qrun s1 as
    (s2, o :: os)

def qdelivered (s : QConn) : List Bytes := (s.taken.filter (·.2)).map (·.1)

end Uds.Model.Conn
