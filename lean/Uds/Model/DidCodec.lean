import Uds.Basic
/-
  common/DidCodec.py: the pack-string codec (`DidCodec(packstr)`, obtained from a `str` entry of `data_identifiers` by
  `make_did_codec_from_definition`) and `AsciiCodec`, together with the part of Python's `struct` module they rest on:
  byte-order character, repeat counts, pad bytes and the integer codes `b B h H i I l L q Q`.

  `struct` is the standard library, not the repository: it is *modelled* here (sizes, alignment of native mode on the
  x86-64 Linux of this sandbox, two's complement, range check) and tied by the `codec` correspondence suite.
  Format codes outside the integer subset (`f d e s p c ? n N P`) are reported as `unsupported` — the theorems say nothing about them.
-/
namespace Uds.Model

inductive ByteOrder where
  | big          -- '>' and '!'
  | little       -- '<' and '='
  | native       -- '@' or no prefix: little endian, native sizes and alignment
  deriving DecidableEq, Repr

inductive Tok where
  | int (signed : Bool) (w : Nat)
  | pad
  deriving DecidableEq, Repr

/-- size of an integer code: standard sizes, or the native ones (`l`/`L` are 8 bytes) -/
def codeTok (bo : ByteOrder) (c : Char) : Option Tok :=
  let long := if bo == .native then 8 else 4
  match c with
  | 'x' => some .pad
  | 'b' => some (.int true 1) | 'B' => some (.int false 1)
  | 'h' => some (.int true 2) | 'H' => some (.int false 2)
  | 'i' => some (.int true 4) | 'I' => some (.int false 4)
  | 'l' => some (.int true long) | 'L' => some (.int false long)
  | 'q' => some (.int true 8) | 'Q' => some (.int false 8)
  | _ => none

def isSpace (c : Char) : Bool := c == ' ' || c == '\t' || c == '\n' || c == '\r' || c == '\x0b' || c == '\x0c'

/-- the items of a pack string after the byte-order character: `[count]code …`; `none` = a code outside the modelled subset
    (or a malformed string, which `struct` rejects with `struct.error`) -/
def parseItems (bo : ByteOrder) : List Char → Option Nat → Option (List Tok)
  | [], none => some []
  | [], some _ => none                                -- a count without a code
  | c :: rest, cnt =>
    if c.isDigit then parseItems bo rest (some (cnt.getD 0 * 10 + (c.toNat - 48)))
    else if isSpace c then (if cnt.isSome then none else parseItems bo rest none)
    else if cnt == some 0 then none                    -- a zero count only aligns (native mode): outside the modelled subset
    else match codeTok bo c, parseItems bo rest none with
      | some t, some ts => some (List.replicate (cnt.getD 1) t ++ ts)
      | _, _ => none

structure PackFmt where
  bo : ByteOrder
  toks : List Tok
  deriving DecidableEq, Repr

def parsePackStr (s : String) : Option PackFmt :=
  match s.toList with
  | '>' :: r | '!' :: r => (parseItems .big r none).map (⟨.big, ·⟩)
  | '<' :: r | '=' :: r => (parseItems .little r none).map (⟨.little, ·⟩)
  | '@' :: r => (parseItems .native r none).map (⟨.native, ·⟩)
  | r => (parseItems .native r none).map (⟨.native, ·⟩)

/-- native mode aligns every integer on a multiple of its size -/
def alignPad (bo : ByteOrder) (off w : Nat) : Nat :=
  match bo with
  | .native => (w - off % w) % w
  | _ => 0

def inRange (signed : Bool) (w : Nat) (v : Int) : Bool :=
  let m : Nat := 256 ^ w
  if signed then decide (-((m / 2 : Nat) : Int) ≤ v ∧ v < ((m / 2 : Nat) : Int)) else decide (0 ≤ v ∧ v < (m : Int))

/-- two's complement on `w` bytes in the given byte order -/
def encInt (bo : ByteOrder) (w : Nat) (v : Int) : Bytes :=
  let m : Nat := 256 ^ w
  let be := toBE w (v % (m : Int)).toNat
  if bo == .big then be else be.reverse

def decInt (bo : ByteOrder) (signed : Bool) (w : Nat) (bs : Bytes) : Int :=
  let m : Nat := 256 ^ w
  let u := fromBE (if bo == .big then bs else bs.reverse)
  if signed && decide (u ≥ m / 2) then (u : Int) - (m : Int) else (u : Int)

def calcsizeFrom (bo : ByteOrder) : List Tok → Nat → Nat
  | [], off => off
  | .pad :: ts, off => calcsizeFrom bo ts (off + 1)
  | .int _ w :: ts, off => calcsizeFrom bo ts (off + alignPad bo off w + w)

/-- `struct.calcsize` -/
def PackFmt.size (f : PackFmt) : Nat := calcsizeFrom f.bo f.toks 0

/-- `struct.pack(fmt, *vals)`: as many values as integer items, each inside the range of its item -/
def packFrom (bo : ByteOrder) : List Tok → Nat → List Int → Py Bytes
  | [], _, [] => pure []
  | [], _, _ :: _ => throw .structErr
  | .pad :: ts, off, vs => do
    let r ← packFrom bo ts (off + 1) vs
    pure (0 :: r)
  | .int _ _ :: _, _, [] => throw .structErr
  | .int s w :: ts, off, v :: vs =>
    if !inRange s w v then throw .structErr
    else do
      let r ← packFrom bo ts (off + alignPad bo off w + w) vs
      pure (zeros (alignPad bo off w) ++ encInt bo w v ++ r)

def PackFmt.pack (f : PackFmt) (vals : List Int) : Py Bytes := packFrom f.bo f.toks 0 vals

def unpackFrom (bo : ByteOrder) : List Tok → Nat → Bytes → List Int
  | [], _, _ => []
  | .pad :: ts, off, bs => unpackFrom bo ts (off + 1) (bs.drop 1)
  | .int s w :: ts, off, bs =>
    decInt bo s w ((bs.drop (alignPad bo off w)).take w) :: unpackFrom bo ts (off + alignPad bo off w + w) (bs.drop (alignPad bo off w + w))

/-- `struct.unpack(fmt, data)`: the buffer must have exactly `calcsize` bytes -/
def PackFmt.unpack (f : PackFmt) (bs : Bytes) : Py (List Int) :=
  if bs.length = f.size then pure (unpackFrom f.bo f.toks 0 bs) else throw .structErr

/-! ### the two codecs of the library -/

/-- what the caller hands to `write_data_by_identifier` / gets back from `read_data_by_identifier` -/
inductive Val where
  | one (v : Int)              -- a scalar
  | tuple (l : List Int)       -- a tuple (what `struct.unpack` returns, and what `encode(*value)` spreads)
  | str (cs : List Nat)        -- a text, by code points
  deriving DecidableEq, Repr

inductive Codec where
  | pack (s : String)          -- `DidCodec(packstr = s)` (a `str` entry of the configuration)
  | ascii (n : Nat)            -- `AsciiCodec(n)`
  deriving DecidableEq, Repr

/-- `len(codec)` -/
def Codec.len : Codec → Py Nat
  | .pack s => match parsePackStr s with
    | some f => pure f.size
    | none => throw .structErr
  | .ascii n => pure n

/-- `WriteDataByIdentifier.make_request`: a plain `DidCodec` gets a tuple spread over its arguments, anything else the value itself -/
def Codec.encode : Codec → Val → Py Bytes
  | .pack s, v =>
    match parsePackStr s with
    | none => throw .structErr
    | some f =>
      match v with
      | .one x => f.pack [x]
      | .tuple l => f.pack l
      | .str _ => throw .structErr                    -- a text where an integer is required
  | .ascii n, .str cs =>
    if cs.length ≠ n then throw .valueErr
    else if cs.all (· < 128) then pure (cs.map UInt8.ofNat) else throw .valueErr     -- UnicodeEncodeError is a ValueError
  | .ascii _, _ => throw .valueErr

/-- `codec.decode(payload)` -/
def Codec.decode : Codec → Bytes → Py Val
  | .pack s, bs =>
    match parsePackStr s with
    | none => throw .structErr
    | some f => do let l ← f.unpack bs; pure (.tuple l)
  | .ascii n, bs =>
    if bs.all (·.toNat < 128) then (if bs.length ≠ n then throw .valueErr else pure (.str (bs.map (·.toNat)))) else throw .valueErr

/-- a scalar and the one-element tuple are the same value on the wire (`struct.unpack` always returns a tuple) -/
def Val.norm : Val → Val
  | .one x => .tuple [x]
  | v => v

end Uds.Model
