import Uds.Basic
/-
  Model constants for the message layer: the service table and the response-code table.
  These are *hand-written*; `Uds/Tie/Tables.lean` proves them equal to what the extractor reads
  out of /repo on every run (`Uds/Generated/Tables.lean`).
-/
namespace Uds.Model

structure Service where
  name : String
  sid : Nat
  useSubfn : Bool
  hasRespData : Bool
  deriving DecidableEq, Repr, Inhabited

/-- every transitive subclass of `BaseService`, in `__get_all_subclasses` order -/
def services : List Service := [
  ⟨"DiagnosticSessionControl", 0x10, true, true⟩,
  ⟨"ECUReset", 0x11, true, true⟩,
  ⟨"SecurityAccess", 0x27, true, true⟩,
  ⟨"CommunicationControl", 0x28, true, true⟩,
  ⟨"AccessTimingParameter", 0x83, true, true⟩,
  ⟨"SecuredDataTransmission", 0x84, true, true⟩,
  ⟨"TesterPresent", 0x3E, true, true⟩,
  ⟨"ControlDTCSetting", 0x85, true, true⟩,
  ⟨"ResponseOnEvent", 0x86, true, true⟩,
  ⟨"LinkControl", 0x87, true, true⟩,
  ⟨"ReadDataByIdentifier", 0x22, false, true⟩,
  ⟨"WriteDataByIdentifier", 0x2E, false, true⟩,
  ⟨"ReadMemoryByAddress", 0x23, false, true⟩,
  ⟨"InputOutputControlByIdentifier", 0x2F, false, true⟩,
  ⟨"RoutineControl", 0x31, true, true⟩,
  ⟨"ReadScalingDataByIdentifier", 0x24, true, true⟩,
  ⟨"ReadDataByPeriodicIdentifier", 0x2A, true, true⟩,
  ⟨"WriteMemoryByAddress", 0x3D, false, true⟩,
  ⟨"DynamicallyDefineDataIdentifier", 0x2C, true, true⟩,
  ⟨"ClearDiagnosticInformation", 0x14, false, false⟩,
  ⟨"ReadDTCInformation", 0x19, true, true⟩,
  ⟨"RequestDownload", 0x34, false, true⟩,
  ⟨"RequestUpload", 0x35, false, true⟩,
  ⟨"TransferData", 0x36, false, true⟩,
  ⟨"RequestTransferExit", 0x37, false, false⟩,
  ⟨"RequestFileTransfer", 0x38, false, true⟩,
  ⟨"Authentication", 0x29, true, true⟩ ]

/-- `BaseService.from_request_id`: first subclass whose request id matches -/
def fromRequestId (id : Nat) : Option Service := services.find? (fun s => s.sid == id)

/-- `BaseService.from_response_id` -/
def fromResponseId (id : Nat) : Option Service := services.find? (fun s => s.sid + 0x40 == id)

/-- the integer class attributes of `ResponseCode` in `inspect.getmembers` (name-sorted) order -/
def rcTable : List (String × Nat) := [
  ("AccessDenied", 0x3C), ("AuditTrailInformationNotAvailable", 0x40), ("AuthenticationRequired", 0x34),
  ("BrakeSwitchNotClosed", 0x8F), ("BusyRepeatRequest", 0x21), ("CertificateNotAvailable", 0x3F),
  ("CertificateVerificationFailed_InvalidCertificate", 0x57), ("CertificateVerificationFailed_InvalidChainOfTrust", 0x52),
  ("CertificateVerificationFailed_InvalidContent", 0x55), ("CertificateVerificationFailed_InvalidFormat", 0x54),
  ("CertificateVerificationFailed_InvalidScope", 0x56), ("CertificateVerificationFailed_InvalidSignature", 0x51),
  ("CertificateVerificationFailed_InvalidTimePeriod", 0x50), ("CertificateVerificationFailed_InvalidType", 0x53),
  ("ChallengeCalculationFailed", 0x59), ("ConditionsNotCorrect", 0x22), ("ConfigurationDataUsageFailed", 0x5C),
  ("DeAuthenticationFailed", 0x5D), ("EngineIsNotRunning", 0x84), ("EngineIsRunning", 0x83),
  ("EngineRunTimeTooLow", 0x85), ("ExceedNumberOfAttempts", 0x36), ("FailurePreventsExecutionOfRequestedAction", 0x26),
  ("GeneralProgrammingFailure", 0x72), ("GeneralReject", 0x10), ("GeneralSecurityViolation", 0x38),
  ("IncorrectMessageLengthOrInvalidFormat", 0x13), ("InsufficientProtection", 0x3A), ("InvalidKey", 0x35),
  ("NoResponseFromSubnetComponent", 0x25), ("OwnershipVerificationFailed", 0x58), ("PositiveResponse", 0x00),
  ("RequestCorrectlyReceived_ResponsePending", 0x78), ("RequestOutOfRange", 0x31), ("RequestSequenceError", 0x24),
  ("RequiredTimeDelayNotExpired", 0x37), ("ResourceTemporarilyNotAvailable", 0x94), ("ResponseTooLong", 0x14),
  ("RpmTooHigh", 0x81), ("RpmTooLow", 0x82), ("SecureDataTransmissionNotAllowed", 0x39),
  ("SecureDataTransmissionRequired", 0x38), ("SecureDataVerificationFailed", 0x3A), ("SecuredLinkNotSupported", 0x3E),
  ("SecuredModeRequested", 0x39), ("SecurityAccessDenied", 0x33), ("ServiceNotSupported", 0x11),
  ("ServiceNotSupportedInActiveSession", 0x7F), ("SessionKeyCreationDerivationFailed", 0x5B),
  ("SettingAccessRightsFailed", 0x5A), ("ShifterLeverNotInPark", 0x90), ("SubFunctionNotSupported", 0x12),
  ("SubFunctionNotSupportedInActiveSession", 0x7E), ("TemperatureTooHigh", 0x86), ("TemperatureTooLow", 0x87),
  ("TerminationWithSignatureRequested", 0x3B), ("ThrottlePedalTooHigh", 0x8A), ("ThrottlePedalTooLow", 0x8B),
  ("TorqueConverterClutchLocked", 0x91), ("TransferDataSuspended", 0x71), ("TransmissionRangeNotInGear", 0x8D),
  ("TransmissionRangeNotInNeutral", 0x8C), ("UploadDownloadNotAccepted", 0x70), ("VehicleSpeedTooHigh", 0x88),
  ("VehicleSpeedTooLow", 0x89), ("VersionNotSupported", 0x3D), ("VoltageTooHigh", 0x92), ("VoltageTooLow", 0x93),
  ("WrongBlockSequenceCounter", 0x73) ]

/-- `ResponseCode.get_name` for an integer argument -/
def rcName (c : Nat) : String :=
  match rcTable.find? (fun m => m.2 == c) with
  | some m => m.1
  | none => toString c

/-- `ResponseCode.is_negative` for an integer argument -/
def isNegative (c : Nat) : Bool := c != 0

end Uds.Model
