import Uds.Model.Client
import Uds.Model.Codecs
/-
  Mirror of the "simple" services (one subfunction / echo byte, optional payload): make_request,
  interpret_response and the echo comparisons of the corresponding Client methods.
  DiagnosticSessionControl, ECUReset, SecurityAccess, TesterPresent, CommunicationControl,
  AccessTimingParameter, ControlDTCSetting, LinkControl, RoutineControl, TransferData,
  RequestTransferExit, ClearDiagnosticInformation.
-/
namespace Uds.Model

def svc (name : String) : Service := (services.find? (·.name == name)).getD default

/-- `tools.validate_int(value, min, max)` for an int argument -/
def validateInt (v lo hi : Int) : Py Unit := if v < lo || v > hi then throw .valueErr else pure ()

/-- `Request(service=cls, subfunction=sf, data=data)` -/
def mkReq (name : String) (sf : Option Nat) (data : Option Bytes) : Request :=
  { service := some (svc name), subfunction := sf, spr := false, data := data }

/-! ### make_request -/

def dscMakeRequest (session : Int) : Py Request := do
  validateInt session 0 0x7F
  pure (mkReq "DiagnosticSessionControl" (some session.toNat) none)

def ecuResetMakeRequest (t : Int) : Py Request := do
  validateInt t 0 0x7F
  pure (mkReq "ECUReset" (some t.toNat) none)

inductive SaMode where | requestSeed | sendKey deriving DecidableEq, Repr

/-- `SecurityAccess.normalize_level` -/
def normalizeLevel (mode : SaMode) (level : Int) : Py Nat := do
  validateInt level 1 0x7E
  match mode with
  | .requestSeed => pure (if level % 2 == 1 then level.toNat else (level - 1).toNat)
  | .sendKey => pure (if level % 2 == 0 then level.toNat else (level + 1).toNat)

def saMakeRequest (level : Int) (mode : SaMode) (data : Bytes) : Py Request := do
  validateInt level 0 0x7F
  let sf ← normalizeLevel mode level
  pure (mkReq "SecurityAccess" (some sf) (some data))

def testerPresentMakeRequest : Py Request := pure (mkReq "TesterPresent" (some 0) none)

/-- `CommunicationControl.make_request` with the communication type given as an int (normalised through
    `CommunicationType.from_byte`) -/
def commControlMakeRequest (std : Nat) (controlType : Int) (commType : Nat) (nodeId : Option Int) : Py Request := do
  validateInt controlType 0 0x7F
  let requireNode := decide (std ≥ 2013) && (controlType == 4 || controlType == 5)
  if requireNode && nodeId.isNone then throw .valueErr
  if !requireNode && nodeId.isSome then throw .valueErr
  let ct ← CommType.fromByte commType
  let payload ← packB ct.toByte
  match nodeId with
  | none => pure (mkReq "CommunicationControl" (some controlType.toNat) (some payload))
  | some n => do
    validateInt n 0 0xFFFF
    pure (mkReq "CommunicationControl" (some controlType.toNat) (some (payload ++ toBE 2 n.toNat)))

def accessTimingMakeRequest (accessType : Int) (record : Option Bytes) : Py Request := do
  validateInt accessType 0 0x7F
  if record.isSome && accessType != 4 then throw .valueErr
  if record.isNone && accessType == 4 then throw .valueErr
  pure (mkReq "AccessTimingParameter" (some accessType.toNat) (some (record.getD [])))

def controlDtcMakeRequest (settingType : Int) (data : Option Bytes) : Py Request := do
  validateInt settingType 0 0x7F
  pure (mkReq "ControlDTCSetting" (some settingType.toNat) data)

/-- the baud-rate argument must be given exactly with control types 1 and 2 -/
def linkCheckPresence (controlType : Int) (baud : Option Baudrate) : Py Unit :=
  if controlType == 1 || controlType == 2 then guardPy baud.isNone .valueErr else guardPy baud.isSome .valueErr

/-- type 2 transmits the effective rate as a specific baud rate; type 1 turns a specific rate into its standard identifier -/
def linkBaud (controlType : Int) (b : Baudrate) : Py Baudrate :=
  if controlType == 2 then b.makeNewType .specific
  else if controlType == 1 && b.baudtype == .specific then b.makeNewType .fixed
  else pure b

/-- `LinkControl.make_request` -/
def linkControlMakeRequest (controlType : Int) (baud : Option Baudrate) : Py Request := do
  validateInt controlType 0 0x7F
  linkCheckPresence controlType baud
  match baud with
  | none => pure (mkReq "LinkControl" (some controlType.toNat) none)
  | some b => do
    let b' ← linkBaud controlType b
    let bs ← b'.getBytes
    pure (mkReq "LinkControl" (some controlType.toNat) (some bs))

def routineControlMakeRequest (rid ct : Int) (data : Option Bytes) : Py Request := do
  validateInt rid 0 0xFFFF
  validateInt ct 0 0x7F
  pure (mkReq "RoutineControl" (some ct.toNat) (some (toBE 2 rid.toNat ++ data.getD [])))

def transferDataMakeRequest (seq : Int) (data : Option Bytes) : Py Request := do
  validateInt seq 0 0xFF
  pure (mkReq "TransferData" none (some ([UInt8.ofNat seq.toNat] ++ data.getD [])))

def transferExitMakeRequest (data : Option Bytes) : Py Request :=
  pure (mkReq "RequestTransferExit" none data)

def clearDtcMakeRequest (std : Nat) (group : Int) (memorySelection : Option Int) : Py Request := do
  validateInt group 0 0xFFFFFF
  let g := packDtc group.toNat
  match memorySelection with
  | none => pure (mkReq "ClearDiagnosticInformation" none (some g))
  | some m => do
    if std < 2020 then throw .notImpl
    validateInt m 0 0xFF
    pure (mkReq "ClearDiagnosticInformation" none (some (g ++ [UInt8.ofNat m.toNat])))

/-! ### interpret_response + the client's echo comparisons.  `d` is `response.data`. -/

/-- first byte as the echo; `InvalidResponseException` when there is none -/
def echo1 (d : Bytes) : Py Nat :=
  if d.length < 1 then throw .invalid else do let b ← idx d 0; pure b.toNat

structure DscData where
  sessionEcho : Nat
  params : Bytes
  timing : Option (Nat × Nat)      -- (P2 in ms, P2* in ms) = (a, 10·b)
  deriving DecidableEq, Repr

/-- `DiagnosticSessionControl.interpret_response` -/
def dscInterpret (std : Nat) (d : Bytes) : Py DscData := do
  let e ← echo1 d
  let params := if d.length > 1 then d.drop 1 else []
  if std ≥ 2013 then
    if d.length ≠ 5 then throw .invalid
    else
      let a := fromBE (slice d 1 3)
      let b := fromBE (slice d 3 5)
      pure { sessionEcho := e, params := params, timing := some (a, b * 10) }
  else pure { sessionEcho := e, params := params, timing := none }

/-- `ECUReset.interpret_response` followed by the echo comparison of `Client.ecu_reset` -/
def ecuResetPost (t : Int) (d : Bytes) : Py (Nat × Option Nat) := do
  let e ← echo1 d
  let pd ← if e == 4 then (if d.length < 2 then throw .invalid else do let b ← idx d 1; pure (some b.toNat)) else pure none
  if (e : Int) != t then throw .unexpected
  pure (e, pd)

/-- generic "first byte is the echo of the subfunction" post-check -/
def echoPost (expected : Int) (d : Bytes) : Py Nat := do
  let e ← echo1 d
  if (e : Int) != expected then throw .unexpected
  pure e

/-- `SecurityAccess.interpret_response` + level echo comparison (`request_seed` / `send_key`) -/
def saPost (mode : SaMode) (level : Int) (d : Bytes) : Py (Nat × Bytes) := do
  let minlen := if mode == .requestSeed then 2 else 1
  if d.length < minlen then throw .invalid
  let b ← idx d 0
  let seed := if mode == .requestSeed then d.drop 1 else []
  let expected ← normalizeLevel mode level
  if b.toNat != expected then throw .unexpected
  pure (b.toNat, seed)

/-- `RoutineControl.interpret_response` + the two echo comparisons -/
def routineControlPost (rid ct : Int) (d : Bytes) : Py (Nat × Nat × Bytes) := do
  if d.length < 3 then throw .invalid
  let e ← idx d 0
  let r := fromBE (slice d 1 3)
  if ct != (e.toNat : Int) then throw .unexpected
  if rid != (r : Int) then throw .unexpected
  pure (e.toNat, r, d.drop 3)

/-- `TransferData.interpret_response` + sequence-number echo -/
def transferDataPost (seq : Int) (d : Bytes) : Py (Nat × Bytes) := do
  let e ← echo1 d
  if seq != (e : Int) then throw .unexpected
  pure (e, d.drop 1)

end Uds.Model
