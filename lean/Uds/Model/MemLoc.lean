import Uds.Model.Msg
/-
  Mirror of udsoncan/common/MemoryLocation.py and AddressAndLengthFormatIdentifier.py, of the
  `set_format_if_none` calls the client makes with its `server_address_format` /
  `server_memorysize_format` configuration (client.py:947-951, 1209-1213, 1258-1262, 2137-2143),
  of the request builders of the five memory-addressed services, and of the echo decoding of
  WriteMemoryByAddress.interpret_response.
-/
namespace Uds.Model

/-- `ceil(v.bit_length() / 8)`: number of base-256 digits of `n` (0 for 0) -/
def byteLen (n : Nat) : Nat :=
  if h : n = 0 then 0 else 1 + byteLen (n / 256)
decreasing_by omega

/-- `MemoryLocation.autosize_address` / `autosize_memorysize` (`int.bit_length` ignores the sign) -/
def autosize (v : Int) : Py Nat :=
  let fmt := max 1 (byteLen v.natAbs) * 8
  if fmt > 64 then throw .valueErr else pure fmt

/-- `fmt in AddressAndLengthFormatIdentifier.address_map` (identical to `memsize_map`) -/
def widthOk (w : Int) : Bool := w == 8 || w == 16 || w == 24 || w == 32 || w == 40 || w == 48 || w == 56 || w == 64

/-- `AddressAndLengthFormatIdentifier(address_format, memorysize_format)` for int arguments -/
def mkAlfid (af mf : Int) : Py (Nat × Nat) :=
  if !widthOk af then throw .valueErr
  else if !widthOk mf then throw .valueErr
  else pure (af.toNat, mf.toNat)

/-- `fmt if fmt is not None else self.autosize_...(value)` -/
def resolveFmt (explicit : Option Int) (v : Int) : Py Int :=
  match explicit with
  | some x => pure x
  | none => match autosize v with
    | .ok n => pure (n : Int)
    | .error e => throw e

structure MemLoc where
  address : Int
  size : Int
  af : Option Int          -- `address_format` attribute (what the caller passed / what was configured)
  mf : Option Int          -- `memorysize_format` attribute
  alfidA : Nat             -- `alfid.address_format` (bits)
  alfidM : Nat             -- `alfid.memorysize_format` (bits)
  deriving DecidableEq, Repr

/-- `MemoryLocation.__init__` -/
def MemLoc.new (address size : Int) (af mf : Option Int) : Py MemLoc := do
  let a ← resolveFmt af address
  let m ← resolveFmt mf size
  let (x, y) ← mkAlfid a m
  pure { address := address, size := size, af := af, mf := mf, alfidA := x, alfidM := y }

/-- `MemoryLocation.set_format_if_none`; on failure the object is rolled back, i.e. the caller keeps `ml` -/
def MemLoc.setFormatIfNone (ml : MemLoc) (af mf : Option Int) : Py MemLoc := do
  let af' := match af, ml.af with | some x, none => some x | _, cur => cur
  let mf' := match mf, ml.mf with | some x, none => some x | _, cur => cur
  let a ← resolveFmt af' ml.address
  let m ← resolveFmt mf' ml.size
  let (x, y) ← mkAlfid a m
  pure { ml with af := af', mf := mf', alfidA := x, alfidM := y }

/-- the two calls every memory-addressed client method makes before building the request -/
def MemLoc.applyConfig (ml : MemLoc) (cfgAf cfgMf : Option Int) : Py MemLoc := do
  let ml1 ← ml.setFormatIfNone cfgAf none
  ml1.setFormatIfNone none cfgMf

/-- `alfid.get_byte_as_int()` -/
def MemLoc.alfidByte (ml : MemLoc) : Nat := (((ml.alfidM / 8) <<< 4) ||| (ml.alfidA / 8)) &&& 0xFF

/-- `get_address_bytes` / `get_memorysize_bytes`: `v.to_bytes(n, 'big')` guarded by the range check -/
def fieldBytes (v : Int) (bits : Nat) : Py Bytes :=
  let n := bits / 8
  if v < 0 then throw .valueErr          -- `self.address < 0`
  else if v.toNat ≥ 256 ^ n then throw .valueErr   -- `self.address >= (1 << (8 * n))`
  else pure (toBE n v.toNat)

def MemLoc.addressBytes (ml : MemLoc) : Py Bytes := fieldBytes ml.address ml.alfidA
def MemLoc.sizeBytes (ml : MemLoc) : Py Bytes := fieldBytes ml.size ml.alfidM

/-- the `alfid ++ address ++ size` part common to all memory-addressed requests -/
def MemLoc.wire (ml : MemLoc) : Py Bytes := do
  let a ← ml.addressBytes
  let s ← ml.sizeBytes
  pure ([UInt8.ofNat ml.alfidByte] ++ a ++ s)

/-! ### request builders (service make_request after the client's applyConfig) -/

def readMemMakeRequest (ml : MemLoc) : Py Request := do
  let w ← ml.wire
  pure { service := fromRequestId 0x23, data := some w }

def writeMemMakeRequest (ml : MemLoc) (data : Bytes) : Py Request := do
  let w ← ml.wire
  pure { service := fromRequestId 0x3D, data := some (w ++ data) }

/-- RequestDownload (`upload = false`) / RequestUpload (`upload = true`); `dfi` is the data format byte -/
def requestXferMakeRequest (upload : Bool) (ml : MemLoc) (dfi : Nat) : Py Request := do
  let d ← packB dfi
  let w ← ml.wire
  pure { service := fromRequestId (if upload then 0x35 else 0x34), data := some (d ++ w) }

/-- `DynamicDidDefinition.get_alfid` over memory-location entries -/
def dddAlfid : List MemLoc → Py Nat
  | [] => throw .valueErr
  | m :: rest => if rest.all (fun e => e.alfidByte == m.alfidByte) then pure m.alfidByte else throw .valueErr

def dddEntriesBytes : List MemLoc → Py Bytes
  | [] => pure []
  | m :: rest => do
    let a ← m.addressBytes
    let s ← m.sizeBytes
    let tl ← dddEntriesBytes rest
    pure (a ++ s ++ tl)

/-- DynamicallyDefineDataIdentifier.make_request(defineByMemoryAddress, did, entries) -/
def dddByMemMakeRequest (did : Int) (entries : List MemLoc) : Py Request := do
  if did < 0 || did > 0xFFFF then throw .valueErr
  if entries.isEmpty then throw .valueErr
  let al ← dddAlfid entries
  let body ← dddEntriesBytes entries
  pure { service := fromRequestId 0x2C, subfunction := some 2, data := some (toBE 2 did.toNat ++ [UInt8.ofNat al] ++ body) }

/-- the client loop over the entries: all address formats first, then all size formats
    (client.py:2137-2143); a failure in the middle leaves earlier entries modified, which is not observable
    on the wire because nothing is sent -/
def applyConfigAll (entries : List MemLoc) (cfgAf cfgMf : Option Int) : Py (List MemLoc) := do
  let e1 ← entries.mapM (fun e => e.setFormatIfNone cfgAf none)
  e1.mapM (fun e => e.setFormatIfNone none cfgMf)

/-! ### WriteMemoryByAddress.interpret_response + the echo comparisons of the client -/

structure WriteMemEcho where
  alfid : Nat
  address : Nat
  size : Nat
  deriving DecidableEq, Repr

def writeMemInterpret (ml : MemLoc) (d : Bytes) : Py WriteMemEcho := do
  let a ← ml.addressBytes
  let s ← ml.sizeBytes
  if d.length < 1 + a.length + s.length then throw .invalid
  let b0 ← idx d 0
  pure { alfid := b0.toNat, address := fromBE (slice d 1 (1 + a.length)),
         size := fromBE (slice d (1 + a.length) (1 + a.length + s.length)) }

def writeMemPost (ml : MemLoc) (d : Bytes) : Py WriteMemEcho := do
  let e ← writeMemInterpret ml d
  if e.alfid != ml.alfidByte then throw .unexpected
  if (e.address : Int) != ml.address then throw .unexpected
  if (e.size : Int) != ml.size then throw .unexpected
  pure e

end Uds.Model
