import Uds.Model.Msg
/-
  Mirror of `Client.send_request` (client.py:2219-2350): payload selection (suppress-positive-response,
  payload override), flush/send, the wait loop with P2 / P2* / overall deadline, 0x78 handling.

  Time is `Nat` ticks.  The connection contract is the stub's: a wait of `τ` started at `now` returns the
  first not-yet-consumed frame whose arrival instant is `≤ now + τ` (at `max now arrival`), otherwise it
  times out at `now + τ`.  Frames that were already queued before the call (`stale`) are discarded by
  `empty_rxqueue()`.
-/
namespace Uds.Model

structure Frame where
  arrival : Nat            -- ticks after the request was sent
  payload : Bytes
  deriving DecidableEq, Repr

inductive TimeoutKind where | p2 | p2star | overall
  deriving DecidableEq, Repr

inductive Op where
  | flush
  | send (p : Bytes)
  | wait (t : Nat) (tau : Nat)     -- wait_frame(timeout=tau) called at instant t (relative to send)
  | callback                        -- nrc78_callback()
  deriving DecidableEq, Repr

structure SendCfg where
  requestTimeout : Option Nat
  p2 : Nat
  p2star : Nat
  hasCallback : Bool
  deriving DecidableEq, Repr

structure Spr where
  enabled : Bool := false
  waitNrc : Bool := false
  deriving DecidableEq, Repr

/-- payload_override modifier: literal bytes, or a callable (a few representative callables) -/
inductive Modifier where
  | const (b : Bytes)
  | ident
  | append (b : Bytes)
  | xorFirst (k : UInt8)
  deriving DecidableEq, Repr

def Modifier.apply : Modifier → Bytes → Bytes
  | .const b, _ => b
  | .ident, p => p
  | .append b, p => p ++ b
  | .xorFirst k, p => match p with | [] => [] | x :: xs => (x ^^^ k) :: xs

structure ClientState where
  timing : Option (Nat × Nat) := none        -- server P2 / P2* in ticks, once adopted
  spr : Spr := {}
  override : Option Modifier := none          -- `payload_override.enabled` ↔ isSome
  deriving DecidableEq, Repr

inductive SendOutcome where
  | resp (r : Response)                       -- the response object is returned
  | none                                      -- None is returned
  | raised (e : PyErr) (r : Option Response) (kind : Option TimeoutKind)
  deriving DecidableEq, Repr

structure SendResult where
  log : List Op
  tEnd : Nat
  outcome : SendOutcome
  deriving DecidableEq, Repr

/-- client.py:2267-2272 — the timeout handed to `wait_frame` and which limit it is -/
def window (deadline : Option Nat) (now single : Nat) : Nat × Bool :=
  match deadline with
  | none => (single, false)
  | some d => if now + single < d then (single, false) else (d - now, true)

def timeoutKind (isOverall usingStar : Bool) : TimeoutKind :=
  if isOverall then .overall else if usingStar then .p2star else .p2

/-- what the loop decides about a received frame, in the order of the checks of client.py:2299-2339:
    `response.valid`, service id, polarity, code 0x78 -/
inductive FrameClass where
  | invalid | unexpected | pending | negative (c : Nat) | positive | assertFail
  deriving DecidableEq, Repr

def classifyResp (reqRid : Nat) (r : Response) : FrameClass :=
  if !r.valid then .invalid
  else match r.service, r.code with
    | some s, some c =>
      if s.sid + 0x40 != reqRid then .unexpected
      else if !r.positive then (if c == 0x78 then .pending else .negative c)
      else .positive
    | _, _ => .assertFail

/-- the `while not done_receiving` loop -/
def waitLoop (deadline : Option Nat) (p2starEff : Nat) (hasCb : Bool) (reqRid : Nat) (sprUsed : Bool) :
    (now single : Nat) → (usingStar : Bool) → (arrivals : List Frame) → SendResult
  | now, single, usingStar, arrivals =>
    let (w, isOverall) := window deadline now single
    let timedOut : SendResult :=
      { log := [.wait now w], tEnd := now + w,
        outcome := if sprUsed then .none else .raised .timeout none (some (timeoutKind isOverall usingStar)) }
    match arrivals with
    | [] => timedOut
    | f :: rest =>
      if f.arrival ≤ now + w then
        let t := max now f.arrival
        let r := Response.fromPayload f.payload
        match classifyResp reqRid r with
        | .invalid => { log := [.wait now w], tEnd := t, outcome := .raised .invalid (some r) none }
        | .assertFail => { log := [.wait now w], tEnd := t, outcome := .raised .assertErr (some r) none }
        | .unexpected => { log := [.wait now w], tEnd := t, outcome := .raised .unexpected (some r) none }
        | .negative c => { log := [.wait now w], tEnd := t, outcome := .raised (.negative c) (some r) none }
        | .positive => { log := [.wait now w], tEnd := t, outcome := if sprUsed then .none else .resp r }
        | .pending =>
          let next := waitLoop deadline p2starEff hasCb reqRid sprUsed t (if usingStar then single else p2starEff) true rest
          { next with log := [.wait now w] ++ (if hasCb then [.callback] else []) ++ next.log }
      else timedOut

def p2Eff (cfg : SendCfg) (st : ClientState) : Nat := match st.timing with | some t => t.1 | none => cfg.p2
def p2starEff (cfg : SendCfg) (st : ClientState) : Nat := match st.timing with | some t => t.2 | none => cfg.p2star

/-- `Client.send_request(request, timeout)`; `timeout = none` is the default `-1` -/
def sendRequest (cfg : SendCfg) (st : ClientState) (req : Request) (timeout : Option Nat)
    (arrivals : List Frame) : SendResult :=
  match req.service with
  | none => { log := [], tEnd := 0, outcome := .raised .valueErr none none }
  | some svc =>
    let (overall, single) := match timeout with
      | none =>
        let p2 := p2Eff cfg st
        (cfg.requestTimeout, match cfg.requestTimeout with | some o => min o p2 | none => p2)
      | some τ => (some τ, τ)
    let useOvr := st.spr.enabled && svc.useSubfn
    let payload? := if useOvr then req.getPayload (some true) else req.getPayload none
    match payload? with
    | .error e => { log := [.flush], tEnd := 0, outcome := .raised e none none }
    | .ok p0 =>
      let p := match st.override with | some m => m.apply p0 | none => p0
      let sprUsed := req.spr || useOvr
      let waitNrc := st.spr.enabled && st.spr.waitNrc
      if sprUsed && !waitNrc then { log := [.flush, .send p], tEnd := 0, outcome := .none }
      else
        let r := waitLoop overall (p2starEff cfg st) cfg.hasCallback (svc.sid + 0x40) sprUsed 0 single false arrivals
        { r with log := [.flush, .send p] ++ r.log }

end Uds.Model
