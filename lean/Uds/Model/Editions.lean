import Uds.Model.Simple
/-
  Mirror of the edition-dependent gates: ReadDTCInformation.check_subfunction_valid,
  Client.validate_config / set_config / set_configs / __init__ (the `standard_version` key only).
  (CommunicationControl's node-id rule, ClearDiagnosticInformation's memory selection and
  DiagnosticSessionControl's reply length are in `Uds/Model/Simple.lean`.)
-/
namespace Uds.Model

/-- the subfunctions `check_subfunction_valid` lists as added in 2020 -/
def subfunction2020 : List Nat := [0x17, 0x16, 0x18, 0x19, 0x1A, 0x42, 0x55, 0x56]

/-- `ReadDTCInformation.check_subfunction_valid` (the `vars(cls)` loop compares attribute *names* with
    the integer and therefore never rejects anything) -/
def checkSubfunctionValid (sf : Int) (std : Nat) : Py Unit := do
  validateInt sf 1 0xFF
  if subfunction2020.contains sf.toNat && std < 2020 then throw .notImpl
  pure ()

def validEditions : List Nat := [2006, 2013, 2020]

/-- `Client.validate_config` -/
def validateConfig (std : Nat) : Py Unit := if validEditions.contains std then pure () else throw .config

/-- `Client.set_config('standard_version', v)` / `set_configs({...})`: returns the edition stored in
    `client.config` afterwards and whether the call raised -/
def setEdition (current : Nat) (v : Nat) : Nat × Bool :=
  -- client.py: the update is applied, validated, and rolled back when refused
  if validEditions.contains v then (v, false) else (current, true)

/-- `Client(conn, config)` : construction fails (no client object) for an invalid edition -/
def initEdition (v : Nat) : Option Nat := if validEditions.contains v then some v else none

end Uds.Model
