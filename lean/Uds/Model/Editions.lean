import Uds.Model.Simple
/-
  Mirror of the edition-dependent gates: ReadDTCInformation.check_subfunction_valid,
  Client.validate_config / set_config / set_configs / __init__ (the `standard_version` key only).
  (CommunicationControl's node-id rule, ClearDiagnosticInformation's memory selection and
  DiagnosticSessionControl's reply length are in `Uds/Model/Simple.lean`.)
-/
namespace Uds.Model

/-- the subfunctions `check_subfunction_valid` lists as added in 2020 -/
def subfunction2020 : List Nat := [0x17, 0x16, 0x18, 0x19, 0x1A, 0x42, 0x55, 0x56]

/-- the integer members of `ReadDTCInformation.Subfunction` -/
def dtcSubfunctions : List Nat :=
  [1, 2, 3, 4, 5, 6, 7, 8, 9, 0xA, 0xB, 0xC, 0xD, 0xE, 0xF, 0x10, 0x11, 0x12, 0x13, 0x14, 0x15, 0x16, 0x17, 0x18, 0x19,
   0x42, 0x55, 0x1A, 0x56]

/-- `ReadDTCInformation.check_subfunction_valid` -/
def checkSubfunctionValid (sf : Int) (std : Nat) : Py Unit := do
  validateInt sf 1 0x7F
  guardPy (!dtcSubfunctions.contains sf.toNat) .valueErr
  guardPy (subfunction2020.contains sf.toNat && decide (std < 2020)) .notImpl

def validEditions : List Nat := [2006, 2013, 2020]

/-- `Client.validate_config` -/
def validateConfig (std : Nat) : Py Unit := if validEditions.contains std then pure () else throw .config

/-- `Client.set_config('standard_version', v)` / `set_configs({...})`: returns the edition stored in
    `client.config` afterwards and whether the call raised -/
def setEdition (current : Nat) (v : Nat) : Nat × Bool :=
  -- client.py: the update is applied, validated, and rolled back when refused
  if validEditions.contains v then (v, false) else (current, true)

/-- `Client(conn, config)` : construction fails (no client object) for an invalid edition -/
def initEdition (v : Nat) : Option Nat := if validEditions.contains v then some v else none

/-! ### the whole configuration dictionary (`set_configs` with several keys) -/

/-- `client.config`: key ↦ value (values as integers; `standard_version` is one of the keys), latest binding first -/
abbrev Config := List (String × Int)

def Config.get (c : Config) (k : String) : Option Int := (c.find? (·.1 == k)).map (·.2)

/-- `dict.update`: later pairs win -/
def Config.update (c : Config) (d : List (String × Int)) : Config := d.reverse ++ c

def Config.editionOk (c : Config) : Bool :=
  match c.get "standard_version" with
  | some v => decide (0 ≤ v) && validEditions.contains v.toNat
  | none => false

/-- `Client.set_configs(dic)`: `previous = dict(config)`; `config.update(dic)`; `refresh_config()` validates; a refusal restores `previous` and re-raises.
    Returns the configuration in force afterwards and whether the call raised. -/
def setConfigs (c : Config) (d : List (String × Int)) : Config × Bool :=
  let c' := c.update d
  if c'.editionOk then (c', false) else (c, true)

/-- `Client.set_config(key, value)` -/
def setConfig (c : Config) (k : String) (v : Int) : Config × Bool := setConfigs c [(k, v)]

end Uds.Model
