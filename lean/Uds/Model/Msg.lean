import Uds.Model.Tables
/-
  Mirror of udsoncan/Request.py and udsoncan/Response.py (constructor checks, get_payload,
  from_payload).  Line references are to the pinned commit.
-/
namespace Uds.Model

structure Request where
  service : Option Service := none
  subfunction : Option Nat := none
  spr : Bool := false
  data : Option Bytes := none
  deriving DecidableEq, Repr

/-- `Request.__init__` for a service class, an `int`/`None` subfunction, a `bool` flag and
    `bytes`/`None` data (Request.py:33-64).  The only remaining failure is the spr check. -/
def Request.mk' (s : Service) (sf : Option Nat) (spr : Bool) (data : Option Bytes) : Py Request :=
  if spr && !s.useSubfn then throw .valueErr
  else pure { service := some s, subfunction := sf, spr := spr, data := data }

/-- `struct.pack("B", n)` -/
def packB (n : Nat) : Py Bytes :=
  if n < 256 then pure [UInt8.ofNat n] else throw .structErr

/-- `x | 0x80` -/
def setBit7 (x : Nat) : Nat := x ||| 0x80
/-- `x & ~0x80` -/
def clearBit7 (x : Nat) : Nat := x ^^^ (x &&& 0x80)

/-- `Request.get_payload(suppress_positive_response=ovr)` (Request.py:66-104) -/
def Request.getPayload (r : Request) (ovr : Option Bool := none) : Py Bytes :=
  match r.service with
  | none => throw .valueErr
  | some s =>
    if s.useSubfn then
      match r.subfunction with
      | none => throw .valueErr
      | some sf0 =>
        let sf := match ovr with
          | none => if r.spr then setBit7 sf0 else sf0
          | some true => setBit7 sf0
          | some false => clearBit7 sf0
        do
          let a ← packB s.sid
          let b ← packB sf
          pure (a ++ b ++ r.data.getD [])
    else
      if ovr == some true || r.spr then throw .valueErr
      else do
        let a ← packB s.sid
        pure (a ++ r.data.getD [])

/-- `Request.from_payload` (Request.py:106-133) -/
def Request.fromPayload (p : Bytes) : Request :=
  match p with
  | [] => {}
  | b0 :: _ =>
    match fromRequestId b0.toNat with
    | none => {}
    | some s =>
      let offset := if s.useSubfn then 1 else 0
      let (sf, spr) :=
        if s.useSubfn && p.length ≥ offset + 1 then
          match p[1]? with
          | some b1 => (some (b1.toNat &&& 0x7F), decide (b1.toNat &&& 0x80 > 0))
          | none => (none, false)
        else (none, false)
      let data := if p.length > offset + 1 then some (p.drop (offset + 1)) else none
      { service := some s, subfunction := sf, spr := spr, data := data }

structure Response where
  service : Option Service := none
  positive : Bool := false
  code : Option Nat := none
  codeName : String := ""
  valid : Bool := false
  reason : String := "Object not initialized"
  data : Bytes := []
  deriving DecidableEq, Repr

/-- `Response.__init__` for a service class, an int code in range and bytes data (Response.py:81-120) -/
def Response.mk' (s : Service) (code : Nat) (data : Bytes) : Py Response :=
  if code > 0xFF then throw .valueErr
  else pure { service := some s, positive := !isNegative code, code := some code, codeName := rcName code,
              valid := true, reason := "", data := data }

/-- `Response.get_payload` (Response.py:122-148) -/
def Response.getPayload (r : Response) : Py Bytes :=
  match r.service, r.code with
  | none, _ => throw .valueErr
  | some _, none => throw .valueErr
  | some s, some c => do
    let hd ← if r.positive then packB (s.sid + 0x40)
             else do
               let a ← packB s.sid
               let b ← packB c
               pure ([0x7F] ++ a ++ b)
    pure (if s.hasRespData then hd ++ r.data else hd)

/-- `Response.from_payload` (Response.py:151-221); total, never raises -/
def Response.fromPayload (p : Bytes) : Response :=
  match p with
  | [] => { reason := "Payload is empty" }
  | b0 :: _ =>
    if b0 != 0x7F then
      match fromResponseId b0.toNat with
      | none => { reason := "Payload first byte is not a know service response ID." }
      | some s =>
        if p.length < 2 && s.hasRespData then
          { service := some s, positive := false,
            reason := "Payload must be at least 2 bytes long (service and response)" }
        else
          { service := some s, positive := true, code := some 0, codeName := rcName 0, valid := true,
            reason := "", data := if p.length > 1 then p.drop 1 else [] }
    else
      match p[1]? with
      | none => { reason := "Incomplete invalid response service (7Fxx)" }
      | some b1 =>
        match fromRequestId b1.toNat with
        | none => { reason := "Payload second byte is not a known service request ID." }
        | some s =>
          match p[2]? with
          | none => { service := some s, reason := "Response code missing" }
          | some b2 =>
            { service := some s, positive := false, code := some b2.toNat, codeName := rcName b2.toNat,
              valid := true, reason := "", data := if p.length > 3 then p.drop 3 else [] }

end Uds.Model
