import Uds.Model.Encode
import Uds.Model.Entry
/-
  Mirror of the response interpreters (`interpret_response`) of every service and of the checks the client
  methods run on the interpreted data (echo comparisons etc.).  `d` is always `response.data` (the payload
  after the response service identifier).  Every `d[i]` of the Python code is an `idx d i` here, every
  `struct.unpack` a length-checked `unpackBE`: the model can fail exactly where the code can, and
  `Props/C04` proves that the non-documented failures are unreachable.

  DID / IO codecs: `decode` is user code, modelled as the identity on the raw bytes (contract: `decode` accepts
  any byte string of length `len(codec)`).
-/
namespace Uds.Model

/-! ### interpreted data -/

structure Snap where
  record : Nat
  did : Option Nat := none          -- `none`: snapshot identification (record number only)
  raw : Bytes := []
  deriving DecidableEq, Repr

structure DtcRec where
  id : Nat
  status : Nat := 0
  severity : Nat := 0
  funit : Option Nat := none
  fault : Option Nat := none
  snaps : List Snap := []
  ext : List (Nat × Bytes) := []
  deriving DecidableEq, Repr

structure DtcData where
  sfEcho : Nat
  memSel : Option Nat := none
  statusAvail : Option Nat := none
  sevAvail : Option Nat := none
  format : Option Nat := none
  fgid : Option Nat := none
  count : Nat := 0
  dtcs : List DtcRec := []
  deriving DecidableEq, Repr

inductive SData where
  | echo (e : Nat)
  | dsc (e : Nat) (timing : Option (Nat × Nat))       -- session echo, (P2, P2*) in ms
  | reset (e : Nat) (powerDown : Option Nat)
  | sa (level : Nat) (seed : Option Bytes)
  | accessTiming (e : Nat) (record : Bytes)
  | routine (ct rid : Nat) (status : Bytes)
  | transferData (seq : Nat) (records : Bytes)
  | transferExit (records : Bytes)
  | empty
  | rdbi (values : List (Nat × Bytes))
  | wdbi (did : Nat)
  | io (did : Nat) (cp : Option Nat) (decoded : Option Bytes)
  | ddd (sf : Nat) (did : Option Nat)
  | readMem (block : Bytes)
  | xfer (maxLength : Nat)
  | rft (moop : Nat) (maxLength dfi : Option Nat) (filesize : Option (Nat × Option Nat)) (dirinfo filepos : Option Nat)
  | auth (task ret : Nat) (fields : List (String × Bytes))
  | dtc (d : DtcData)
  deriving DecidableEq, Repr

/-! ### the one-echo services -/

/-- TesterPresent / CommunicationControl / ControlDTCSetting / LinkControl -/
def echoInterpret (d : Bytes) : Py SData := do
  guardPy (decide (d.length < 1)) .invalid
  let b ← idx d 0
  pure (.echo b.toNat)

def ecuResetInterpret (d : Bytes) : Py SData := do
  guardPy (decide (d.length < 1)) .invalid
  let b ← idx d 0
  if b.toNat == 4 then do
    guardPy (decide (d.length < 2)) .invalid
    let p ← idx d 1
    pure (.reset b.toNat (some p.toNat))
  else pure (.reset b.toNat none)

def saInterpret (mode : SaMode) (d : Bytes) : Py SData := do
  guardPy (decide (d.length < (if mode == .requestSeed then 2 else 1))) .invalid
  let b ← idx d 0
  pure (.sa b.toNat (if mode == .requestSeed then some (d.drop 1) else none))

def accessTimingInterpret (d : Bytes) : Py SData := do
  guardPy (decide (d.length < 1)) .invalid
  let b ← idx d 0
  pure (.accessTiming b.toNat (d.drop 1))

def routineInterpret (d : Bytes) : Py SData := do
  guardPy (decide (d.length < 3)) .invalid
  let b ← idx d 0
  let rid ← unpackBE 2 (slice d 1 3)
  pure (.routine b.toNat rid (d.drop 3))

def transferDataInterpret (d : Bytes) : Py SData := do
  guardPy (decide (d.length < 1)) .invalid
  let b ← idx d 0
  pure (.transferData b.toNat (d.drop 1))

/-- interpret_response + the echo comparisons of the client method, for the simple entry points -/
def simpleClient (std : Nat) (e : Entry) (d : Bytes) : Py SData :=
  match e with
  | .changeSession n => do
    let sd ← dscInterpret std d
    guardPy (n != (sd.sessionEcho : Int)) .unexpected
    pure (.dsc sd.sessionEcho sd.timing)
  | .ecuReset t => do
    let r ← ecuResetInterpret d
    match r with
    | .reset e _ => do guardPy ((e : Int) != t) .unexpected; pure r
    | _ => pure r
  | .requestSeed l _ => do
    let r ← saInterpret .requestSeed d
    let want ← normalizeLevel .requestSeed l
    match r with
    | .sa e _ => do guardPy (e != want) .unexpected; pure r
    | _ => pure r
  | .sendKey l _ => do
    let r ← saInterpret .sendKey d
    let want ← normalizeLevel .sendKey l
    match r with
    | .sa e _ => do guardPy (e != want) .unexpected; pure r
    | _ => pure r
  | .testerPresent => do
    let r ← echoInterpret d
    match r with
    | .echo e => do guardPy (e != 0) .unexpected; pure r
    | _ => pure r
  | .commControl ct _ _ => do
    let r ← echoInterpret d
    match r with
    | .echo e => do guardPy ((e : Int) != ct) .unexpected; pure r
    | _ => pure r
  | .controlDtc t _ => do
    let r ← echoInterpret d
    match r with
    | .echo e => do guardPy ((e : Int) != t) .unexpected; pure r
    | _ => pure r
  | .linkControl ct _ => do
    let r ← echoInterpret d
    match r with
    | .echo e => do guardPy ((e : Int) != ct) .unexpected; pure r
    | _ => pure r
  | .accessTiming t _ => do
    let r ← accessTimingInterpret d
    match r with
    | .accessTiming e _ => do guardPy ((e : Int) != t) .unexpected; pure r
    | _ => pure r
  | .routineControl rid ct _ => do
    let r ← routineInterpret d
    match r with
    | .routine e x _ => do
      guardPy (ct != (e : Int)) .unexpected
      guardPy (rid != (x : Int)) .unexpected
      pure r
    | _ => pure r
  | .transferData s _ => do
    let r ← transferDataInterpret d
    match r with
    | .transferData e _ => do guardPy (s != (e : Int)) .unexpected; pure r
    | _ => pure r
  | .transferExit _ => pure (.transferExit d)
  | .clearDtc _ _ => pure .empty

/-! ### ReadDataByIdentifier -/

/-- `values[did] = val` on an insertion-ordered dict -/
def dictSet (l : List (Nat × Bytes)) (k : Nat) (v : Bytes) : List (Nat × Bytes) :=
  if l.any (·.1 == k) then l.map (fun e => if e.1 == k then (k, v) else e) else l ++ [(k, v)]

/-- the `while True` loop of ReadDataByIdentifier.interpret_response over `rest = data[offset:]` -/
def rdbiLoop (cfg : DidCfg) (tol : Bool) (rest : Bytes) (acc : List (Nat × Bytes)) : Py (List (Nat × Bytes)) :=
  if h0 : rest.length = 0 then pure acc
  else if h1 : rest.length ≤ 1 then do
    let last ← idx rest (rest.length - 1)          -- `response.data[-1]`
    if tol && last == 0 then pure acc else throw .invalid
  else do
    let did ← unpackBE 2 (rest.take 2)
    if did == 0 && !cfg.entries.any (·.1 == 0) && tol && allZero rest then pure acc     -- `did not in didconfig`: the 'default' key does not count
    else do
      let len ← fetchCodec cfg did
      let body := rest.drop 2
      let size := match len with | some n => n | none => body.length
      if body.length < size then throw .invalid
      else rdbiLoop cfg tol (body.drop size) (dictSet acc did (body.take size))
termination_by rest.length
decreasing_by simp; omega

def rdbiInterpret (cfg : DidCfg) (tol : Bool) (dids : List Nat) (d : Bytes) : Py SData := do
  let c ← checkDidConfig (some cfg) dids
  let vals ← rdbiLoop c tol d []
  pure (.rdbi vals)

/-- `read_data_by_identifier`: a codec-less DID in the reply that was not requested is an unexpected response; then the
    requested and the returned identifier sets must be equal -/
def rdbiClient (cfg : DidCfg) (tol : Bool) (dids : List Nat) (d : Bytes) : Py SData :=
  match rdbiInterpret cfg tol dids d with
  | .error .config =>
    -- `e.key in didlist`: the missing codec is one of the requested DIDs (then `check_did_config` already failed)
    if dids.all (fun x => (cfg.find x).isSome) then throw .unexpected else throw .config
  | .error e => throw e
  | .ok (.rdbi vals) =>
    if vals.any (fun v => !dids.contains v.1) then throw .unexpected
    else if dids.any (fun x => !vals.any (·.1 == x)) then throw .unexpected
    else pure (.rdbi vals)
  | .ok other => pure other

/-! ### WriteDataByIdentifier / DynamicallyDefineDataIdentifier / ReadMemoryByAddress -/

def wdbiInterpret (d : Bytes) : Py SData := do
  guardPy (decide (d.length < 2)) .invalid
  let e ← unpackBE 2 (d.take 2)
  pure (.wdbi e)

def wdbiClient (did : Nat) (d : Bytes) : Py SData := do
  let r ← wdbiInterpret d
  match r with
  | .wdbi e => if e != did then throw .unexpected else pure r
  | _ => pure r

def dddInterpret (d : Bytes) : Py SData := do
  guardPy (decide (d.length < 1)) .invalid
  let sf ← idx d 0
  guardPy ((sf.toNat == 1 || sf.toNat == 2) && decide (d.length < 3)) .invalid
  if d.length ≥ 3 then do
    let e ← unpackBE 2 (slice d 1 3)
    pure (.ddd sf.toNat (some e))
  else pure (.ddd sf.toNat none)

/-- `dynamically_define_did` (`strict = false`: the DID echo is compared only when present) and
    `do_clear_dynamically_defined_did` (`strict = true` when a DID was given) -/
def dddClient (sf : Nat) (did : Option Nat) (strict : Bool) (d : Bytes) : Py SData := do
  let r ← dddInterpret d
  match r with
  | .ddd e de =>
    if e != sf then throw .unexpected
    else match did with
      | none => pure r
      | some x =>
        match de with
        | some y => if x != y then throw .unexpected else pure r
        | none => if strict then throw .unexpected else pure r
  | _ => pure r

def readMemInterpret (d : Bytes) : Py SData := do
  guardPy (decide (d.length < 1)) .invalid
  pure (.readMem d)

/-- `read_memory_by_address`: length checks and the trimming of tolerated zero padding -/
def readMemClient (size : Nat) (tol : Bool) (d : Bytes) : Py SData := do
  let _ ← readMemInterpret d
  if d.length < size then throw .unexpected
  else if d.length > size then
    if allZero (d.drop size) && tol then pure (.readMem (d.take size)) else throw .unexpected
  else pure (.readMem d)

/-! ### RequestDownload / RequestUpload -/

/-- `todecode[-i] = data[off + n - i]` for i in 1..n, then `struct.unpack('>Q')`: the `n` bytes at `off`, right-aligned -/
def readUIntAt (d : Bytes) (off n : Nat) : Py Nat :=
  if off + n ≤ d.length then pure (fromBE ((d.drop off).take n)) else throw .indexErr

def xferInterpret (d : Bytes) : Py SData := do
  guardPy (decide (d.length < 1)) .invalid
  let b ← idx d 0
  let lfid := b.toNat >>> 4
  guardPy (decide (lfid > 8)) .notImpl
  guardPy (decide (d.length < lfid + 1)) .invalid
  let v ← readUIntAt d 1 lfid
  pure (.xfer v)

/-! ### InputOutputControlByIdentifier -/

/-- the echo of the control parameter, and the offset of the data that follows -/
def ioCpEcho (cp : Option Nat) (d : Bytes) : Py (Option Nat × Nat) :=
  match cp with
  | some _ => do
    guardPy (decide (d.length < 2)) .invalid
    let b ← idx d 2
    pure (some b.toNat, 3)
  | none => pure (none, 2)

/-- trimming of tolerated zero padding, then `codec.decode(remaining_data)` (any exception becomes InvalidResponseException) -/
def ioDecode (e : IoEntry) (tol : Bool) (did : Nat) (cpEcho : Option Nat) (remaining : Bytes) : Py SData :=
  let size := match e.codecLen with | some n => n | none => remaining.length
  let data := if remaining.length > size && allZero (remaining.drop size) && tol then remaining.take size else remaining
  match e.codecLen with
  | some n => if data.length = n then pure (.io did cpEcho (some data)) else throw .invalid
  | none => pure (.io did cpEcho (some data))

def ioInterpret (cfg : IoCfg) (cp : Option Nat) (tol : Bool) (d : Bytes) : Py SData := do
  guardPy (decide (d.length < (if cp.isSome then 3 else 2))) .invalid
  let did ← unpackBE 2 (d.take 2)
  let e ← fetchIoEntry cfg did
  let p ← ioCpEcho cp d
  ioDecode e tol did p.1 (d.drop p.2)

/-- `io_control`: a missing configuration for an echoed identifier that was not the requested one is an unexpected response
    (`ConfigError.key != did`); then the identifier and control-parameter echoes are compared -/
def ioClient (cfg : IoCfg) (did : Nat) (cp : Option Nat) (tol : Bool) (d : Bytes) : Py SData :=
  match ioInterpret cfg cp tol d with
  | .error .config => if fromBE (d.take 2) == did then throw .config else throw .unexpected
  | .error e => throw e
  | .ok (.io e ce x) => if e != did then throw .unexpected else if cp != ce then throw .unexpected else pure (.io e ce x)
  | .ok other => pure other

/-! ### RequestFileTransfer -/

def rftHasLfid (moop : Nat) : Bool := moop == 1 || moop == 6 || moop == 3 || moop == 4 || moop == 5

/-- maxNumberOfBlockLength: value and the cursor after it -/
def rftMaxLen (moop : Nat) (d : Bytes) : Py (Option Nat × Nat) :=
  if rftHasLfid moop then do
    guardPy (decide (d.length < 2)) .invalid
    let l ← idx d 1
    guardPy (decide (l.toNat > 8)) .notImpl
    guardPy (l.toNat == 0) .invalid
    guardPy (decide (d.length < 2 + l.toNat)) .invalid
    let v ← readUIntAt d 2 l.toNat
    pure (some v, 2 + l.toNat)
  else pure (none, 1)

/-- dataFormatIdentifier echo -/
def rftDfiEcho (moop : Nat) (d : Bytes) (c1 : Nat) : Py (Option Nat × Nat) :=
  if rftHasLfid moop then do
    guardPy (decide (d.length < c1 + 1)) .invalid
    let b ← idx d c1
    guardPy (moop == 5 && b.toNat != 0) .invalid
    pure (some b.toNat, c1 + 1)
  else pure (none, c1)

/-- fileSizeOrDirInfoParameterLength and the size(s) -/
def rftSizes (moop : Nat) (d : Bytes) (c2 : Nat) : Py (Option Nat × Option Nat × Nat) :=
  if moop == 4 || moop == 5 then do
    guardPy (decide (d.length < c2 + 2)) .invalid
    let n ← unpackBE 2 ((d.drop c2).take 2)
    guardPy (decide (n > 8)) .notImpl
    guardPy (n == 0) .invalid
    guardPy (decide (d.length < c2 + 2 + n)) .invalid
    let u ← readUIntAt d (c2 + 2) n
    if moop == 4 then do
      guardPy (decide (d.length < c2 + 2 + n + n)) .invalid
      let c ← readUIntAt d (c2 + 2 + n) n
      pure (some u, some c, c2 + 2 + n + n)
    else pure (some u, none, c2 + 2 + n)
  else pure (none, none, c2)

/-- filePosition (ResumeFile): always 8 bytes -/
def rftFilePos (moop : Nat) (d : Bytes) (c3 : Nat) : Py (Option Nat × Nat) :=
  if moop == 6 then do
    guardPy (decide (d.length < c3 + 8)) .invalid
    let v ← readUIntAt d c3 8
    pure (some v, c3 + 8)
  else pure (none, c3)

def rftInterpret (tol : Bool) (d : Bytes) : Py SData := do
  guardPy (decide (d.length < 1)) .invalid
  let m ← idx d 0
  let moop := m.toNat
  let p1 ← rftMaxLen moop d
  let p2 ← rftDfiEcho moop d p1.2
  let p3 ← rftSizes moop d p2.2
  let p4 ← rftFilePos moop d p3.2.2
  guardPy (decide (d.length > p4.2) && !(allZero (d.drop p4.2) && tol)) .invalid
  pure (.rft moop p1.1 p2.1 (if moop == 4 then p3.1.map (fun u => (u, p3.2.1)) else none) (if moop == 5 then p3.1 else none) p4.1)

/-- `request_file_transfer`: mode-of-operation echo (reported first when decoding failed after it was read) and
    DataFormatIdentifier echo against the value transmitted -/
def rftClient (moop : Nat) (dfiSent : Option Nat) (tol : Bool) (d : Bytes) : Py SData :=
  match rftInterpret tol d with
  | .error .invalid =>
    -- service_data exists as soon as the echo byte was read
    match d[0]? with
    | some m => if m.toNat != moop then throw .unexpected else throw .invalid
    | none => throw .invalid
  | .error .notImpl =>
    -- a length field wider than 8 bytes, met after the echo byte was read
    match d[0]? with
    | some m => if m.toNat != moop then throw .unexpected else throw .notImpl
    | none => throw .notImpl
  | .error e => throw e
  | .ok (.rft m ml dfi fs di fp) =>
    if m != moop then throw .unexpected
    else match dfi, dfiSent with
      | some a, some b => if a != b then throw .unexpected else pure (.rft m ml dfi fs di fp)
      | _, _ => pure (.rft m ml dfi fs di fp)
  | .ok other => pure other

/-! ### Authentication -/

/-- `_extract_byes_parameter` on `data[offset:]` -/
def extractLen16 (rest : Bytes) : Py (Bytes × Bytes) :=
  if rest.length < 2 then throw .invalid
  else do
    let n ← unpackBE 2 (rest.take 2)
    if rest.length ≥ 2 + n then pure ((rest.drop 2).take n, rest.drop (2 + n)) else throw .invalid

def extractFields : List String → Bytes → Py (List (String × Bytes) × Bytes)
  | [], rest => pure ([], rest)
  | n :: ns, rest => do
    let p ← extractLen16 rest
    let q ← extractFields ns p.2
    pure ((n, p.1) :: q.1, q.2)

/-- the parameters of each authentication task's response, and what is left after them -/
def authFields (t : Nat) (rest : Bytes) : Py (List (String × Bytes) × Bytes) :=
  if t == 0 || t == 4 || t == 8 then pure ([], rest)
  else if t == 1 then extractFields ["challengeServer", "ephemeralPublicKeyServer"] rest
  else if t == 2 then extractFields ["challengeServer", "certificateServer", "proofOfOwnershipServer", "ephemeralPublicKeyServer"] rest
  else if t == 3 then extractFields ["sessionKeyInfo"] rest
  else if t == 5 || t == 6 || t == 7 then do
    guardPy (decide (rest.length < 16)) .invalid
    let q ← extractFields (if t == 5 then ["challengeServer", "neededAdditionalParameter"]
        else if t == 7 then ["proofOfOwnershipServer", "sessionKeyInfo"] else ["sessionKeyInfo"]) (rest.drop 16)
    pure (("algorithmIndicator", rest.take 16) :: q.1, q.2)
  else throw .invalid

def authInterpret (d : Bytes) : Py SData := do
  guardPy (decide (d.length < 2)) .invalid
  let sf ← idx d 0
  let rv ← idx d 1
  let p ← authFields sf.toNat (d.drop 2)
  guardPy (decide (p.2.length > 0)) .invalid
  pure (.auth sf.toNat rv.toNat p.1)

def authClient (task : Nat) (d : Bytes) : Py SData := do
  let r ← authInterpret d
  match r with
  | .auth t _ _ => if t != task then throw .unexpected else pure r
  | _ => pure r

end Uds.Model
