import Uds.Model.Decode
/-
  Mirror of `ReadDTCInformation.interpret_response` (services/ReadDTCInformation.py, ten response groups) and of the
  checks of `Client.read_dtc_information` that follow it.  Loops recurse on the bytes that remain after the cursor
  (`rest = response.data[actual_byte:]`); Lean's termination check on each of them is the "never loops without
  consuming input" half of C04.
-/
namespace Uds.Model

/-- `extended_data_size`: None, an int, or a dict DTC ↦ size -/
inductive ExtSize where
  | none
  | int (n : Int)
  | dict (l : List (Nat × Int))
  deriving DecidableEq, Repr

structure DtcCfg where
  std : Nat := 2020
  tol : Bool := true
  ign : Bool := true
  didSize : Nat := 2                      -- `dtc_snapshot_did_size` (1..8)
  dids : Option DidCfg := some {}
  ext : ExtSize := .none
  deriving DecidableEq, Repr

inductive DtcRespGroup where
  | records4        -- availability mask + {dtc3 status}*            (G1)
  | records6        -- availability mask + {sev funit dtc3 status}*  (G2)
  | faultCounter | snapIdent                                           -- (G3)
  | count                                                              -- (G4)
  | snapByDtc | snapByRecord                                           -- (G5, G6)
  | extByDtc | extByRecord                                             -- (G7, G8)
  | wwhMask | wwhPerm                                                  -- (G9)
  | echoOnly                                                           -- (G10)
  deriving DecidableEq, Repr

/-- the response grouping lists of `interpret_response` -/
def dtcRespGroup (sf : Nat) : DtcRespGroup :=
  if [0x02, 0x17, 0x0A, 0x0B, 0x0C, 0x0D, 0x0E, 0x0F, 0x13, 0x15].contains sf then .records4
  else if sf == 0x08 || sf == 0x09 then .records6
  else if sf == 0x14 then .faultCounter
  else if sf == 0x03 then .snapIdent
  else if [0x01, 0x07, 0x11, 0x12].contains sf then .count
  else if sf == 0x04 || sf == 0x18 then .snapByDtc
  else if sf == 0x05 then .snapByRecord
  else if sf == 0x06 || sf == 0x10 || sf == 0x19 then .extByDtc
  else if sf == 0x16 then .extByRecord
  else if sf == 0x42 then .wwhMask
  else if sf == 0x55 then .wwhPerm
  else .echoOnly

def hasMemSel (sf : Nat) : Bool := sf == 0x17 || sf == 0x18 || sf == 0x19

def be3 (bs : Bytes) : Nat := fromBE (bs.take 3)

/-- an optional byte of the header (memory-selection echo, severity availability mask) -/
def optByte (cond : Bool) (d : Bytes) (i : Nat) : Py (Option Nat) :=
  if cond then (do let b ← idx d i; pure (some b.toNat)) else pure none

/-! ### G1 / G2: availability mask, then fixed-size records -/

def mkRec4 (r : Bytes) : Py DtcRec := do
  let s ← idx r 3
  pure { id := be3 r, status := s.toNat }

def mkRec6 (r : Bytes) : Py DtcRec := do
  let sev ← idx r 0
  let fu ← idx r 1
  let s ← idx r 5
  pure { id := be3 (r.drop 2), status := s.toNat, severity := (Severity.ofByte sev.toNat).toByte, funit := some fu.toNat }

def mkRec (six : Bool) (r : Bytes) : Py DtcRec := if six then mkRec6 r else mkRec4 r

/-- `first`: the cursor is at offset 2 (`actual_byte == 2`), which matters for sub-function 0x09 only -/
def recordLoop (tol ign : Bool) (six sf09 : Bool) (first : Bool) (rest : Bytes) (acc : List DtcRec) : Py (List DtcRec) :=
  let size := if six then 6 else 4
  if h0 : rest.length = 0 then pure acc.reverse
  else if h1 : rest.length < size then
    if tol && allZero rest then pure acc.reverse
    else if !sf09 || first then throw .invalid
    else pure acc.reverse                                  -- ignored tail; the next loop test ends the loop
  else
    let r := rest.take size
    if allZero r && ign then recordLoop tol ign six sf09 false (rest.drop size) acc
    else do
      let x ← mkRec six r
      recordLoop tol ign six sf09 false (rest.drop size) (x :: acc)
termination_by rest.length
decreasing_by all_goals (simp; split <;> omega)

def recordsInterpret (c : DtcCfg) (sf : Nat) (six : Bool) (d : Bytes) : Py DtcData := do
  let e ← idx d 0
  let ms := hasMemSel sf
  guardPy (decide (d.length < (if ms then 3 else 2))) .invalid
  let memSel ← optByte ms d 1
  let ab := if ms then 2 else 1
  let av ← idx d ab
  let recs ← recordLoop c.tol c.ign six (sf == 0x09) (ab + 1 == 2) (d.drop (ab + 1)) []
  pure { sfEcho := e.toNat, memSel := memSel, statusAvail := some av.toNat, count := recs.length, dtcs := recs }

/-! ### G3: fault counter / snapshot identification -/

/-- `dtc_map` lookup + append of the record number to an existing DTC (snapshot identification only) -/
def addSnapIdent (acc : List DtcRec) (id rec : Nat) : List DtcRec :=
  if acc.any (·.id == id) then acc.map (fun x => if x.id == id then { x with snaps := x.snaps ++ [{ record := rec }] } else x)
  else acc ++ [{ id := id, snaps := [{ record := rec }] }]

def g3Loop (tol ign : Bool) (ident : Bool) (rest : Bytes) (acc : List DtcRec) : Py (List DtcRec) :=
  if h0 : rest.length = 0 then pure acc
  else if h1 : rest.length < 4 then
    if tol && allZero rest then pure acc else throw .invalid
  else
    let r := rest.take 4
    if allZero r && ign then g3Loop tol ign ident (rest.drop 4) acc
    else do
      let x ← idx r 3
      if ident then g3Loop tol ign ident (rest.drop 4) (addSnapIdent acc (be3 r) x.toNat)
      else g3Loop tol ign ident (rest.drop 4) (acc ++ [{ id := be3 r, fault := some x.toNat }])
termination_by rest.length
decreasing_by all_goals (simp; omega)

def g3Interpret (c : DtcCfg) (ident : Bool) (d : Bytes) : Py DtcData := do
  let e ← idx d 0
  let recs ← g3Loop c.tol c.ign ident (d.drop 1) []
  pure { sfEcho := e.toNat, count := recs.length, dtcs := recs }

/-! ### G4: number of DTC -/

def countInterpret (d : Bytes) : Py DtcData := do
  let e ← idx d 0
  guardPy (decide (d.length < 5)) .invalid
  let av ← idx d 1
  let fmt ← idx d 2
  let n ← unpackBE 2 (slice d 3 5)
  pure { sfEcho := e.toNat, statusAvail := some av.toNat, format := some fmt.toNat, count := n }

/-! ### G5 / G6: snapshot records -/

/-- the `for i in range(number_of_did)` loop: DID number on `k` bytes, then the codec's payload -/
def snapDids (cfg : Option DidCfg) (k : Nat) (rec : Nat) : Nat → Bytes → List Snap → Py (List Snap × Bytes)
  | 0, rest, acc => pure (acc, rest)
  | n + 1, rest, acc => do
    guardPy (decide (rest.length < k)) .invalid
    let did := fromBE (rest.take k)
    let c ← checkDidConfig cfg [did]
    let len ← fetchCodec c did
    match len with
    | none => throw .config                                  -- ReadAllRemainingData: a snapshot DID needs a length
    | some l =>
      let body := rest.drop k
      if body.length < l then throw .invalid
      else snapDids cfg k rec n (body.drop l) (acc ++ [{ record := rec, did := some did, raw := body.take l }])

def snapByDtcLoop (c : DtcCfg) (rest : Bytes) (acc : List Snap) : Py (List Snap) :=
  if h0 : rest.length = 0 then pure acc
  else if c.tol && allZero rest then pure acc
  else if h1 : rest.length < 2 then throw .invalid
  else do
    let rec ← idx rest 0
    let n ← idx rest 1
    if n.toNat == 0 then throw .invalid
    else if rest.length < 2 + c.didSize then throw .invalid
    else do
      let (acc', rest') ← snapDids c.dids c.didSize rec.toNat n.toNat (rest.drop 2) acc
      if rest'.length < rest.length then snapByDtcLoop c rest' acc' else throw .other   -- (cursor always advances: see `snapDids_shrinks`)
termination_by rest.length

def snapByDtcInterpret (c : DtcCfg) (sf : Nat) (d : Bytes) : Py DtcData := do
  let e ← idx d 0
  let ms := hasMemSel sf
  guardPy (decide (d.length < (if ms then 6 else 5))) .invalid
  let memSel ← optByte ms d 1
  let ab := if ms then 2 else 1
  let st ← idx d (ab + 3)
  guardPy (decide (c.didSize < 1 || c.didSize > 8)) .valueErr
  let snaps ← snapByDtcLoop c (d.drop (ab + 4)) []
  pure { sfEcho := e.toNat, memSel := memSel, count := 1,
         dtcs := [{ id := be3 (d.drop ab), status := st.toNat, snaps := snaps }] }

def snapByRecordLoop (c : DtcCfg) (rest : Bytes) (acc : List DtcRec) : Py (List DtcRec) :=
  if h0 : rest.length = 0 then pure acc
  else if allZero rest && c.tol then pure acc
  else if rest.length == 1 || (c.tol && allZero (rest.drop 1)) then pure acc
  else if h1 : rest.length < 5 then throw .invalid
  else if h2 : rest.length < 6 then throw .invalid
  else do
    let rec ← idx rest 0
    let st ← idx rest 4
    let n ← idx rest 5
    let body := rest.drop 6
    if n.toNat == 0 then throw .invalid
    else if body.length < c.didSize then throw .invalid
    else if c.tol && allZero body then pure acc                       -- the DTC read just before is dropped (D6)
    else do
      let (snaps, rest') ← snapDids c.dids c.didSize rec.toNat n.toNat body []
      let x : DtcRec := { id := be3 (rest.drop 1), status := st.toNat, snaps := snaps }
      if rest'.length < rest.length then snapByRecordLoop c rest' (acc ++ [x]) else throw .other
termination_by rest.length

def snapByRecordInterpret (c : DtcCfg) (d : Bytes) : Py DtcData := do
  let e ← idx d 0
  guardPy (decide (c.didSize < 1 || c.didSize > 8)) .valueErr
  guardPy (decide (d.length < 2)) .invalid
  let recs ← snapByRecordLoop c (d.drop 1) []
  pure { sfEcho := e.toNat, count := recs.length, dtcs := recs }

/-! ### G7 / G8: extended data -/

/-- `assert_extended_data_size_int_or_dict` -/
def checkExtSize : ExtSize → Py Unit
  | .none => throw .valueErr
  | .int n => validateInt n 0 0xFFF
  | .dict l => if l.all (fun e => decide (0 ≤ e.2 ∧ e.2 ≤ 0xFFF)) then pure () else throw .valueErr

/-- `get_extended_data_size(dtc, size)` -/
def extSizeFor (e : ExtSize) (dtc : Nat) : Py Nat :=
  match e with
  | .none => throw .valueErr
  | .int n => pure n.toNat
  | .dict l => match l.find? (·.1 == dtc) with
    | some x => pure x.2.toNat
    | none => throw .config

def extByDtcLoop (tol : Bool) (size : Nat) (rest : Bytes) (acc : List (Nat × Bytes)) : Py (List (Nat × Bytes)) :=
  if h0 : rest.length = 0 then pure acc
  else do
    let rec ← idx rest 0
    if rec.toNat == 0 then
      if allZero rest && tol then pure acc else throw .invalid
    else
      let body := rest.drop 1
      if body.length < size then throw .invalid
      else extByDtcLoop tol size (body.drop size) (acc ++ [(rec.toNat, body.take size)])
termination_by rest.length
decreasing_by simp; omega

def extByDtcInterpret (c : DtcCfg) (sf : Nat) (d : Bytes) : Py DtcData := do
  let e ← idx d 0
  checkExtSize c.ext
  let ms := hasMemSel sf
  guardPy (decide (d.length < (if ms then 6 else 5))) .invalid
  let memSel ← optByte ms d 1
  let ab := if ms then 2 else 1
  let st ← idx d (ab + 3)
  let id := be3 (d.drop ab)
  let size ← extSizeFor c.ext id
  let ext ← extByDtcLoop c.tol size (d.drop (ab + 4)) []
  pure { sfEcho := e.toNat, memSel := memSel, count := 1, dtcs := [{ id := id, status := st.toNat, ext := ext }] }

/-- the `while True` loop of sub-function 0x16.  The `~bool` arithmetic of lines 874-876 computes:
    an all-zero tail is read as DTC 0 iff its size is known, a whole record fits and `ignore_all_zero_dtc` is off -/
def extByRecordLoop (c : DtcCfg) (rec : Nat) (rest : Bytes) (seen : List Nat) (acc : List DtcRec) : Py (List DtcRec) :=
  if h0 : rest.length = 0 then pure acc
  else
    let zeroRead := match extSizeFor c.ext 0 with
      | .ok z => decide (rest.length ≥ z + 4) && !c.ign
      | .error _ => false
    if allZero rest && !zeroRead then (if c.tol then pure acc else throw .invalid)
    else if h1 : rest.length < 4 then throw .invalid
    else
      let id := be3 rest
      if seen.contains id then throw .invalid
      else do
        let st ← idx rest 3
        let size ← extSizeFor c.ext id
        let body := rest.drop 4
        if body.length < size then throw .invalid
        else extByRecordLoop c rec (body.drop size) (id :: seen) (acc ++ [{ id := id, status := st.toNat, ext := [(rec, body.take size)] }])
termination_by rest.length
decreasing_by simp; omega

def extByRecordInterpret (c : DtcCfg) (d : Bytes) : Py DtcData := do
  let e ← idx d 0
  checkExtSize c.ext
  guardPy (decide (d.length < 2)) .invalid
  let rec ← idx d 1
  guardPy (decide (rec.toNat > 0xEF)) .invalid
  let recs ← extByRecordLoop c rec.toNat (d.drop 2) [] []
  pure { sfEcho := e.toNat, count := recs.length, dtcs := recs }

/-! ### G9: WWH-OBD -/

def wwhLoop (tol ign : Bool) (rest : Bytes) (acc : List DtcRec) : Py (List DtcRec) :=
  if h0 : rest.length = 0 then pure acc
  else if h1 : rest.length < 5 then
    if tol && allZero rest then pure acc else throw .invalid
  else
    let r := rest.take 5
    if allZero r && ign then wwhLoop tol ign (rest.drop 5) acc
    else do
      let sev ← idx r 0
      let st ← idx r 4
      wwhLoop tol ign (rest.drop 5) (acc ++ [{ id := be3 (r.drop 1), status := st.toNat, severity := (Severity.ofByte sev.toNat).toByte }])
termination_by rest.length
decreasing_by all_goals (simp; omega)

def wwhInterpret (c : DtcCfg) (mask : Bool) (d : Bytes) : Py DtcData := do
  let e ← idx d 0
  guardPy (decide (d.length < (if mask then 5 else 4))) .invalid
  let fg ← idx d 1
  let av ← idx d 2
  let sevAv ← optByte mask d 3
  let fmt ← idx d (if mask then 4 else 3)
  guardPy (decide (fg.toNat > 0xFE)) .invalid
  guardPy (!(fmt.toNat == 4 || fmt.toNat == 2)) .invalid
  let recs ← wwhLoop c.tol c.ign (d.drop (if mask then 5 else 4)) []
  pure { sfEcho := e.toNat, statusAvail := some av.toNat, sevAvail := sevAv.map (fun b => (Severity.ofByte b).toByte), format := some fmt.toNat, fgid := some fg.toNat,
         count := recs.length, dtcs := recs }

/-! ### the dispatcher and the client checks -/

/-- `ReadDTCInformation.interpret_response(response, subfunction, …)`; the second component tells whether `service_data`
    (hence the sub-function echo) had been stored when a failure happened -/
def dtcInterpret (c : DtcCfg) (sf : Int) (d : Bytes) : Py DtcData := do
  checkSubfunctionValid sf c.std
  guardPy (decide (d.length < 1)) .invalid
  match dtcRespGroup sf.toNat with
  | .records4 => recordsInterpret c sf.toNat false d
  | .records6 => recordsInterpret c sf.toNat true d
  | .faultCounter => g3Interpret c false d
  | .snapIdent => g3Interpret c true d
  | .count => countInterpret d
  | .snapByDtc => snapByDtcInterpret c sf.toNat d
  | .snapByRecord => snapByRecordInterpret c d
  | .extByDtc => extByDtcInterpret c sf.toNat d
  | .extByRecord => extByRecordInterpret c d
  | .wwhMask => wwhInterpret c true d
  | .wwhPerm => wwhInterpret c false d
  | .echoOnly => do let e ← idx d 0; pure { sfEcho := e.toNat }

structure DtcReqCtx where
  sf : Int
  dtc : Option Nat := none
  snapRec : Option Nat := none
  extRec : Option Nat := none
  memSel : Option Nat := none
  fgid : Option Nat := none
  deriving DecidableEq, Repr

/-- DTC number of a snapshot reply (checked only when exactly one DTC came back) -/
def postSnapDtc (q : DtcReqCtx) (r : DtcData) : Py Unit :=
  let sf := q.sf.toNat
  if sf == 0x04 || sf == 0x18 then
    match r.dtcs, q.dtc with
    | [x], some want => guardPy (want != x.id) .unexpected
    | [_], none => throw .assertErr
    | _, _ => pure ()
  else pure ()

/-- `response.data[1] != wanted`: the record number that directly follows the sub-function echo -/
def recEcho (d : Bytes) (want : Nat) : Py Unit := do
  let b ← idx d 1
  guardPy (b.toNat != want) .unexpected

/-- snapshot record number (not for 0xFF = all records): the number after the sub-function (sub-function 0x05), then every record -/
def postSnapRec (q : DtcReqCtx) (r : DtcData) (d : Bytes) : Py Unit :=
  let sf := q.sf.toNat
  if sf == 0x05 || sf == 0x04 || sf == 0x18 then
    match q.snapRec with
    | none => throw .assertErr
    | some want =>
      if want != 0xFF then do
        (if sf == 0x05 then recEcho d want else pure ())
        guardPy (r.dtcs.any (fun x => x.snaps.any (fun s => s.record != want))) .unexpected
      else pure ()
  else pure ()

/-- extended-data record number (values from 0xF0 address groups of records) -/
def postExtRec (q : DtcReqCtx) (r : DtcData) : Py Unit :=
  let sf := q.sf.toNat
  if sf == 0x06 || sf == 0x10 || sf == 0x19 then
    match q.extRec with
    | none => throw .assertErr
    | some want =>
      match r.dtcs with
      | [x] => guardPy (decide (want < 0xF0) && x.ext.any (fun e => e.1 != want)) .unexpected
      | _ => pure ()
  else pure ()

def postMemSel (q : DtcReqCtx) (r : DtcData) : Py Unit :=
  let sf := q.sf.toNat
  if sf == 0x17 || sf == 0x18 || sf == 0x19 then
    match q.memSel with
    | some want => guardPy (some want != r.memSel) .unexpected
    | none => pure ()
  else pure ()

def postExtByRecord (q : DtcReqCtx) (r : DtcData) (d : Bytes) : Py Unit :=
  if q.sf.toNat == 0x16 then
    match q.extRec with
    | some want => do
      recEcho d want
      guardPy (r.dtcs.any (fun x => x.ext.any (fun e => e.1 != want))) .unexpected
    | none => pure ()
  else pure ()

def postFgid (q : DtcReqCtx) (r : DtcData) : Py Unit :=
  let sf := q.sf.toNat
  if sf == 0x55 || sf == 0x42 then
    match r.fgid, q.fgid with
    | some got, some want => guardPy (want != got) .unexpected
    | _, _ => throw .assertErr
  else pure ()

/-- the checks of `Client.read_dtc_information` after `interpret_response` -/
def dtcPost (q : DtcReqCtx) (r : DtcData) (d : Bytes) : Py Unit := do
  postSnapDtc q r
  postSnapRec q r d
  postExtRec q r
  postMemSel q r
  postExtByRecord q r d
  postFgid q r

/-- `Client.read_dtc_information` from the reply on: the sub-function echo is reported before any decoding error -/
def dtcClient (c : DtcCfg) (q : DtcReqCtx) (d : Bytes) : Py DtcData :=
  match dtcInterpret c q.sf d with
  | .ok r =>
    if (r.sfEcho : Int) != q.sf then throw .unexpected
    else do dtcPost q r d; pure r
  | .error e =>
    -- `service_data` exists (with the echo) once the first byte was read and the sub-function was accepted
    match checkSubfunctionValid q.sf c.std, d[0]? with
    | .ok _, some b => if (b.toNat : Int) != q.sf then throw .unexpected else throw e
    | _, _ => throw e

end Uds.Model
