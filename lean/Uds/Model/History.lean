import Uds.Model.Entry
/-
  Histories on one client object: service calls, the two context managers, configuration changes, and
  frames that arrive between calls (left in the connection's receive queue).
-/
namespace Uds.Model

structure HState where
  cs : ClientState := {}
  cfg : CallCfg
  sw : Switches := ⟨true, true, true⟩
  rxq : List Bytes := []          -- frames sitting in the connection's receive queue
  opened : Bool := true
  deriving DecidableEq, Repr

inductive HOp where
  | call (e : Entry) (arrivals : List Frame)
  | unlock (level : Int) (seedParams : Bytes) (arr1 arr2 : List Frame)
  | enterSpr (waitNrc : Bool)       -- `with client.suppress_positive_response(wait_nrc=…):`
  | enterSprBare                    -- `with client.suppress_positive_response:` (the object is not called: wait_nrc keeps its value)
  | exitSpr                         -- leaving the block, normally or by exception (`__exit__`)
  | enterOvr (m : Modifier)         -- `with client.payload_override(m):`
  | exitOvr
  | setStd (std : Nat)              -- set_config('standard_version', …) with a valid edition
  | setUseServerTiming (b : Bool)
  | setSwitches (sw : Switches)
  | stray (frame : Bytes)           -- an unsolicited / late frame arrives between calls
  deriving DecidableEq, Repr

structure HOut where
  outer : Option Outer := none
  log : List Op := []
  algoCalls : List AlgoCall := []
  deriving DecidableEq, Repr

/-- security algorithm used by the executable model: `seed ⊕ 0xA5 ++ [level]` -/
def demoAlgo (seed : Bytes) (level : Int) : Bytes := seed.map (· ^^^ 0xA5) ++ [UInt8.ofNat (level % 256).toNat]

def hstep (s : HState) : HOp → HState × HOut
  | .call e arr =>
    let r := callInner s.cfg s.cs e arr
    -- `empty_rxqueue()` runs iff a request was built (make_request precedes send_request)
    let rxq' := if r.log.isEmpty then s.rxq else []
    ({ s with cs := r.st, rxq := rxq' }, { outer := some (deliver s.sw r.inner), log := r.log })
  | .unlock level sp a1 a2 =>
    let r := unlockInner s.cfg s.cs true demoAlgo level sp a1 a2
    let rxq' := if r.log.isEmpty then s.rxq else []
    ({ s with rxq := rxq' }, { outer := some (deliver s.sw r.inner), log := r.log, algoCalls := r.algoCalls })
  | .enterSpr w => ({ s with cs := { s.cs with spr := ⟨true, w⟩ } }, {})
  | .enterSprBare => ({ s with cs := { s.cs with spr := ⟨true, s.cs.spr.waitNrc⟩ } }, {})
  | .exitSpr => ({ s with cs := { s.cs with spr := ⟨false, false⟩ } }, {})
  | .enterOvr m => ({ s with cs := { s.cs with override := some m } }, {})
  | .exitOvr => ({ s with cs := { s.cs with override := none } }, {})
  | .setStd v => ({ s with cfg := { s.cfg with std := v } }, {})
  | .setUseServerTiming b => ({ s with cfg := { s.cfg with useServerTiming := b } }, {})
  | .setSwitches sw => ({ s with sw := sw }, {})
  | .stray f => ({ s with rxq := s.rxq ++ [f] }, {})

def hrun (s : HState) : List HOp → HState × List HOut
  | [] => (s, [])
  | op :: ops =>
    let (s', o) := hstep s op
    let (s'', os) := hrun s' ops
    (s'', o :: os)

end Uds.Model
