import Uds.Basic
/-
  Mirror of the fixed-width helper codecs:
  common/dtc.py (Status, Severity, DtcClass), common/CommunicationType.py, common/DataFormatIdentifier.py,
  common/AddressAndLengthFormatIdentifier.py, common/Baudrate.py, ReadDTCInformation.pack_dtc.
-/
namespace Uds.Model

/-- `0xNN if flag else 0` -/
def bitIf (flag : Bool) (mask : Nat) : Nat := if flag then mask else 0
/-- `True if byte & mask > 0 else False` -/
def hasBit (byte mask : Nat) : Bool := decide (byte &&& mask > 0)

structure Status where
  testFailed : Bool
  testFailedThisOperationCycle : Bool
  pending : Bool
  confirmed : Bool
  testNotCompletedSinceLastClear : Bool
  testFailedSinceLastClear : Bool
  testNotCompletedThisOperationCycle : Bool
  warningIndicatorRequested : Bool
  deriving DecidableEq, Repr

/-- dtc.py `Status.get_byte_as_int` -/
def Status.toByte (s : Status) : Nat :=
  bitIf s.testFailed 0x01 ||| bitIf s.testFailedThisOperationCycle 0x02 ||| bitIf s.pending 0x04 |||
  bitIf s.confirmed 0x08 ||| bitIf s.testNotCompletedSinceLastClear 0x10 ||| bitIf s.testFailedSinceLastClear 0x20 |||
  bitIf s.testNotCompletedThisOperationCycle 0x40 ||| bitIf s.warningIndicatorRequested 0x80

/-- dtc.py `Status.set_byte` / `from_byte` for an int -/
def Status.ofByte (b : Nat) : Status :=
  ⟨hasBit b 0x01, hasBit b 0x02, hasBit b 0x04, hasBit b 0x08, hasBit b 0x10, hasBit b 0x20, hasBit b 0x40, hasBit b 0x80⟩

def Status.flags (s : Status) : List Bool :=
  [s.testFailed, s.testFailedThisOperationCycle, s.pending, s.confirmed, s.testNotCompletedSinceLastClear,
   s.testFailedSinceLastClear, s.testNotCompletedThisOperationCycle, s.warningIndicatorRequested]

structure Severity where
  maintenanceOnly : Bool
  checkAtNextExit : Bool
  checkImmediately : Bool
  deriving DecidableEq, Repr

def Severity.toByte (s : Severity) : Nat :=
  bitIf s.maintenanceOnly 0x20 ||| bitIf s.checkAtNextExit 0x40 ||| bitIf s.checkImmediately 0x80
def Severity.ofByte (b : Nat) : Severity := ⟨hasBit b 0x20, hasBit b 0x40, hasBit b 0x80⟩
def Severity.flags (s : Severity) : List Bool := [s.maintenanceOnly, s.checkAtNextExit, s.checkImmediately]

structure DtcClass where
  class0 : Bool
  class1 : Bool
  class2 : Bool
  class3 : Bool
  class4 : Bool
  deriving DecidableEq, Repr

def DtcClass.toByte (c : DtcClass) : Nat :=
  bitIf c.class0 0x01 ||| bitIf c.class1 0x02 ||| bitIf c.class2 0x04 ||| bitIf c.class3 0x08 ||| bitIf c.class4 0x10
def DtcClass.ofByte (b : Nat) : DtcClass := ⟨hasBit b 0x01, hasBit b 0x02, hasBit b 0x04, hasBit b 0x08, hasBit b 0x10⟩
def DtcClass.flags (c : DtcClass) : List Bool := [c.class0, c.class1, c.class2, c.class3, c.class4]

/-! ### CommunicationType -/

structure CommType where
  subnet : Nat
  normalMsg : Bool
  networkManagementMsg : Bool
  deriving DecidableEq, Repr

/-- `CommunicationType.__init__` for an int subnet and bool flags -/
def CommType.mk' (subnet : Int) (normal nm : Bool) : Py CommType :=
  if subnet < 0 || subnet > 0xF then throw .valueErr
  else if !normal && !nm then throw .valueErr
  else pure ⟨subnet.toNat, normal, nm⟩

def CommType.toByte (c : CommType) : Nat :=
  ((bitIf c.normalMsg 1 ||| bitIf c.networkManagementMsg 2) &&& 0x3) ||| ((c.subnet &&& 0xF) <<< 4)

/-- `CommunicationType.from_byte` for a non-negative int -/
def CommType.fromByte (val : Nat) : Py CommType :=
  if val > 0xFF then throw .valueErr
  else if val &&& 0x0C != 0 then throw .valueErr
  else CommType.mk' (Int.ofNat ((val &&& 0xF0) >>> 4)) (hasBit val 1) (hasBit val 2)

/-! ### DataFormatIdentifier -/

structure Dfi where
  compression : Nat
  encryption : Nat
  deriving DecidableEq, Repr

def Dfi.mk' (compression encryption : Int) : Py Dfi :=
  if compression < 0 || compression > 0xF || encryption < 0 || encryption > 0xF then throw .valueErr
  else pure ⟨compression.toNat, encryption.toNat⟩

def Dfi.toByte (d : Dfi) : Nat := ((d.compression &&& 0xF) <<< 4) ||| (d.encryption &&& 0xF)

def Dfi.fromByte (b : Nat) : Py Dfi := Dfi.mk' (Int.ofNat ((b >>> 4) &&& 0xF)) (Int.ofNat (b &&& 0xF))

/-! ### AddressAndLengthFormatIdentifier -/

/-- the `address_map` / `memsize_map` lookup: bits → bytes -/
def alfidMap (bits : Int) : Option Nat :=
  if bits = 8 then some 1 else if bits = 16 then some 2 else if bits = 24 then some 3 else if bits = 32 then some 4
  else if bits = 40 then some 5 else if bits = 48 then some 6 else if bits = 56 then some 7 else if bits = 64 then some 8
  else none

structure Alfid where
  addressFormat : Nat
  memorysizeFormat : Nat
  deriving DecidableEq, Repr

def Alfid.mk' (addressFormat memorysizeFormat : Int) : Py Alfid :=
  match alfidMap addressFormat, alfidMap memorysizeFormat with
  | some _, some _ => pure ⟨addressFormat.toNat, memorysizeFormat.toNat⟩
  | _, _ => throw .valueErr

def Alfid.toByte (a : Alfid) : Nat :=
  ((((alfidMap a.memorysizeFormat).getD 0) <<< 4) ||| ((alfidMap a.addressFormat).getD 0)) &&& 0xFF

/-! ### Baudrate -/

def baudrateMap : List (Nat × Nat) :=
  [(9600, 0x01), (19200, 0x02), (38400, 0x03), (57600, 0x04), (115200, 0x05),
   (125000, 0x10), (250000, 0x11), (500000, 0x12), (1000000, 0x13)]

inductive BaudType where | fixed | specific | identifier
  deriving DecidableEq, Repr

structure Baudrate where
  baudrate : Nat
  baudtype : BaudType
  deriving DecidableEq, Repr

def baudFixedId (rate : Nat) : Option Nat := (baudrateMap.find? (·.1 == rate)).map (·.2)

/-- `Baudrate.__init__` for a non-negative rate; `ty = none` is `Type.Auto`; an unknown type number is `some none` -/
def Baudrate.mkNat (r : Nat) (ty : Option (Option BaudType)) : Py Baudrate :=
  let t : Option BaudType := match ty with
    | none => if (baudFixedId r).isSome then some .fixed else if r ≤ 0xFF then some .identifier else some .specific
    | some t => t
  match t with
  | some .specific => if r > 0xFFFFFF then throw .valueErr else pure ⟨r, .specific⟩
  | some .identifier => if r > 0xFF then throw .valueErr else pure ⟨r, .identifier⟩
  | some .fixed => if (baudFixedId r).isNone then throw .valueErr else pure ⟨r, .fixed⟩
  | none => throw .valueErr

/-- `Baudrate.__init__` for any int -/
def Baudrate.mk' (rate : Int) (ty : Option (Option BaudType)) : Py Baudrate :=
  if rate < 0 then throw .valueErr else Baudrate.mkNat rate.toNat ty

/-- `Baudrate.get_bytes` -/
def Baudrate.getBytes (b : Baudrate) : Py Bytes :=
  match b.baudtype with
  | .fixed => match baudFixedId b.baudrate with
    | some i => pure [UInt8.ofNat i]
    | none => throw .keyErr
  | .specific => pure [UInt8.ofNat ((b.baudrate >>> 16) &&& 0xFF), UInt8.ofNat ((b.baudrate >>> 8) &&& 0xFF),
                       UInt8.ofNat (b.baudrate &&& 0xFF)]
  | .identifier => pure [UInt8.ofNat b.baudrate]

/-- `Baudrate.effective_baudrate` -/
def Baudrate.effective (b : Baudrate) : Py Nat :=
  match b.baudtype with
  | .identifier => match baudrateMap.find? (·.2 == b.baudrate) with
    | some e => pure e.1
    | none => throw .runtimeErr
  | _ => pure b.baudrate

/-- `Baudrate.make_new_type` (only Fixed / Specific allowed) -/
def Baudrate.makeNewType (b : Baudrate) (t : BaudType) : Py Baudrate :=
  if t == .identifier then throw .valueErr
  else do
    let e ← b.effective
    Baudrate.mkNat e (some (some t))

/-- `ReadDTCInformation.pack_dtc` -/
def packDtc (dtcid : Nat) : Bytes :=
  [UInt8.ofNat ((dtcid >>> 16) &&& 0xFF), UInt8.ofNat ((dtcid >>> 8) &&& 0xFF), UInt8.ofNat (dtcid &&& 0xFF)]

end Uds.Model
