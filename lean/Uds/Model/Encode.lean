import Uds.Model.MemLoc
import Uds.Model.Simple
import Uds.Model.Editions
/-
  Mirror of the request builders (`make_request`) of the services that are not in `Simple.lean`:
  ReadDataByIdentifier, WriteDataByIdentifier, InputOutputControlByIdentifier,
  DynamicallyDefineDataIdentifier (by identifier / clear), ReadDTCInformation, RequestFileTransfer,
  Authentication — with the helper objects they take (DID / IO configuration, IOMasks, Filesize,
  DataFormatIdentifier, DynamicDidDefinition).  Validation order is the code's.

  Codecs are user code.  The model sees a codec as its payload length (`none` = the codec raises
  `ReadAllRemainingData`), values as the bytes the codec produces for them; `encodeVal` is the contract
  "`encode` returns exactly `len(codec)` bytes" (`struct.pack` refuses anything else).
-/
namespace Uds.Model

/-! ### DID configuration (`config['data_identifiers']`) -/

structure DidCfg where
  entries : List (Nat × Option Nat) := []     -- did ↦ payload length (`none` = read all remaining data)
  default : Option (Option Nat) := none       -- the `'default'` key
  deriving DecidableEq, Repr

def DidCfg.find (c : DidCfg) (did : Nat) : Option (Option Nat) :=
  match c.entries.find? (·.1 == did) with
  | some e => some e.2
  | none => c.default

/-- `check_did_config(didlist, didconfig)` -/
def checkDidConfig (c : Option DidCfg) (dids : List Nat) : Py DidCfg :=
  match c with
  | none => throw .config
  | some c => if dids.all (fun d => (c.find d).isSome) then pure c else throw .config

/-- `fetch_codec_definition_from_config` + `make_did_codec_from_definition`, reduced to the codec's length -/
def fetchCodec (c : DidCfg) (did : Nat) : Py (Option Nat) :=
  match c.find did with
  | some l => pure l
  | none => throw .config

/-- `codec.encode(value)`: the value is given as the bytes its encoding has -/
def encodeVal (len : Option Nat) (v : Bytes) : Py Bytes :=
  match len with
  | some n => if v.length = n then pure v else throw .structErr
  | none => pure v

/-- `validate_didlist_input` for a list of ints -/
def validateDidList : List Int → Py (List Nat)
  | [] => pure []
  | d :: rest => do
    validateInt d 0 0xFFFF
    let tl ← validateDidList rest
    pure (d.toNat :: tl)

/-- the loop of ReadDataByIdentifier.make_request that refuses a DID after one that reads all remaining data -/
def rdbiCheckReadAll (c : DidCfg) : List Nat → Bool → Py Unit
  | [], _ => pure ()
  | d :: rest, seenAll => do
    let l ← fetchCodec c d
    match l with
    | some _ => if seenAll then throw .valueErr else rdbiCheckReadAll c rest seenAll
    | none => if seenAll then throw .valueErr else rdbiCheckReadAll c rest true

def beList (w : Nat) : List Nat → Bytes
  | [] => []
  | d :: rest => toBE w d ++ beList w rest

/-- the `if didconfig is not None:` block -/
def rdbiValidateCfg (cfg : Option DidCfg) (ds : List Nat) : Py Unit :=
  match cfg with
  | none => pure ()
  | some c => do
    let c' ← checkDidConfig (some c) ds
    rdbiCheckReadAll c' ds false

/-- `ReadDataByIdentifier.make_request(didlist, didconfig)`; `cfg = none` is `test_data_identifier` -/
def rdbiMakeRequest (cfg : Option DidCfg) (dids : List Int) : Py Request := do
  let ds ← validateDidList dids
  rdbiValidateCfg cfg ds
  pure (mkReq "ReadDataByIdentifier" none (some (beList 2 ds)))

/-- `WriteDataByIdentifier.make_request(did, value, didconfig)` -/
def wdbiMakeRequest (cfg : DidCfg) (did : Int) (value : Bytes) : Py Request := do
  validateInt did 0 0xFFFF
  let c ← checkDidConfig (some cfg) [did.toNat]
  let l ← fetchCodec c did.toNat
  let v ← encodeVal l value
  pure (mkReq "WriteDataByIdentifier" none (some (toBE 2 did.toNat ++ v)))

/-! ### InputOutputControlByIdentifier -/

structure IoEntry where
  codecLen : Option Nat
  mask : Option (List (String × Nat)) := none      -- `'mask'`: name ↦ bit mask
  maskSize : Option Int := none                    -- `'mask_size'`
  deriving DecidableEq, Repr

structure IoCfg where
  entries : List (Nat × IoEntry) := []
  default : Option IoEntry := none
  deriving DecidableEq, Repr

def IoCfg.find (c : IoCfg) (did : Nat) : Option IoEntry :=
  match c.entries.find? (·.1 == did) with
  | some e => some e.2
  | none => c.default

/-- `tools.check_io_config_composite_entry` -/
def checkIoEntry (e : IoEntry) : Py Unit :=
  match e.maskSize with
  | none => pure ()
  | some sz =>
    if sz < 0 then throw .valueErr
    else match e.mask with
      | none => pure ()
      | some ms => if ms.all (fun m => m.2 ≤ 2 ^ (sz.toNat * 8) - 1) then pure () else throw .valueErr

/-- `tools.check_io_config(did, ioconfig)` + `fetch_io_entry_from_config` -/
def fetchIoEntry (c : IoCfg) (did : Nat) : Py IoEntry :=
  match c.find did with
  | none => throw .config
  | some e => do checkIoEntry e; pure e

inductive MaskArg where
  | all (b : Bool)                               -- a bool: every mask bit set / cleared
  | named (l : List (String × Bool))             -- IOMasks: name ↦ set?
  deriving DecidableEq, Repr

/-- the loop over `given_masks` -/
def ioMaskValue (cfg : List (String × Nat)) : List (String × Bool) → Nat → Py Nat
  | [], acc => pure acc
  | (name, on) :: rest, acc =>
    match cfg.find? (·.1 == name) with
    | none => throw .config
    | some m => ioMaskValue cfg rest (if on then acc ||| m.2 else acc)

/-- `int.to_bytes(size, 'big')` -/
def toBytesBE (v : Nat) (size : Nat) : Py Bytes :=
  if v < 256 ^ size then pure (toBE size v) else throw .overflowErr

def ioMaskBytes (e : IoEntry) : MaskArg → Py Bytes
  | .all b =>
    match e.maskSize with
    | some sz => pure (List.replicate sz.toNat (if b then 0xFF else 0x00))
    | none => throw .config
  | .named l =>
    match e.mask with
    | none => throw .config
    | some cfg => do
      let v ← ioMaskValue cfg l 0
      let size := match e.maskSize with | some sz => sz.toNat | none => byteLen v
      toBytesBE v size

/-- `control_param` must be None or 0..3 -/
def ioCheckParam (cp : Option Int) : Py Unit :=
  match cp with
  | some c => if c < 0 || c > 3 then throw .valueErr else pure ()
  | none => pure ()

def ioParamBytes (cp : Option Int) : Py Bytes :=
  match cp with
  | some c => packB c.toNat
  | none => pure []

def ioValueBytes (e : IoEntry) (values : Option Bytes) : Py Bytes :=
  match values with
  | some v => encodeVal e.codecLen v
  | none => pure []

def ioMaskPart (e : IoEntry) (masks : Option MaskArg) : Py Bytes :=
  match masks with
  | some m => ioMaskBytes e m
  | none => pure []

/-- `InputOutputControlByIdentifier.make_request` -/
def ioMakeRequest (cfg : IoCfg) (did : Int) (cp : Option Int) (values : Option Bytes) (masks : Option MaskArg) : Py Request := do
  validateInt did 0 0xFFFF
  ioCheckParam cp
  guardPy (values.isNone && masks.isSome) .valueErr
  let e ← fetchIoEntry cfg did.toNat
  let c ← ioParamBytes cp
  let v ← ioValueBytes e values
  let m ← ioMaskPart e masks
  pure (mkReq "InputOutputControlByIdentifier" none (some (toBE 2 did.toNat ++ c ++ v ++ m)))

/-! ### DynamicallyDefineDataIdentifier (by source DID, clear) -/

structure DddSrc where
  sourceDid : Int
  position : Int
  size : Int
  deriving DecidableEq, Repr

/-- `DynamicDidDefinition.ByDidDefinition.__init__` -/
def DddSrc.check (e : DddSrc) : Py Unit :=
  if e.sourceDid > 0xFFFF || e.sourceDid < 0 then throw .valueErr
  else if e.position < 0 then throw .valueErr
  else if e.size < 0 then throw .valueErr
  else pure ()

/-- `struct.pack('>HBB', source_did, position, memorysize)` -/
def dddSrcBytes : List DddSrc → Py Bytes
  | [] => pure []
  | e :: rest => do
    guardPy (e.position > 0xFF || e.size > 0xFF) .structErr
    let tl ← dddSrcBytes rest
    pure (toBE 2 e.sourceDid.toNat ++ [UInt8.ofNat e.position.toNat, UInt8.ofNat e.size.toNat] ++ tl)

/-- building the DynamicDidDefinition object: every `add(...)` validates its entry -/
def dddCheckAll : List DddSrc → Py Unit
  | [] => pure ()
  | e :: rest => do e.check; dddCheckAll rest

def dddByDidMakeRequest (did : Int) (entries : List DddSrc) : Py Request := do
  dddCheckAll entries
  validateInt did 0 0xFFFF
  guardPy (entries.isEmpty) .valueErr
  let body ← dddSrcBytes entries
  pure (mkReq "DynamicallyDefineDataIdentifier" (some 1) (some (toBE 2 did.toNat ++ body)))

def dddClearMakeRequest (did : Option Int) : Py Request :=
  match did with
  | none => pure (mkReq "DynamicallyDefineDataIdentifier" (some 3) (some []))
  | some d => do
    validateInt d 0 0xFFFF
    pure (mkReq "DynamicallyDefineDataIdentifier" (some 3) (some (toBE 2 d.toNat)))

/-! ### ReadDTCInformation -/

structure DtcArgs where
  sf : Int
  statusMask : Option Int := none
  severityMask : Option Int := none
  dtcClass : Option Int := none
  dtc : Option Int := none
  snapRec : Option Int := none
  extRec : Option Int := none
  memSel : Option Int := none
  fgid : Option Int := none
  deriving DecidableEq, Repr

/-- `assert_<param>`: must be given, and inside its range -/
def needInt (v : Option Int) (lo hi : Int) : Py Nat :=
  match v with
  | none => throw .valueErr
  | some x => do validateInt x lo hi; pure x.toNat

inductive DtcReqGroup where
  | noParam | statusMask | dtcSnap | dtcSnapMem | snapRec | dtcExt | dtcExtMem | sevStatus | dtcOnly | statusMem
  | extRecOnly | wwhMask | wwhPerm | other
  deriving DecidableEq, Repr

/-- the request grouping lists of `make_request` -/
def dtcReqGroup (sf : Nat) : DtcReqGroup :=
  if [0x0A, 0x0B, 0x0C, 0x0D, 0x0E, 0x14, 0x15, 0x03].contains sf then .noParam
  else if [0x01, 0x02, 0x0F, 0x11, 0x12, 0x13].contains sf then .statusMask
  else if sf == 0x04 then .dtcSnap
  else if sf == 0x18 then .dtcSnapMem
  else if sf == 0x05 then .snapRec
  else if sf == 0x06 || sf == 0x10 then .dtcExt
  else if sf == 0x19 then .dtcExtMem
  else if sf == 0x07 || sf == 0x08 then .sevStatus
  else if sf == 0x09 then .dtcOnly
  else if sf == 0x17 then .statusMem
  else if sf == 0x16 then .extRecOnly
  else if sf == 0x42 then .wwhMask
  else if sf == 0x55 then .wwhPerm
  else .other

/-- `validate_int(dtc_class, 0, 0x1F)`, `validate_int(severity_mask, 0, 0xFF)`, `severity_mask |= dtc_class & 0x1F` -/
def dtcSeverity (a : DtcArgs) : Py (Option Int) :=
  match a.dtcClass with
  | none => pure a.severityMask
  | some c => match a.severityMask with
    | none => throw .valueErr
    | some s => do
      validateInt c 0 0x1F
      validateInt s 0 0xFF
      pure (some (Int.ofNat (s.toNat ||| (c.toNat &&& 0x1F))))

/-- the parameter bytes of each request group -/
def dtcData (a : DtcArgs) (sev : Option Int) : DtcReqGroup → Py (Option Bytes)
  | .noParam => pure none
  | .other => pure none
  | .statusMask => do let m ← needInt a.statusMask 0 0xFF; pure (some [UInt8.ofNat m])
  | .dtcSnap => do
    let d ← needInt a.dtc 0 0xFFFFFF; let r ← needInt a.snapRec 0 0xFF
    pure (some (packDtc d ++ [UInt8.ofNat r]))
  | .dtcSnapMem => do
    let d ← needInt a.dtc 0 0xFFFFFF; let r ← needInt a.snapRec 0 0xFF; let m ← needInt a.memSel 0 0xFF
    pure (some (packDtc d ++ [UInt8.ofNat r, UInt8.ofNat m]))
  | .snapRec => do let r ← needInt a.snapRec 0 0xFF; pure (some [UInt8.ofNat r])
  | .dtcExt => do
    let d ← needInt a.dtc 0 0xFFFFFF; let r ← needInt a.extRec 0 0xFF
    pure (some (packDtc d ++ [UInt8.ofNat r]))
  | .dtcExtMem => do
    let d ← needInt a.dtc 0 0xFFFFFF; let m ← needInt a.memSel 0 0xFF; let r ← needInt a.extRec 0 0xFF
    pure (some (packDtc d ++ [UInt8.ofNat r, UInt8.ofNat m]))
  | .sevStatus => do
    let m ← needInt a.statusMask 0 0xFF; let s ← needInt sev 0 0xFF
    pure (some [UInt8.ofNat s, UInt8.ofNat m])
  | .dtcOnly => do let d ← needInt a.dtc 0 0xFFFFFF; pure (some (packDtc d))
  | .statusMem => do
    let ms ← needInt a.memSel 0 0xFF; let m ← needInt a.statusMask 0 0xFF
    pure (some [UInt8.ofNat m, UInt8.ofNat ms])
  | .extRecOnly => do let r ← needInt a.extRec 0 0xEF; pure (some [UInt8.ofNat r])
  | .wwhMask => do
    let m ← needInt a.statusMask 0 0xFF; let s ← needInt sev 0 0xFF; let g ← needInt a.fgid 0 0xFE
    pure (some [UInt8.ofNat g, UInt8.ofNat m, UInt8.ofNat s])
  | .wwhPerm => do let g ← needInt a.fgid 0 0xFE; pure (some [UInt8.ofNat g])

/-- `ReadDTCInformation.make_request` for int arguments -/
def dtcMakeRequest (std : Nat) (a : DtcArgs) : Py Request := do
  checkSubfunctionValid a.sf std
  let sev ← dtcSeverity a
  let data ← dtcData a sev (dtcReqGroup a.sf.toNat)
  pure (mkReq "ReadDTCInformation" (some a.sf.toNat) data)

/-! ### RequestFileTransfer -/

structure FilesizeObj where
  uncompressed : Option Int
  compressed : Option Int
  width : Nat
  deriving DecidableEq, Repr

/-- `if v is not None: if v < 0: raise ValueError` -/
def checkNonNeg : Option Int → Py Unit
  | some u => guardPy (decide (u < 0)) .valueErr
  | none => pure ()

/-- `if v is not None: if v > maxsize: raise ValueError` -/
def checkAtMost (mx : Int) : Option Int → Py Unit
  | some u => guardPy (decide (u > mx)) .valueErr
  | none => pure ()

/-- the `width` argument: validated against both sizes, or computed as the smallest number of bytes -/
def filesizeWidth (unc comp : Option Int) : Option Int → Py Nat
  | some w => do
    guardPy (decide (w < 0)) .valueErr
    checkAtMost (2 ^ (w.toNat * 8) - 1) comp
    checkAtMost (2 ^ (w.toNat * 8) - 1) unc
    pure w.toNat
  | none => pure (byteLen (max (unc.getD 0) (comp.getD 0)).toNat)

/-- `Filesize.__init__` -/
def FilesizeObj.new (unc comp : Option Int) (width : Option Int) : Py FilesizeObj := do
  guardPy (unc.isNone && comp.isNone) .valueErr
  checkNonNeg unc
  checkNonNeg comp
  let w ← filesizeWidth unc comp width
  pure { uncompressed := unc, compressed := comp, width := w }

inductive FilesizeArg where
  | int (v : Int)                                            -- a plain integer
  | obj (unc comp : Option Int) (width : Option Int)         -- `Filesize(uncompressed, compressed, width)`
  deriving DecidableEq, Repr

def FilesizeArg.build : FilesizeArg → Py FilesizeObj
  | .int v => FilesizeObj.new (some v) none none
  | .obj u c w => FilesizeObj.new u c w

def sizeBytes (v : Option Int) (width : Nat) : Py Bytes :=
  match v with
  | none => pure []
  | some x => toBytesBE x.toNat width

/-- the Filesize object is built by the caller, before the call -/
def rftBuildArg : Option FilesizeArg → Py (Option (Int ⊕ FilesizeObj))
  | some (.obj u c w) => do let f ← FilesizeObj.new u c w; pure (some (.inr f))
  | some (.int v) => pure (some (.inl v))
  | none => pure none

def rftUsesDfi (moop : Int) : Bool := moop == 1 || moop == 3 || moop == 4 || moop == 6
def rftUsesSize (moop : Int) : Bool := moop == 1 || moop == 3 || moop == 6

/-- the DataFormatIdentifier byte that will be transmitted (`normalize_data_format_identifier`), if the mode takes one -/
def rftDfi (moop : Int) (dfi : Option Nat) : Py (Option Nat) :=
  if rftUsesDfi moop then pure (some (dfi.getD 0))
  else if dfi.isSome then throw .valueErr else pure none

def rftAsObj : Int ⊕ FilesizeObj → Py FilesizeObj
  | .inl v => FilesizeObj.new (some v) none none
  | .inr f => pure f

def rftDefaultCompressed (f : FilesizeObj) : Py FilesizeObj :=
  if f.compressed.isNone then FilesizeObj.new f.uncompressed f.uncompressed (some (f.width : Int)) else pure f

/-- `Filesize(filesize)` for an int, the uncompressed-size requirement, the default compressed size -/
def rftNormalizeSize (x : Int ⊕ FilesizeObj) : Py FilesizeObj := do
  let f ← rftAsObj x
  guardPy (f.uncompressed.isNone) .valueErr
  rftDefaultCompressed f

def rftSize (moop : Int) (fs : Option (Int ⊕ FilesizeObj)) : Py (Option FilesizeObj) :=
  if rftUsesSize moop then
    match fs with
    | none => throw .valueErr
    | some x => do let f ← rftNormalizeSize x; pure (some f)
  else if fs.isSome then throw .valueErr else pure none

def rftDfiBytes : Option Nat → Py Bytes
  | some b => packB b
  | none => pure []

def rftSizeBytes : Option FilesizeObj → Py Bytes
  | none => pure []
  | some f => do
    let w ← toBytesBE f.width 1
    let u ← sizeBytes f.uncompressed f.width
    let c ← sizeBytes f.compressed f.width
    pure (w ++ u ++ c)

/-- `RequestFileTransfer.make_request`; `path` is the ASCII encoding of the path, `dfi` the DataFormatIdentifier byte -/
def rftMakeRequest (moop : Int) (path : Bytes) (dfi : Option Nat) (filesize : Option FilesizeArg) : Py Request := do
  let fs ← rftBuildArg filesize
  guardPy (!([1, 2, 3, 4, 5, 6] : List Int).contains moop) .valueErr
  guardPy (decide (path.length = 0)) .valueErr
  guardPy (decide (path.length > 0xFFFF)) .valueErr
  let dfi' ← rftDfi moop dfi
  let fs' ← rftSize moop fs
  let d ← rftDfiBytes dfi'
  let z ← rftSizeBytes fs'
  pure (mkReq "RequestFileTransfer" none (some ([UInt8.ofNat moop.toNat] ++ toBE 2 path.length ++ path ++ d ++ z)))

/-! ### Authentication -/

structure AuthArgs where
  task : Int
  commConf : Option Int := none
  certClient : Option Bytes := none
  challengeClient : Option Bytes := none
  algo : Option Bytes := none
  certEvalId : Option Int := none
  certData : Option Bytes := none
  pownClient : Option Bytes := none
  ephKeyClient : Option Bytes := none
  addParam : Option Bytes := none
  deriving DecidableEq, Repr

/-- `_append_byes_parameter` -/
def lenPrefixed (p : Option Bytes) : Py Bytes :=
  match p with
  | none => pure [0, 0]
  | some b => if b.length > 0xFFFF then throw .valueErr else pure (toBE 2 b.length ++ b)

def needAlgo (a : Option Bytes) : Py Bytes :=
  match a with
  | some b => if b.length = 16 then pure b else throw .valueErr
  | none => throw .valueErr

/-- the parameter record of each authentication task -/
def authData (a : AuthArgs) : Nat → Py (Option Bytes)
  | 0 => pure none
  | 8 => pure none
  | 1 => do
    let cc ← needInt a.commConf 0 0xFF
    let x ← lenPrefixed a.certClient
    let y ← lenPrefixed a.challengeClient
    pure (some ([UInt8.ofNat cc] ++ x ++ y))
  | 2 => do
    let cc ← needInt a.commConf 0 0xFF
    let x ← lenPrefixed a.certClient
    let y ← lenPrefixed a.challengeClient
    pure (some ([UInt8.ofNat cc] ++ x ++ y))
  | 5 => do
    let cc ← needInt a.commConf 0 0xFF
    let al ← needAlgo a.algo
    pure (some ([UInt8.ofNat cc] ++ al))
  | 3 => do
    let x ← lenPrefixed a.pownClient
    let y ← lenPrefixed a.ephKeyClient
    pure (some (x ++ y))
  | 4 => do
    let id ← needInt a.certEvalId 0 0xFFFF
    let x ← lenPrefixed a.certData
    pure (some (toBE 2 id ++ x))
  | _ => do                                            -- 6, 7
    let al ← needAlgo a.algo
    let x ← lenPrefixed a.pownClient
    let y ← lenPrefixed a.challengeClient
    let z ← lenPrefixed a.addParam
    pure (some (al ++ x ++ y ++ z))

/-- `Authentication.make_request` -/
def authMakeRequest (a : AuthArgs) : Py Request := do
  validateInt a.task 0 8
  let data ← authData a a.task.toNat
  pure (mkReq "Authentication" (some a.task.toNat) data)

end Uds.Model
