import Uds.Model.Send
/-
  Mirror of the `standard_error_management` decorator (client.py:171-212) and of the way the composite
  helpers of the client call other entry points.
-/
namespace Uds.Model

structure Switches where
  neg : Bool      -- exception_on_negative_response
  inv : Bool      -- exception_on_invalid_response
  unexp : Bool    -- exception_on_unexpected_response
  deriving DecidableEq, Repr

/-- result of the undecorated function body -/
inductive Inner where
  | ret (r : Option Response)                  -- returned None or a response object
  | exc (e : PyErr) (r : Option Response)      -- raised; `r` is `e.response` for the three response exceptions
  deriving DecidableEq, Repr

/-- what the caller of the decorated method observes; `unexpected` is the flag set on the response object -/
inductive Outer where
  | ret (r : Option Response) (unexpected : Bool)
  | exc (e : PyErr) (r : Option Response) (unexpected : Bool)
  deriving DecidableEq, Repr

/-- `standard_error_management` -/
def deliver (sw : Switches) : Inner → Outer
  | .ret r => .ret r false
  | .exc (.negative c) (some r) =>
    let r' := { r with positive := false }
    if sw.neg then .exc (.negative c) (some r') false else .ret (some r') false
  | .exc .invalid (some r) =>
    let r' := { r with valid := false }
    if sw.inv then .exc .invalid (some r') false else .ret (some r') false
  | .exc .unexpected (some r) =>
    if sw.unexp then .exc .unexpected (some r) true else .ret (some r) true
  | .exc e r => .exc e r false

/-- the failure class a caller can read off what it was given -/
inductive Verdict where
  | ok | none | negative (c : Nat) | invalid | unexpected | other (e : PyErr)
  deriving DecidableEq, Repr

def Outer.verdict : Outer → Verdict
  | .exc (.negative c) _ _ => .negative c
  | .exc .invalid _ _ => .invalid
  | .exc .unexpected _ _ => .unexpected
  | .exc e _ _ => .other e
  | .ret none _ => .none
  | .ret (some r) u =>
    if u then .unexpected
    else if !r.valid then .invalid
    else if !r.positive then .negative (r.code.getD 0)
    else .ok

def Outer.response : Outer → Option Response
  | .ret r _ => r
  | .exc _ r _ => r

def sendInner (r : SendResult) : Inner :=
  match r.outcome with
  | .resp x => .ret (some x)
  | .none => .ret none
  | .raised e x _ => .exc e x

/-! ### composite helpers: a client method that calls another decorated method and then uses the result -/

/-- the callee is invoked through `_func_no_error_management`: its exceptions reach the caller's own
    decorator; `post` (the caller's post-processing) only ever sees what the callee *returned* -/
def compositeUndecorated (sw : Switches) (post : Option Response → Inner) (callee : Inner) : Outer :=
  deliver sw (match callee with
    | .exc e r => .exc e r
    | .ret r => post r)

/-- the callee is invoked as `self.callee(...)`, i.e. through its decorator: with a switch off, `post`
    receives the *failed* response object as if it were a result -/
def compositeDecorated (sw : Switches) (post : Option Response → Inner) (callee : Inner) : Outer :=
  deliver sw (match deliver sw callee with
    | .exc e r _ => .exc e r
    | .ret r _ => post r)

/-- one edge of the client's internal call graph (tied to an AST walk of client.py by `Tie.CallGraph`):
    `caller` invokes the decorated method `callee`; `undecorated` = through `_func_no_error_management`;
    `usesResult` = it reads attributes of the returned object instead of returning it unchanged -/
structure CallEdge where
  caller : String
  callee : String
  undecorated : Bool
  usesResult : Bool
  deriving DecidableEq, Repr

end Uds.Model
