import Uds.Model.Simple
/-
  Call level: `make_request → send_request → interpret_response → echo checks → state update`, for the
  client methods of the simple services, and the seed/key composite.  (The remaining services are added
  to `Entry` by `Uds/Model/Encode*.lean` / `Decode*.lean`.)
-/
namespace Uds.Model

inductive Entry where
  | changeSession (n : Int)
  | ecuReset (t : Int)
  | requestSeed (level : Int) (data : Bytes)
  | sendKey (level : Int) (key : Bytes)
  | testerPresent
  | commControl (ct : Int) (commType : Nat) (node : Option Int)
  | accessTiming (t : Int) (record : Option Bytes)
  | controlDtc (t : Int) (data : Option Bytes)
  | linkControl (ct : Int) (baud : Option Baudrate)
  | routineControl (rid ct : Int) (data : Option Bytes)
  | transferData (seq : Int) (data : Option Bytes)
  | transferExit (data : Option Bytes)
  | clearDtc (group : Int) (ms : Option Int)
  deriving DecidableEq, Repr

structure CallCfg where
  send : SendCfg
  std : Nat := 2020
  useServerTiming : Bool := true
  msNum : Nat := 1              -- ticks per millisecond = msNum / msDen (unit conversion for adopted server timing)
  msDen : Nat := 1
  deriving DecidableEq, Repr

def Entry.makeRequest (std : Nat) : Entry → Py Request
  | .changeSession n => dscMakeRequest n
  | .ecuReset t => ecuResetMakeRequest t
  | .requestSeed l d => saMakeRequest l .requestSeed d
  | .sendKey l k => saMakeRequest l .sendKey k
  | .testerPresent => testerPresentMakeRequest
  | .commControl ct c n => commControlMakeRequest std ct c n
  | .accessTiming t r => accessTimingMakeRequest t r
  | .controlDtc t d => controlDtcMakeRequest t d
  | .linkControl ct b => linkControlMakeRequest ct b
  | .routineControl rid ct d => routineControlMakeRequest rid ct d
  | .transferData s d => transferDataMakeRequest s d
  | .transferExit d => transferExitMakeRequest d
  | .clearDtc g m => clearDtcMakeRequest std g m

/-- interpret_response + echo comparisons; the value is the server timing found in a session-change reply -/
def Entry.post (std : Nat) (e : Entry) (d : Bytes) : Py (Option (Nat × Nat)) :=
  match e with
  | .changeSession n => do
    let sd ← dscInterpret std d
    if n != (sd.sessionEcho : Int) then throw .unexpected
    if std > 2006 then
      match sd.timing with
      | none => throw .assertErr
      | some t => pure (some t)
    else pure none
  | .ecuReset t => do let _ ← ecuResetPost t d; pure none
  | .requestSeed l _ => do let _ ← saPost .requestSeed l d; pure none
  | .sendKey l _ => do let _ ← saPost .sendKey l d; pure none
  | .testerPresent => do let _ ← echoPost 0 d; pure none
  | .commControl ct _ _ => do let _ ← echoPost ct d; pure none
  | .accessTiming t _ => do let _ ← echoPost t d; pure none
  | .controlDtc t _ => do let _ ← echoPost t d; pure none
  | .linkControl ct _ => do let _ ← echoPost ct d; pure none
  | .routineControl rid ct _ => do let _ ← routineControlPost rid ct d; pure none
  | .transferData s _ => do let _ ← transferDataPost s d; pure none
  | .transferExit _ => pure none
  | .clearDtc _ _ => pure none

structure CallResult where
  inner : Inner
  log : List Op
  tEnd : Nat
  st : ClientState
  deriving DecidableEq, Repr

/-- the undecorated body of a client method -/
def callInner (cfg : CallCfg) (st : ClientState) (e : Entry) (arrivals : List Frame) : CallResult :=
  match e.makeRequest cfg.std with
  | .error err => { inner := .exc err none, log := [], tEnd := 0, st := st }
  | .ok req =>
    let r := sendRequest cfg.send st req none arrivals
    match r.outcome with
    | .none => { inner := .ret none, log := r.log, tEnd := r.tEnd, st := st }
    | .raised err resp _ => { inner := .exc err resp, log := r.log, tEnd := r.tEnd, st := st }
    | .resp resp =>
      match e.post cfg.std resp.data with
      | .error err => { inner := .exc err (some resp), log := r.log, tEnd := r.tEnd, st := st }
      | .ok t =>
        let st' := match t with
          | some (p2, p2s) => if cfg.useServerTiming then { st with timing := some (p2 * cfg.msNum / cfg.msDen, p2s * cfg.msNum / cfg.msDen) } else st
          | none => st
        { inner := .ret (some resp), log := r.log, tEnd := r.tEnd, st := st' }

/-! ### the body shared by every client method (used for the service families that are not `Entry` constructors) -/

/-- what a client method hands back: a value (or `None`), or an exception -/
inductive CallOut (α : Type) where
  | ret (v : Option α)
  | exc (e : PyErr)
  deriving DecidableEq

/-- returned, or raised one of the documented outcomes -/
def CallOut.Documented {α : Type} : CallOut α → Prop
  | .ret _ => True
  | .exc e => e.documented = true

/-- the undecorated body every client method shares once its request is built: `send_request`, `None` passed on, otherwise the
    method's own interpretation and checks on the reply data -/
def callWith {α : Type} (cfg : SendCfg) (st : ClientState) (req : Request) (post : Bytes → Py α) (arr : List Frame) : CallOut α :=
  match (sendRequest cfg st req none arr).outcome with
  | .none => .ret none
  | .raised e _ _ => .exc e
  | .resp r => match post r.data with
    | .ok v => .ret (some v)
    | .error e => .exc e

/-- the exception classes that carry the response they were raised for (`e.response`): the three response exceptions -/
def _root_.Uds.PyErr.carriesResponse : PyErr → Bool
  | .negative _ | .invalid | .unexpected => true
  | _ => false

/-- `callWith` as the method's decorator sees it: a response exception carries the response it was raised for, a returned value is the response object -/
def callWithI {α : Type} (cfg : SendCfg) (st : ClientState) (req : Request) (post : Bytes → Py α) (arr : List Frame) : Inner :=
  match (sendRequest cfg st req none arr).outcome with
  | .none => .ret none
  | .raised e r _ => .exc e r
  | .resp r => match post r.data with
    | .ok _ => .ret (some r)
    | .error e => .exc e (if e.carriesResponse then some r else none)

/-- how the configured security algorithm is invoked: which of `seed`, `level`, `params` it receives
    (by reflection on its signature; an opaque callable gets all three) -/
structure AlgoCall where
  seed : Bytes
  level : Int
  deriving DecidableEq, Repr

structure UnlockResult where
  inner : Inner
  log : List Op
  algoCalls : List AlgoCall
  deriving DecidableEq, Repr

/-- `Client.unlock_security_access` with `security_algo = algo` (a function of seed and the level *as passed*) -/
def unlockInner (cfg : CallCfg) (st : ClientState) (hasAlgo : Bool) (algo : Bytes → Int → Bytes) (level : Int) (seedParams : Bytes)
    (arr1 arr2 : List Frame) : UnlockResult :=
  if !hasAlgo then { inner := .exc .notImpl none, log := [], algoCalls := [] }
  else
    let r1 := callInner cfg st (.requestSeed level seedParams) arr1
    match r1.inner with
    | .exc e r => { inner := .exc e r, log := r1.log, algoCalls := [] }
    | .ret none => { inner := .ret none, log := r1.log, algoCalls := [] }   -- suppressed: nothing to compute a key from
    | .ret (some resp) =>
      let seed := resp.data.drop 1
      if seed.length > 0 && allZero seed then { inner := .ret (some resp), log := r1.log, algoCalls := [] }
      else
        let key := algo seed level
        let r2 := callInner cfg r1.st (.sendKey level key) arr2
        { inner := r2.inner, log := r1.log ++ r2.log, algoCalls := [⟨seed, level⟩] }

end Uds.Model
