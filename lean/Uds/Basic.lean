import Uds.Basic.Bytes
import Uds.Basic.Py
