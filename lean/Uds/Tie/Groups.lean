import Uds.Model.DecodeDtc
import Uds.Model.Decode
import Uds.Model.Editions
import Uds.Generated.Groups
/-
  Tie for the dispatch of ReadDTCInformation and RequestFileTransfer, for every sub-function / mode-of-operation byte.

  On every run harness/extract.py runs the real code on fixed probes (`Generated.Groups`):
    * which of 13 argument kits `ReadDTCInformation.make_request` accepts (a bit mask per sub-function, 2020 edition),
    * how `ReadDTCInformation.interpret_response` reads each of 13 probe replies (an outcome code per sub-function and probe),
    * the same for `RequestFileTransfer` (4 kits, 8 probe replies) per mode-of-operation byte.
  Here the model's builders and interpreters are evaluated by the kernel on the same kits and probes, for all 256 byte values, and
  the results must be the recorded tables.  An entry added to or dropped from one of the dispatch lists of /repo changes a row;
  a rewrite of the lists that keeps the behaviour does not (the tables are behavioural, not a reading of the source text).
-/
namespace Uds.Tie.Groups
open Uds Uds.Model

def isOk {α : Type} (r : Py α) : Bool := match r with | .ok _ => true | .error _ => false

/-- the argument kits of `extract.DTC_KITS`, in the same order -/
def dtcKits : List DtcArgs := [
  { sf := 0 }, { sf := 0, statusMask := some 1 }, { sf := 0, dtc := some 0x123456, snapRec := some 2 }, { sf := 0, dtc := some 0x123456, snapRec := some 2, memSel := some 3 },
  { sf := 0, snapRec := some 2 }, { sf := 0, dtc := some 0x123456, extRec := some 4 }, { sf := 0, dtc := some 0x123456, extRec := some 4, memSel := some 3 },
  { sf := 0, statusMask := some 1, severityMask := some 0x20 }, { sf := 0, dtc := some 0x123456 }, { sf := 0, statusMask := some 1, memSel := some 3 }, { sf := 0, extRec := some 4 },
  { sf := 0, fgid := some 0x33, statusMask := some 1, severityMask := some 0x20 }, { sf := 0, fgid := some 0x33 } ]

def maskOf (l : List Bool) : Nat := (l.zipIdx.map (fun p => if p.1 then 2 ^ p.2 else 0)).sum

def dtcReqMask (sf : Nat) : Nat := maskOf (dtcKits.map (fun k => isOk (dtcMakeRequest 2020 { k with sf := sf })))

theorem dtc_request_dispatch : (List.range 256).map dtcReqMask = Generated.dtcReqMask := by decide +kernel

def errCode : PyErr → Nat
  | .invalid => 1
  | .valueErr => 2
  | .config => 3
  | .notImpl => 4
  | _ => 9

def probeCfg : DtcCfg := { std := 2020, tol := true, ign := true, didSize := 2, dids := some { entries := [(0x5678, some 2)] }, ext := .int 2 }

def dtcCode (r : Py DtcData) : Nat :=
  match r with
  | .error e => errCode e
  | .ok d => 100 + 10 * min d.count 9 + min d.dtcs.length 9 + (if d.memSel.isSome then 1000 else 0)

def dtcRespSig (sf : Nat) : List Nat :=
  Generated.dtcProbes.map (fun p => dtcCode (dtcInterpret probeCfg sf ((sf :: p).map UInt8.ofNat)))

theorem dtc_response_dispatch : (List.range 256).map dtcRespSig = Generated.dtcRespSig := by decide +kernel

/-! ### RequestFileTransfer -/

def rftReqMask (m : Nat) : Nat :=
  maskOf [isOk (rftMakeRequest m [0x61] none none), isOk (rftMakeRequest m [0x61] (some 0x11) none),
          isOk (rftMakeRequest m [0x61] none (some (.int 0x100))), isOk (rftMakeRequest m [0x61] (some 0x11) (some (.int 0x100)))]

theorem rft_request_dispatch : (List.range 256).map rftReqMask = Generated.rftReqMask := by decide +kernel

def rftCode (r : Py SData) : Nat :=
  match r with
  | .error e => errCode e
  | .ok (.rft _ ml dfi fs di fp) =>
    100 + (if ml.isSome then 1 else 0) + (if dfi.isSome then 2 else 0) + (if fs.isSome then 4 else 0) + (if di.isSome then 8 else 0) + (if fp.isSome then 16 else 0)
  | .ok _ => 9

def rftRespSig (m : Nat) : List Nat := Generated.rftProbes.map (fun p => rftCode (rftInterpret true ((m :: p).map UInt8.ofNat)))

theorem rft_response_dispatch : (List.range 256).map rftRespSig = Generated.rftRespSig := by decide +kernel

end Uds.Tie.Groups
