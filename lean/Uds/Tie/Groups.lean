import Uds.Model.DecodeDtc
import Uds.Model.Editions
import Uds.Generated.Groups
/-
  Tie by translation: the sub-function / mode-of-operation dispatch lists of ReadDTCInformation and RequestFileTransfer are read out of
  the source text on every run (harness/extract.py, AST walk) and the model's dispatch functions are proved equal to membership in
  those lists, for every byte value.  An edit of one of the lists in /repo breaks one of these kernel-checked equalities.
-/
namespace Uds.Tie.Groups
open Uds Uds.Model

def lst (tbl : List (String × List Nat)) (name : String) : List Nat := ((tbl.find? (·.1 == name)).map (·.2)).getD []
def present (tbl : List (String × List Nat)) (names : List String) : Bool := names.all (fun n => (tbl.find? (·.1 == n)).isSome)

theorem req_lists_present : present Generated.dtcReqLists
    ["request_subfn_no_param", "request_subfn_status_mask", "request_subfn_mask_record_plus_snapshot_record_number",
     "request_subfn_mask_record_plus_snapshot_record_number_plus_memory_selection", "request_subfn_snapshot_record_number",
     "request_subfn_mask_record_plus_extdata_record_number", "request_subfn_mask_record_plus_extdata_record_number_plus_memory_selection",
     "request_subfn_severity_plus_status_mask", "request_subfn_mask_record", "request_subfn_status_mask_plus_memory_selection"] = true ∧
    Generated.dtcReqLists.length = 10 := by decide

/-- the request grouping of `make_request`, as its lists and `==` tests say -/
def reqGroupOf (sf : Nat) : DtcReqGroup :=
  let m := fun n => (lst Generated.dtcReqLists n).contains sf
  if m "request_subfn_no_param" then .noParam
  else if m "request_subfn_status_mask" then .statusMask
  else if m "request_subfn_mask_record_plus_snapshot_record_number" then .dtcSnap
  else if m "request_subfn_mask_record_plus_snapshot_record_number_plus_memory_selection" then .dtcSnapMem
  else if m "request_subfn_snapshot_record_number" then .snapRec
  else if m "request_subfn_mask_record_plus_extdata_record_number" then .dtcExt
  else if m "request_subfn_mask_record_plus_extdata_record_number_plus_memory_selection" then .dtcExtMem
  else if m "request_subfn_severity_plus_status_mask" then .sevStatus
  else if m "request_subfn_mask_record" then .dtcOnly
  else if m "request_subfn_status_mask_plus_memory_selection" then .statusMem
  else if sf == 0x16 && Generated.dtcReqEq.contains 0x16 then .extRecOnly
  else if sf == 0x42 && Generated.dtcReqEq.contains 0x42 then .wwhMask
  else if sf == 0x55 && Generated.dtcReqEq.contains 0x55 then .wwhPerm
  else .other

theorem req_groups : ∀ sf : Fin 256, dtcReqGroup sf.val = reqGroupOf sf.val := by decide +kernel

theorem resp_lists_present : present Generated.dtcRespLists
    ["response_subfn_dtc_availability_mask_plus_dtc_record", "response_subfn_dtc_availability_mask_plus_dtc_record_with_severity",
     "response_subfn_number_of_dtc", "response_subfn_dtc_plus_fault_counter", "response_subfn_dtc_plus_sapshot_record",
     "response_sbfn_dtc_status_snapshots_records", "response_sbfn_dtc_status_snapshots_records_record_first",
     "response_subfn_mask_record_plus_extdata", "response_subfn_record_number_plus_dtc_mask_plus_extdata", "subfunctions_with_memory_selection"] = true ∧
    Generated.dtcRespLists.length = 10 := by decide

/-- the response grouping of `interpret_response` -/
def respGroupOf (sf : Nat) : DtcRespGroup :=
  let m := fun n => (lst Generated.dtcRespLists n).contains sf
  if m "response_subfn_dtc_availability_mask_plus_dtc_record" then .records4
  else if m "response_subfn_dtc_availability_mask_plus_dtc_record_with_severity" then .records6
  else if m "response_subfn_dtc_plus_fault_counter" then .faultCounter
  else if m "response_subfn_dtc_plus_sapshot_record" then .snapIdent
  else if m "response_subfn_number_of_dtc" then .count
  else if m "response_sbfn_dtc_status_snapshots_records" then .snapByDtc
  else if m "response_sbfn_dtc_status_snapshots_records_record_first" then .snapByRecord
  else if m "response_subfn_mask_record_plus_extdata" then .extByDtc
  else if m "response_subfn_record_number_plus_dtc_mask_plus_extdata" then .extByRecord
  else if sf == 0x42 && Generated.dtcRespEq.contains 0x42 then .wwhMask
  else if sf == 0x55 && Generated.dtcRespEq.contains 0x55 then .wwhPerm
  else .echoOnly

theorem resp_groups : ∀ sf : Fin 256, dtcRespGroup sf.val = respGroupOf sf.val := by decide +kernel

theorem memsel_list : ∀ sf : Fin 256, hasMemSel sf.val = (lst Generated.dtcRespLists "subfunctions_with_memory_selection").contains sf.val := by decide +kernel

theorem edition_list : present Generated.dtcEditionLists ["subfunction2020"] = true ∧
    ∀ sf : Fin 256, subfunction2020.contains sf.val = (lst Generated.dtcEditionLists "subfunction2020").contains sf.val := by
  constructor
  · decide
  · decide +kernel

/-! ### RequestFileTransfer -/

theorem rft_lists_present : present Generated.rftReqLists ["use_dfi", "use_filesize"] = true ∧
    present Generated.rftRespLists ["has_lfid", "has_dfi", "has_filesize_length", "has_uncompressed_filesize", "has_compressed_filesize", "has_fileposition"] = true := by decide

theorem rft_request_lists : ∀ m : Fin 256,
    rftUsesDfi (Int.ofNat m.val) = (lst Generated.rftReqLists "use_dfi").contains m.val ∧
    rftUsesSize (Int.ofNat m.val) = (lst Generated.rftReqLists "use_filesize").contains m.val := by decide +kernel

theorem rft_response_lists : ∀ m : Fin 256,
    rftHasLfid m.val = (lst Generated.rftRespLists "has_lfid").contains m.val ∧
    rftHasLfid m.val = (lst Generated.rftRespLists "has_dfi").contains m.val ∧
    (m.val == 4 || m.val == 5) = (lst Generated.rftRespLists "has_filesize_length").contains m.val ∧
    (m.val == 4 || m.val == 5) = (lst Generated.rftRespLists "has_uncompressed_filesize").contains m.val ∧
    (m.val == 4) = (lst Generated.rftRespLists "has_compressed_filesize").contains m.val ∧
    (m.val == 6) = (lst Generated.rftRespLists "has_fileposition").contains m.val := by decide +kernel

end Uds.Tie.Groups
