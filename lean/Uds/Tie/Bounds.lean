import Uds.Model.DecodeDtc
import Uds.Model.Editions
import Uds.Generated.Bounds
/-
  Tie for argument ranges: on every run harness/extract.py runs the real request builders (and two interpreter guards) at a fixed set
  of probe values around every power-of-two boundary and records, per validated integer argument, the smallest and the largest accepted
  probe and whether every probe in between was accepted (`Generated.bounds`).  Here the model's builders are proved to accept *exactly*
  that interval at its boundary: `lo - 1` refused, `lo` and `hi` accepted, `hi + 1` refused, with the recorded numbers.  Changing a bound
  in /repo (the classic 0x7F → 0xFF slip) breaks one of these kernel-checked facts; a rewrite of the validation code that keeps the
  accepted interval does not (the table is behavioural, not a reading of the source text).
-/
namespace Uds.Tie.Bounds
open Uds Uds.Model

def bound (arg : String) : Option (Int × Int) :=
  (Generated.bounds.find? (fun r => r.1 == arg)).bind (fun r => if r.2.2.2 then some (r.2.1, r.2.2.1) else none)

def isOk {α : Type} (r : Py α) : Bool := match r with | .ok _ => true | .error _ => false

/-- `f` accepts exactly `[lo, hi]` at the boundary, for the interval recorded for `arg` (which must be gap-free on the probes) -/
def exact {α : Type} (arg : String) (f : Int → Py α) : Bool :=
  match bound arg with
  | some (lo, hi) => !isOk (f (lo - 1)) && isOk (f lo) && isOk (f hi) && !isOk (f (hi + 1))
  | none => false

theorem simple_services :
    exact "dsc.session" dscMakeRequest = true ∧
    exact "ecuReset.reset_type" ecuResetMakeRequest = true ∧
    exact "controlDtc.setting_type" (fun t => controlDtcMakeRequest t none) = true ∧
    exact "accessTiming.access_type" (fun t => accessTimingMakeRequest t (if t == 4 then some [] else none)) = true ∧
    exact "commControl.control_type" (fun t => commControlMakeRequest 2006 t 1 none) = true ∧
    exact "commControl.node_id" (fun n => commControlMakeRequest 2020 4 1 (some n)) = true ∧
    exact "linkControl.control_type" (fun t => linkControlMakeRequest t (if t == 1 || t == 2 then some ⟨9600, .fixed⟩ else none)) = true ∧
    exact "routine.routine_id" (fun r => routineControlMakeRequest r 1 none) = true ∧
    exact "routine.control_type" (fun t => routineControlMakeRequest 0x1234 t none) = true ∧
    exact "transferData.sequence_number" (fun q => transferDataMakeRequest q none) = true ∧
    exact "clearDtc.group" (fun g => clearDtcMakeRequest 2020 g none) = true ∧
    exact "clearDtc.memory_selection" (fun m => clearDtcMakeRequest 2020 0 (some m)) = true ∧
    exact "securityAccess.seed_level" (fun l => saMakeRequest l .requestSeed []) = true ∧
    exact "securityAccess.key_level" (fun l => saMakeRequest l .sendKey []) = true := by decide +kernel

def didCfgAll : DidCfg := { default := some (some 1) }
def ioCfgAll : IoCfg := { default := some { codecLen := some 1 } }

theorem identifier_services :
    exact "wdbi.did" (fun d => wdbiMakeRequest didCfgAll d [0]) = true ∧
    exact "rdbi.did" (fun d => rdbiMakeRequest (some didCfgAll) [d]) = true ∧
    exact "io.did" (fun d => ioMakeRequest ioCfgAll d none none none) = true ∧
    exact "ddd.did" (fun d => dddByDidMakeRequest d [⟨0x1234, 1, 1⟩]) = true := by decide +kernel

theorem dtc_arguments :
    exact "dtc.status_mask" (fun v => dtcMakeRequest 2020 { sf := 0x02, statusMask := some v }) = true ∧
    exact "dtc.severity_mask" (fun v => dtcMakeRequest 2020 { sf := 0x08, statusMask := some 1, severityMask := some v }) = true ∧
    exact "dtc.dtc" (fun v => dtcMakeRequest 2020 { sf := 0x09, dtc := some v }) = true ∧
    exact "dtc.snapshot_record_number" (fun v => dtcMakeRequest 2020 { sf := 0x05, snapRec := some v }) = true ∧
    exact "dtc.memory_selection" (fun v => dtcMakeRequest 2020 { sf := 0x17, statusMask := some 1, memSel := some v }) = true ∧
    exact "dtc.functional_group_id" (fun v => dtcMakeRequest 2020 { sf := 0x55, fgid := some v }) = true ∧
    exact "dtc.dtc_class" (fun v => dtcMakeRequest 2020 { sf := 0x42, statusMask := some 1, severityMask := some 0, dtcClass := some v, fgid := some 1 }) = true ∧
    exact "dtc.extended_data_size" (fun v => checkExtSize (.int v)) = true := by decide +kernel

/-- every optional parameter given, so that each task finds what it needs -/
def authFull (t : Int) : AuthArgs :=
  { task := t, commConf := some 0, certClient := some [1], challengeClient := some [1], algo := some (List.replicate 16 0), certEvalId := some 0, certData := some [1], pownClient := some [1], ephKeyClient := some [1], addParam := some [1] }

theorem authentication_arguments :
    exact "auth.authentication_task" (fun t => authMakeRequest (authFull t)) = true ∧
    exact "auth.communication_configuration" (fun v => authMakeRequest { task := 1, commConf := some v, certClient := some [1], challengeClient := some [1] }) = true ∧
    exact "auth.certificate_evaluation_id" (fun v => authMakeRequest { task := 4, certEvalId := some v, certData := some [1] }) = true := by decide +kernel

/-- the snapshot DID width accepted by the interpreters -/
theorem did_size_bound :
    exact "dtc.snapshot_did_size" (fun k => snapByDtcInterpret { didSize := k.toNat, tol := true } 4 (if k < 0 then [] else [4, 0x12, 0x34, 0x56, 0x00])) = true := by decide +kernel

/-- the same width guard on the by-record-number path (sub-function 0x05) -/
theorem did_size_bound_by_record :
    exact "dtc.snapshot_did_size_by_record" (fun k => snapByRecordInterpret { didSize := k.toNat, tol := true } [5, 0x02]) = true := by decide +kernel

end Uds.Tie.Bounds
