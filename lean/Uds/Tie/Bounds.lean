import Uds.Model.DecodeDtc
import Uds.Model.Editions
import Uds.Generated.Bounds
/-
  Tie by translation for argument ranges: the literal `min` / `max` of every `validate_int` call in the service modules is read out
  of the source text on every run (harness/extract.py) and the model's request builders are proved to accept *exactly* that interval
  at its boundary: `lo - 1` refused, `lo` and `hi` accepted, `hi + 1` refused, with the extracted numbers.  Changing a bound in /repo
  (the classic 0x7F → 0xFF slip) breaks one of these kernel-checked facts.
-/
namespace Uds.Tie.Bounds
open Uds Uds.Model

def bound (file fn arg : String) : Option (Int × Int) :=
  (Generated.bounds.find? (fun r => r.1 == file && r.2.1 == fn && r.2.2.1 == arg)).map (fun r => (r.2.2.2.1, r.2.2.2.2))

def isOk {α : Type} (r : Py α) : Bool := match r with | .ok _ => true | .error _ => false

/-- `f` accepts exactly `[lo, hi]` at the boundary, for the bounds extracted for `(file, fn, arg)` -/
def exact {α : Type} (file fn arg : String) (f : Int → Py α) : Bool :=
  match bound file fn arg with
  | some (lo, hi) => !isOk (f (lo - 1)) && isOk (f lo) && isOk (f hi) && !isOk (f (hi + 1))
  | none => false

theorem simple_services :
    exact "DiagnosticSessionControl.py" "make_request" "session" dscMakeRequest = true ∧
    exact "ECUReset.py" "make_request" "reset_type" ecuResetMakeRequest = true ∧
    exact "ControlDTCSetting.py" "make_request" "setting_type" (fun t => controlDtcMakeRequest t none) = true ∧
    exact "AccessTimingParameter.py" "make_request" "access_type" (fun t => accessTimingMakeRequest t (if t == 4 then some [] else none)) = true ∧
    exact "CommunicationControl.py" "make_request" "control_type" (fun t => commControlMakeRequest 2006 t 1 none) = true ∧
    exact "CommunicationControl.py" "make_request" "node_id" (fun n => commControlMakeRequest 2020 4 1 (some n)) = true ∧
    exact "LinkControl.py" "make_request" "control_type" (fun t => linkControlMakeRequest t (if t == 1 || t == 2 then some ⟨9600, .fixed⟩ else none)) = true ∧
    exact "RoutineControl.py" "make_request" "routine_id" (fun r => routineControlMakeRequest r 1 none) = true ∧
    exact "RoutineControl.py" "make_request" "control_type" (fun t => routineControlMakeRequest 0x1234 t none) = true ∧
    exact "TransferData.py" "make_request" "sequence_number" (fun q => transferDataMakeRequest q none) = true ∧
    exact "ClearDiagnosticInformation.py" "make_request" "group" (fun g => clearDtcMakeRequest 2020 g none) = true ∧
    exact "ClearDiagnosticInformation.py" "make_request" "memory_selection" (fun m => clearDtcMakeRequest 2020 0 (some m)) = true ∧
    exact "SecurityAccess.py" "normalize_level" "level" (fun l => saMakeRequest l .requestSeed []) = true ∧
    exact "SecurityAccess.py" "normalize_level" "level" (fun l => saMakeRequest l .sendKey []) = true := by decide +kernel

def didCfgAll : DidCfg := { default := some (some 1) }
def ioCfgAll : IoCfg := { default := some { codecLen := some 1 } }

theorem identifier_services :
    exact "WriteDataByIdentifier.py" "make_request" "did" (fun d => wdbiMakeRequest didCfgAll d [0]) = true ∧
    exact "ReadDataByIdentifier.py" "validate_didlist_input" "did" (fun d => rdbiMakeRequest (some didCfgAll) [d]) = true ∧
    exact "InputOutputControlByIdentifier.py" "make_request" "did" (fun d => ioMakeRequest ioCfgAll d none none none) = true ∧
    exact "DynamicallyDefineDataIdentifier.py" "make_request" "did" (fun d => dddByDidMakeRequest d [⟨0x1234, 1, 1⟩]) = true := by decide +kernel

theorem dtc_arguments :
    exact "ReadDTCInformation.py" "check_subfunction_valid" "subfunction" (fun sf => (validateInt sf 1 0x7F : Py Unit)) = true ∧
    exact "ReadDTCInformation.py" "assert_status_mask" "status_mask" (fun v => dtcMakeRequest 2020 { sf := 0x02, statusMask := some v }) = true ∧
    exact "ReadDTCInformation.py" "assert_severity_mask" "severity_mask" (fun v => dtcMakeRequest 2020 { sf := 0x08, statusMask := some 1, severityMask := some v }) = true ∧
    exact "ReadDTCInformation.py" "assert_dtc" "dtc" (fun v => dtcMakeRequest 2020 { sf := 0x09, dtc := some v }) = true ∧
    exact "ReadDTCInformation.py" "assert_snapshot_record_number" "snapshot_record_number" (fun v => dtcMakeRequest 2020 { sf := 0x05, snapRec := some v }) = true ∧
    exact "ReadDTCInformation.py" "assert_memory_selection" "memory_selection" (fun v => dtcMakeRequest 2020 { sf := 0x17, statusMask := some 1, memSel := some v }) = true ∧
    exact "ReadDTCInformation.py" "assert_functional_group_id" "functional_group_id" (fun v => dtcMakeRequest 2020 { sf := 0x55, fgid := some v }) = true ∧
    exact "ReadDTCInformation.py" "make_request" "dtc_class" (fun v => dtcMakeRequest 2020 { sf := 0x42, statusMask := some 1, severityMask := some 0, dtcClass := some v, fgid := some 1 }) = true ∧
    exact "ReadDTCInformation.py" "assert_extended_data_size_int_or_dict" "extended_data_size" (fun v => checkExtSize (.int v)) = true := by decide +kernel

/-- every optional parameter given, so that each task finds what it needs -/
def authFull (t : Int) : AuthArgs :=
  { task := t, commConf := some 0, certClient := some [1], challengeClient := some [1], algo := some (List.replicate 16 0), certEvalId := some 0, certData := some [1], pownClient := some [1], ephKeyClient := some [1], addParam := some [1] }

theorem authentication_arguments :
    exact "Authentication.py" "make_request" "authentication_task" (fun t => authMakeRequest (authFull t)) = true ∧
    exact "Authentication.py" "make_request" "communication_configuration" (fun v => authMakeRequest { task := 1, commConf := some v, certClient := some [1], challengeClient := some [1] }) = true ∧
    exact "Authentication.py" "make_request" "certificate_evaluation_id" (fun v => authMakeRequest { task := 4, certEvalId := some v, certData := some [1] }) = true := by decide +kernel

/-- the snapshot DID width accepted by the interpreters -/
theorem did_size_bound : bound "ReadDTCInformation.py" "interpret_response" "dtc_snapshot_did_size" = some (1, 8) := by decide

end Uds.Tie.Bounds
