import Uds.Spec.Names
import Uds.Generated.Names
import Uds.Generated.Tables
import Uds.Model.Tables
/-
  Tie for C20: the code's complete lookup graphs (regenerated from /repo) are the Spec graphs.
-/
namespace Uds.Tie.Names
open Uds Uds.Spec

/-- `DataIdentifier.name_from_id` over all of 0..0xFFFF is the ISO table (run-length form) -/
theorem did_graph : Generated.didGraph = didSegs := by decide +kernel

/-- `Routine.name_from_id` over all of 0..0xFFFF is the ISO table -/
theorem rid_graph : Generated.ridGraph = ridSegs := by decide +kernel

/-- every `DataIdentifier` constant's value maps to that constant's name (with the ISO
    'DataIdentifier' suffix where the standard's name carries it) -/
theorem did_consts : Generated.didConsts.all (fun c =>
    segLookup didSegs c.2 == some (c.1 ++ "DataIdentifier") || segLookup didSegs c.2 == some c.1) = true := by
  decide +kernel

theorem rid_consts : Generated.ridConsts.all (fun c => segLookup ridSegs c.2 == some c.1) = true := by
  decide +kernel

/-- every subfunction table's `get_name` over 0..255 is the Spec lookup on that table's own constants -/
theorem subfn_graphs :
    Generated.subfnGraphs = Generated.subfnTables.map (fun t => (List.range 256).map (subfnName t)) := by
  decide +kernel

/-- the sub-function constants a caller names (`ECUReset.ResetType.hardReset`, …) carry the values ISO 14229-1 assigns, and
    the lookup over the library's own tables answers every ISO value with the ISO name -/
theorem subfn_iso : isoTied Generated.subfnTables = true := by decide +kernel

/-- `Dtc.Format.get_name` over 0..255: first constant (name order) with that value, else None -/
theorem dtc_format_graph :
    Generated.dtcFormatGraph =
      (List.range 256).map (fun v => ((namesFor Generated.dtcFormatConsts v).head?).getD "<None>") := by
  decide +kernel

/-- the DTC format constants carry the ISO values (the code may define more) -/
theorem dtc_format_iso : isoDtcFormat.all (fun c => Generated.dtcFormatConsts.contains c) = true := by decide +kernel

/-- the functional group identifiers a caller names carry the ISO values (the code may define more) -/
theorem functional_group_iso : isoFunctionalGroup.all (fun c => Generated.functionalGroupConsts.contains c) = true := by decide +kernel

/-- `ResponseCode.get_name` over 0..255 (the Model table is tied in `Tie.Tables`) -/
theorem rc_graph : Generated.rcNameGraph = (List.range 256).map Model.rcName := by decide +kernel

end Uds.Tie.Names
