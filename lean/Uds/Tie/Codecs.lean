import Uds.Model.Codecs
import Uds.Generated.Codecs
/-
  Tie for C19 (and C14's ALFID): the helper codecs of /repo, as complete graphs extracted from the running
  code, equal the Model functions on their whole finite domains.
-/
namespace Uds.Tie.Codecs
open Uds Uds.Model

def bits (k i : Nat) : List Bool := (List.range k).map (fun j => i.testBit j)

def ok? {α : Type} (r : Py α) : Option α := match r with | .ok a => some a | .error _ => none

theorem status_from : Generated.statusFrom = (List.range 256).map (fun b => (Status.ofByte b).flags) := by decide +kernel
theorem status_to : Generated.statusTo = (List.range 256).map (fun i =>
    match bits 8 i with
    | [a, b, c, d, e, f, g, h] => (Status.mk a b c d e f g h).toByte
    | _ => 0) := by decide +kernel
theorem severity_from : Generated.severityFrom = (List.range 256).map (fun b => (Severity.ofByte b).flags) := by decide +kernel
theorem severity_to : Generated.severityTo = (List.range 8).map (fun i =>
    match bits 3 i with | [a, b, c] => (Severity.mk a b c).toByte | _ => 0) := by decide +kernel
theorem class_from : Generated.classFrom = (List.range 256).map (fun b => (DtcClass.ofByte b).flags) := by decide +kernel
theorem class_to : Generated.classTo = (List.range 32).map (fun i =>
    match bits 5 i with | [a, b, c, d, e] => (DtcClass.mk a b c d e).toByte | _ => 0) := by decide +kernel

theorem comm_from : Generated.commFrom = (List.range 256).map (fun b =>
    (ok? (CommType.fromByte b)).map (fun c => (c.subnet, c.normalMsg, c.networkManagementMsg))) := by decide +kernel

def intRange (lo : Int) (n : Nat) : List Int := (List.range n).map (fun i => lo + Int.ofNat i)

theorem comm_to : Generated.commTo = (intRange (-1) 19).flatMap (fun sn =>
    [false, true].flatMap (fun n => [false, true].map (fun m => (ok? (CommType.mk' sn n m)).map (·.toByte)))) := by
  decide +kernel

theorem dfi_from : Generated.dfiFrom = (List.range 256).map (fun b =>
    (ok? (Dfi.fromByte b)).map (fun d => (d.compression, d.encryption))) := by decide +kernel
theorem dfi_to : Generated.dfiTo = (intRange (-1) 19).flatMap (fun c =>
    (intRange (-1) 19).map (fun e => (ok? (Dfi.mk' c e)).map (·.toByte))) := by decide +kernel

theorem alfid_to : Generated.alfidTo = Generated.alfidProbe.flatMap (fun a =>
    Generated.alfidProbe.map (fun m => (ok? (Alfid.mk' a m)).map (·.toByte))) := by decide +kernel

theorem baud_map : Generated.baudMap = baudrateMap := by decide +kernel

def baudTypes : List (Option (Option BaudType)) :=
  [none, some (some .fixed), some (some .specific), some (some .identifier), some none]

theorem baud_graph : Generated.baudGraph =
    (Generated.baudProbe.flatMap (fun r => baudTypes.map (fun t =>
      (ok? (Baudrate.mk' (Int.ofNat r) t)).map (fun b =>
        (b.baudtype, ((ok? b.getBytes).getD []).map (·.toNat), ok? b.effective)))))
    ++ [(ok? (Baudrate.mk' (-1) none)).map (fun b => (b.baudtype, ((ok? b.getBytes).getD []).map (·.toNat), ok? b.effective))] := by
  decide +kernel

end Uds.Tie.Codecs
