import Uds.Model.Editions
import Uds.Generated.Editions
/-
  Tie for C18: the whole edition × feature matrix of /repo (extracted by running the code) equals the Model.
-/
namespace Uds.Tie.Editions
open Uds Uds.Model

def oc {α : Type} (r : Py α) : Nat :=
  match r with
  | .ok _ => 0 | .error .valueErr => 1 | .error .notImpl => 2 | .error .invalid => 3 | .error .config => 4 | .error _ => 9

def eds : List Nat := [2006, 2013, 2020]

theorem dtc_subfn_matrix : Generated.dtcSubfnMatrix =
    eds.map (fun v => (List.range 258).map (fun i => oc (checkSubfunctionValid (Int.ofNat i - 1) v))) := by decide +kernel

theorem cc_matrix : Generated.ccMatrix =
    eds.map (fun v => (List.range 0x80).flatMap (fun ct =>
      [oc (commControlMakeRequest v (Int.ofNat ct) 0x01 none), oc (commControlMakeRequest v (Int.ofNat ct) 0x01 (some 5))])) := by
  decide +kernel

theorem clear_matrix : Generated.clearMatrix =
    eds.map (fun v => [oc (clearDtcMakeRequest v 0x123456 none), oc (clearDtcMakeRequest v 0x123456 (some 0)),
                       oc (clearDtcMakeRequest v 0x123456 (some 255))]) := by decide +kernel

theorem dsc_matrix : Generated.dscMatrix =
    eds.map (fun v => (List.range 9).map (fun n => oc (dscInterpret v (if n = 0 then [] else 3 :: List.replicate (n - 1) 0)))) := by
  decide +kernel

theorem config_matrix : Generated.configMatrix =
    (Generated.configMatrix.map (·.1)).map (fun v =>
      (v, (initEdition v).isSome, (setEdition 2020 v).1, (setEdition 2020 v).2, (setEdition 2013 v).1, (setEdition 2013 v).2)) := by
  decide +kernel

end Uds.Tie.Editions
