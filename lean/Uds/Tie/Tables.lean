import Uds.Model.Tables
import Uds.Generated.Tables
/-
  Tie: the hand-written message-layer tables are what /repo defines today.  These are closed,
  finite statements; the kernel compares the code's own (extracted) data with the Model constants.
-/
namespace Uds.Tie.Tables

theorem services_eq : Uds.Generated.services = Uds.Model.services := by decide +kernel

theorem rcTable_eq : Uds.Generated.rcTable = Uds.Model.rcTable := by decide +kernel

/-- the complete graph of `ResponseCode.get_name` -/
theorem rcName_graph : (List.range 256).map Uds.Model.rcName = Uds.Generated.rcNameGraph := by decide +kernel

/-- the complete graph of `ResponseCode.is_negative` -/
theorem rcNeg_graph : (List.range 256).map Uds.Model.isNegative = Uds.Generated.rcNegGraph := by decide +kernel

end Uds.Tie.Tables
