import Uds.Model.Client
import Uds.Generated.CallGraph
/-
  Tie for C08 / C13: structure of client.py as found by an AST walk on every run.
-/
namespace Uds.Tie.CallGraph
open Uds Uds.Model

/-- a method that uses the object returned by another decorated method calls it undecorated, so that the
    callee's failures reach the caller's own decorator (`Props.C08.composite_ok`) -/
theorem uses_result_implies_undecorated :
    ∀ e ∈ Generated.callGraph, e.usesResult = true → e.undecorated = true := by decide +kernel

/-- every public entry point is either decorated itself or forwards, unchanged, the result of exactly
    one decorated method -/
theorem every_entry_is_managed :
    ∀ e ∈ Generated.clientEntries, e.2 = true ∨
      ((Generated.callGraph.filter (fun g => g.caller == e.1)).length = 1 ∧
       (Generated.callGraph.filter (fun g => g.caller == e.1)).all (fun g => !g.usesResult && !g.undecorated) = true) := by
  decide +kernel

/-- the seed/key composite calls both inner methods undecorated (C13) -/
theorem unlock_calls :
    Generated.callGraph.filter (fun g => g.caller == "unlock_security_access") =
      [⟨"unlock_security_access", "request_seed", true, true⟩, ⟨"unlock_security_access", "send_key", true, false⟩] := by
  decide +kernel

end Uds.Tie.CallGraph
