import Uds.Model.Encode
/-
  Reasoning vocabulary for the `Py` (= `Except PyErr`) monad: success of a `do` block as a first-order formula.
-/
namespace Uds
open Uds.Model

theorem bind_ok {α β : Type} (x : Py α) (f : α → Py β) (b : β) :
    (x >>= f) = .ok b ↔ ∃ a, x = .ok a ∧ f a = .ok b := by
  cases x with
  | error e => simp [bind, Except.bind]
  | ok a => simp [bind, Except.bind]

theorem bind_err {α β : Type} (x : Py α) (f : α → Py β) (e : PyErr) :
    (x >>= f) = .error e ↔ x = .error e ∨ ∃ a, x = .ok a ∧ f a = .error e := by
  cases x with
  | error e' => simp [bind, Except.bind]
  | ok a => simp [bind, Except.bind]

theorem map_ok {α β : Type} (x : Py α) (f : α → β) (b : β) :
    (f <$> x) = .ok b ↔ ∃ a, x = .ok a ∧ f a = b := by
  cases x with
  | error e => simp [Functor.map, Except.map]
  | ok a => simp [Functor.map, Except.map]

@[simp] theorem pure_ok {α : Type} (a b : α) : ((pure a : Py α) = .ok b) ↔ a = b := by
  simp [pure, Except.pure]

@[simp] theorem throw_ok {α : Type} (e : PyErr) (b : α) : ((throw e : Py α) = .ok b) ↔ False := by
  simp [throw, throwThe, MonadExceptOf.throw]

@[simp] theorem throw_err {α : Type} (e e' : PyErr) : ((throw e : Py α) = .error e') ↔ e = e' := by
  simp [throw, throwThe, MonadExceptOf.throw]

@[simp] theorem pure_err {α : Type} (a : α) (e : PyErr) : ((pure a : Py α) = .error e) ↔ False := by
  simp [pure, Except.pure]

/-- `if c then (raise …; rest') else rest` (the shape the `do` notation gives to `if c then throw e` followed by more statements) -/
theorem ite_throw_bind_ok {α β : Type} {c : Prop} [Decidable c] {e : PyErr} {f : α → Py β} {k : Py β} {b : β} :
    (if c then ((throw e : Py α) >>= f) else k) = .ok b ↔ ¬ c ∧ k = .ok b := by
  by_cases h : c <;> simp [h, bind, Except.bind, throw, throwThe, MonadExceptOf.throw]

theorem ite_throw_map_ok {α β : Type} {c : Prop} [Decidable c] {e : PyErr} {f : α → β} {k : Py β} {b : β} :
    (if c then (f <$> (throw e : Py α)) else k) = .ok b ↔ ¬ c ∧ k = .ok b := by
  by_cases h : c <;> simp [h, Functor.map, Except.map, throw, throwThe, MonadExceptOf.throw]

theorem ite_throw_ok' {β : Type} {c : Prop} [Decidable c] {e : PyErr} {k : Py β} {b : β} :
    (if c then (throw e : Py β) else k) = .ok b ↔ ¬ c ∧ k = .ok b := by
  by_cases h : c <;> simp [h, throw, throwThe, MonadExceptOf.throw]

theorem guardPy_ok {c : Bool} {e : PyErr} {u : Unit} : guardPy c e = .ok u ↔ c = false := by
  unfold guardPy; cases c <;> simp

theorem validateInt_ok {v lo hi : Int} {u : Unit} : validateInt v lo hi = .ok u ↔ (lo ≤ v ∧ v ≤ hi) := by
  unfold validateInt
  by_cases h : (v < lo || v > hi) = true
  · simp only [h, if_true]; simp at h; constructor
    · intro h'; simp at h'
    · intro h'; omega
  · simp only [h]; simp at h; constructor
    · intro _; omega
    · intro _; rfl

theorem validateInt_err {v lo hi : Int} (h : ¬ (lo ≤ v ∧ v ≤ hi)) : validateInt v lo hi = .error .valueErr := by
  unfold validateInt
  have : (v < lo || v > hi) = true := by simp; omega
  simp [this, throw, throwThe, MonadExceptOf.throw]

theorem needInt_ok {v : Option Int} {lo hi : Int} {n : Nat} (hlo : 0 ≤ lo) :
    needInt v lo hi = .ok n ↔ ∃ x, v = some x ∧ lo ≤ x ∧ x ≤ hi ∧ (n : Int) = x := by
  unfold needInt
  cases v with
  | none => simp
  | some x =>
    simp only [bind_ok, validateInt_ok, pure_ok]
    constructor
    · rintro ⟨_, ⟨h1, h2⟩, h3⟩; exact ⟨x, rfl, h1, h2, by omega⟩
    · rintro ⟨y, hy, h1, h2, h3⟩; cases hy; exact ⟨(), ⟨h1, h2⟩, by omega⟩

theorem packB_ok {n : Nat} {b : Bytes} : packB n = .ok b ↔ (n < 256 ∧ b = [UInt8.ofNat n]) := by
  unfold packB
  by_cases h : n < 256
  · simp [h]; exact eq_comm
  · simp [h]

end Uds
