import Uds.Lemmas.Py
import Uds.Model.DecodeDtc
/-
  `Safe x`: the computation `x` can only fail with one of the documented outcomes an interpretation may end in (`PyErr.ofReply`: invalid / unexpected
  response, configuration error, not implemented) - in particular never with a negative-response or timeout exception, which only `send_request` raises.  Combinators to prove it compositionally.
-/
namespace Uds
open Uds.Model

def Safe {α : Type} (x : Py α) : Prop := ∀ e, x = .error e → e.ofReply = true

theorem Safe.documented {α : Type} {x : Py α} (h : Safe x) (e : PyErr) (he : x = .error e) : e.documented = true :=
  PyErr.ofReply_documented (h e he)

theorem Safe.pure {α : Type} (a : α) : Safe (pure a : Py α) := by intro e h; simp at h
theorem Safe.ok {α : Type} (a : α) : Safe (.ok a : Py α) := by intro e h; cases h
theorem Safe.throw {α : Type} (e : PyErr) (h : e.ofReply = true) : Safe (throw e : Py α) := by
  intro e' h'; simp at h'; subst h'; exact h

theorem Safe.bind {α β : Type} {x : Py α} {f : α → Py β} (hx : Safe x) (hf : ∀ a, x = .ok a → Safe (f a)) : Safe (x >>= f) := by
  intro e h
  rw [bind_err] at h
  rcases h with h | ⟨a, ha, hb⟩
  · exact hx e h
  · exact hf a ha e hb

theorem Safe.ite {α : Type} {c : Prop} [Decidable c] {x y : Py α} (hx : c → Safe x) (hy : ¬ c → Safe y) : Safe (if c then x else y) := by
  split
  · exact hx ‹_›
  · exact hy ‹_›

theorem Safe.dite {α : Type} {c : Prop} [Decidable c] {x : c → Py α} {y : ¬ c → Py α} (hx : ∀ h, Safe (x h)) (hy : ∀ h, Safe (y h)) :
    Safe (if h : c then x h else y h) := by
  split
  · exact hx _
  · exact hy _

theorem Safe.guard (c : Bool) (e : PyErr) (h : e.ofReply = true) : Safe (guardPy c e) := by
  unfold guardPy; cases c
  · exact Safe.pure ()
  · exact Safe.throw e h

theorem Safe.idx {bs : Bytes} {i : Nat} (h : i < bs.length) : Safe (idx bs i) := by
  rw [idx_ok h]; exact Safe.ok _

theorem Safe.unpackBE {w : Nat} {bs : Bytes} (h : bs.length = w) : Safe (unpackBE w bs) := by
  unfold Uds.unpackBE; simp [h]; exact Safe.pure _

theorem guard_false {c : Bool} {e : PyErr} {u : Unit} (h : guardPy c e = .ok u) : c = false := guardPy_ok.1 h

theorem guard_lt {a b : Nat} {e : PyErr} {u : Unit} (h : guardPy (decide (a < b)) e = .ok u) : b ≤ a := by
  have := guardPy_ok.1 h; simp only [decide_eq_false_iff_not, Nat.not_lt] at this; exact this

theorem guard_gt {a b : Nat} {e : PyErr} {u : Unit} (h : guardPy (decide (a > b)) e = .ok u) : a ≤ b := by
  have := guardPy_ok.1 h; simp only [decide_eq_false_iff_not, Nat.not_lt, gt_iff_lt] at this; exact this

theorem Safe.map {α β : Type} {x : Py α} (f : α → β) (hx : Safe x) : Safe (f <$> x) := by
  intro e h
  cases x with
  | error e' => simp [Functor.map, Except.map] at h; subst h; exact hx e' rfl
  | ok a => simp [Functor.map, Except.map] at h

end Uds
