import Uds.Model.DidCodec
import Uds.Lemmas.Bytes
import Uds.Lemmas.Py
/-
  Helper lemmas about the struct / pack-string model (Uds/Model/DidCodec.lean).
-/
namespace Uds.Model
open Uds

theorem encInt_length (bo : ByteOrder) (w : Nat) (v : Int) : (encInt bo w v).length = w := by
  unfold encInt; simp only []; split <;> simp

theorem emod_toNat_lt (v : Int) (m : Nat) (hm : 0 < m) : (v % (m : Int)).toNat < m := by
  have h1 : 0 ≤ v % (m : Int) := Int.emod_nonneg _ (by omega)
  have h2 : v % (m : Int) < m := Int.emod_lt_of_pos _ (by omega)
  omega

theorem decInt_encInt (bo : ByteOrder) (s : Bool) (w : Nat) (v : Int) (h : inRange s w v = true) : decInt bo s w (encInt bo w v) = v := by
  have hm : 0 < 256 ^ w := Nat.pow_pos (by decide)
  generalize hM : 256 ^ w = m at hm
  have hfrom : fromBE (if bo == .big then encInt bo w v else (encInt bo w v).reverse) = (v % (m : Int)).toNat := by
    unfold encInt; simp only [hM]
    by_cases hb : (bo == ByteOrder.big) = true
    · simp only [hb, if_true]; exact fromBE_toBE_of_lt (by rw [hM]; exact emod_toNat_lt v m hm)
    · have hb' : (bo == ByteOrder.big) = false := by simpa using hb
      simp only [hb', Bool.false_eq_true, if_false, List.reverse_reverse]; exact fromBE_toBE_of_lt (by rw [hM]; exact emod_toNat_lt v m hm)
  unfold decInt; simp only [hM, hfrom]
  unfold inRange at h; simp only [hM] at h
  cases s with
  | false =>
    simp only [Bool.false_eq_true, if_false, decide_eq_true_eq] at h
    simp only [Bool.false_and, Bool.false_eq_true, if_false]
    rw [Int.emod_eq_of_lt h.1 h.2]; omega
  | true =>
    simp only [if_true, decide_eq_true_eq] at h
    by_cases hv : 0 ≤ v
    · have : v % (m : Int) = v := Int.emod_eq_of_lt hv (by omega)
      rw [this]
      have : ¬ (v.toNat ≥ m / 2) := by omega
      simp [this]; omega
    · have e1 : v % (m : Int) = (v + m) % (m : Int) := by rw [Int.add_emod_right]
      have e2 : (v + m) % (m : Int) = v + m := Int.emod_eq_of_lt (by omega) (by omega)
      rw [e1, e2]
      have : (v + (m : Int)).toNat ≥ m / 2 := by omega
      simp [this]; omega

theorem packFrom_spec (bo : ByteOrder) (ts : List Tok) (off : Nat) (vs : List Int) (b : Bytes) (h : packFrom bo ts off vs = .ok b) :
    off + b.length = calcsizeFrom bo ts off ∧ unpackFrom bo ts off b = vs := by
  induction ts generalizing off vs b with
  | nil =>
    cases vs with
    | nil => simp only [packFrom, pure_ok] at h; subst h; simp [calcsizeFrom, unpackFrom]
    | cons v vs => simp [packFrom] at h
  | cons t ts ih =>
    cases t with
    | pad =>
      simp only [packFrom, bind_ok, pure_ok] at h
      obtain ⟨r, hr, hb⟩ := h
      subst hb
      obtain ⟨h1, h2⟩ := ih (off + 1) vs r hr
      refine ⟨?_, ?_⟩
      · simp only [calcsizeFrom, List.length_cons]; omega
      · simp only [unpackFrom, List.drop_succ_cons, List.drop_zero]; exact h2
    | int s w =>
      cases vs with
      | nil => simp [packFrom] at h
      | cons v vs =>
        simp only [packFrom] at h
        by_cases hr : inRange s w v = true
        · simp only [hr, Bool.not_true, Bool.false_eq_true, if_false, bind_ok, pure_ok] at h
          obtain ⟨r, hrr, hb⟩ := h
          subst hb
          obtain ⟨h1, h2⟩ := ih _ vs r hrr
          have hz : (zeros (alignPad bo off w)).length = alignPad bo off w := by simp [zeros]
          refine ⟨?_, ?_⟩
          · simp only [calcsizeFrom, List.length_append, hz, encInt_length]; omega
          · simp only [unpackFrom]
            have d1 : (zeros (alignPad bo off w) ++ encInt bo w v ++ r).drop (alignPad bo off w) = encInt bo w v ++ r := by
              rw [List.append_assoc, List.drop_left' hz]
            have d2 : (encInt bo w v ++ r).take w = encInt bo w v := by
              rw [List.take_left' (encInt_length bo w v)]
            have d3 : (zeros (alignPad bo off w) ++ encInt bo w v ++ r).drop (alignPad bo off w + w) = r := by
              rw [List.drop_left' (by simp [hz, encInt_length])]
            rw [d1, d2, d3, decInt_encInt bo s w v hr, h2]
        · have hr' : inRange s w v = false := by simpa using hr
          simp [hr'] at h

theorem pack_unpack (f : PackFmt) (vs : List Int) (b : Bytes) (h : f.pack vs = .ok b) : f.unpack b = .ok vs ∧ b.length = f.size := by
  obtain ⟨h1, h2⟩ := packFrom_spec f.bo f.toks 0 vs b h
  have hl : b.length = f.size := by unfold PackFmt.size; omega
  exact ⟨by unfold PackFmt.unpack; rw [if_pos hl, h2]; rfl, hl⟩

theorem ascii_bytes (cs : List Nat) (h : cs.all (· < 128) = true) :
    (cs.map UInt8.ofNat).all (·.toNat < 128) = true ∧ (cs.map UInt8.ofNat).map (·.toNat) = cs := by
  induction cs with
  | nil => simp
  | cons c cs ih =>
    simp only [List.all_cons, Bool.and_eq_true, decide_eq_true_eq] at h
    obtain ⟨i1, i2⟩ := ih h.2
    have hc : (UInt8.ofNat c).toNat = c := toNat_ofNat_lt (by omega)
    refine ⟨?_, ?_⟩
    · simp only [List.map_cons, List.all_cons, hc, Bool.and_eq_true, decide_eq_true_eq]; exact ⟨h.1, i1⟩
    · simp only [List.map_cons, hc, i2]

/-- the values a format admits: as many integers as integer items, each inside the range of its item -/
def admits : List Tok → List Int → Bool
  | [], [] => true
  | [], _ :: _ => false
  | .pad :: ts, vs => admits ts vs
  | .int _ _ :: _, [] => false
  | .int s w :: ts, v :: vs => inRange s w v && admits ts vs

/-- encoding succeeds exactly on the values the format admits (out-of-range values are refused, never wrapped) -/
theorem packFrom_ok_iff (bo : ByteOrder) (ts : List Tok) (off : Nat) (vs : List Int) :
    (∃ b, packFrom bo ts off vs = .ok b) ↔ admits ts vs = true := by
  induction ts generalizing off vs with
  | nil =>
    cases vs with
    | nil => simp [packFrom, admits, pure, Except.pure]
    | cons v vs => simp [packFrom, admits]
  | cons t ts ih =>
    cases t with
    | pad =>
      simp only [admits]
      rw [← ih (off + 1) vs]
      simp only [packFrom, bind_ok, pure_ok]
      constructor
      · rintro ⟨b, r, hr, _⟩; exact ⟨r, hr⟩
      · rintro ⟨r, hr⟩; exact ⟨0 :: r, r, hr, rfl⟩
    | int s w =>
      cases vs with
      | nil => simp [packFrom, admits]
      | cons v vs =>
        simp only [admits, Bool.and_eq_true]
        rw [← ih (off + alignPad bo off w + w) vs]
        simp only [packFrom]
        by_cases hr : inRange s w v = true
        · simp only [hr, Bool.not_true, Bool.false_eq_true, if_false, bind_ok, pure_ok, true_and]
          constructor
          · rintro ⟨b, r, hrr, _⟩; exact ⟨r, hrr⟩
          · rintro ⟨r, hrr⟩; exact ⟨_, r, hrr, rfl⟩
        · have hr' : inRange s w v = false := by simpa using hr
          simp [hr']

end Uds.Model
