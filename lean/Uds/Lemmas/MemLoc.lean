import Uds.Lemmas.Bytes
import Uds.Model.MemLoc
import Uds.Spec.Mem
namespace Uds.Model
open Uds

theorem byteLen_zero : byteLen 0 = 0 := by rw [byteLen]; simp

theorem byteLen_pos {n : Nat} (h : n ≠ 0) : byteLen n = 1 + byteLen (n / 256) := by
  rw [byteLen]; simp [h]

/-- `byteLen n` is the number of base-256 digits of `n` -/
theorem byteLen_spec (n : Nat) : n < 256 ^ byteLen n ∧ (byteLen n = 0 ∨ 256 ^ (byteLen n - 1) ≤ n) := by
  induction n using Nat.strongRecOn with
  | _ n ih =>
    by_cases h : n = 0
    · subst h; simp [byteLen_zero]
    · rw [byteLen_pos h]
      have hlt : n / 256 < n := by omega
      obtain ⟨h1, h2⟩ := ih (n / 256) hlt
      constructor
      · rw [Nat.add_comm, Nat.pow_succ]; omega
      · right
        simp only [Nat.add_sub_cancel_left]
        rcases h2 with h2 | h2
        · rw [h2]; simp; omega
        · have : byteLen (n / 256) = (byteLen (n / 256) - 1) + 1 := by
            have : byteLen (n / 256) ≠ 0 := by
              intro h0; rw [h0] at h1; simp at h1; rw [h0] at h2; simp at h2; omega
            omega
          rw [this, Nat.pow_succ]; omega

theorem byteLen_le_of_lt {n k : Nat} (h : n < 256 ^ k) : byteLen n ≤ k := by
  rcases (byteLen_spec n).2 with h0 | h1
  · omega
  · by_cases hk : byteLen n ≤ k
    · exact hk
    · exfalso
      have : k ≤ byteLen n - 1 := by omega
      have := Nat.pow_le_pow_right (n := 256) (by omega) this
      omega

theorem fieldBytes_ok_iff (v : Int) (bits : Nat) (bs : Bytes) :
    fieldBytes v bits = .ok bs ↔ (0 ≤ v ∧ v.toNat < 256 ^ (bits / 8) ∧ bs = toBE (bits / 8) v.toNat) := by
  unfold fieldBytes
  by_cases h0 : v < 0
  · rw [if_pos h0]; constructor
    · intro h; cases h
    · intro h; omega
  · rw [if_neg h0]
    by_cases h1 : v.toNat ≥ 256 ^ (bits / 8)
    · rw [if_pos h1]; constructor
      · intro h; cases h
      · intro h; omega
    · rw [if_neg h1]; constructor
      · intro h; cases h; exact ⟨by omega, by omega, rfl⟩
      · intro h; rw [h.2.2]; rfl

theorem fieldBytes_length {v : Int} {bits : Nat} {bs : Bytes} (h : fieldBytes v bits = .ok bs) : bs.length = bits / 8 := by
  rw [fieldBytes_ok_iff] at h; rw [h.2.2]; simp

theorem fieldBytes_value {v : Int} {bits : Nat} {bs : Bytes} (h : fieldBytes v bits = .ok bs) : (fromBE bs : Int) = v := by
  rw [fieldBytes_ok_iff] at h
  rw [h.2.2, fromBE_toBE_of_lt h.2.1]; omega

end Uds.Model
