import Uds.Basic
namespace Uds

@[simp] theorem toNat_ofNat_lt {n : Nat} (h : n < 256) : (UInt8.ofNat n).toNat = n := by
  simp [UInt8.toNat_ofNat']; omega

theorem fromBE_append (xs : Bytes) (b : UInt8) : fromBE (xs ++ [b]) = fromBE xs * 256 + b.toNat := by
  simp [fromBE, List.foldl_append]

@[simp] theorem toBE_length (w n : Nat) : (toBE w n).length = w := by
  induction w generalizing n with
  | zero => simp [toBE]
  | succ w ih => simp [toBE, ih]

theorem fromBE_toBE (w n : Nat) : fromBE (toBE w n) = n % 256 ^ w := by
  induction w generalizing n with
  | zero => simp [toBE, fromBE, Nat.mod_one]
  | succ w ih =>
    rw [toBE, fromBE_append, ih]
    have h : (UInt8.ofNat (n % 256)).toNat = n % 256 := by
      simp [UInt8.toNat_ofNat']
    rw [h, Nat.pow_succ]
    have := Nat.mod_mul_right_div_self n 256 (256^w)
    rw [Nat.mul_comm (256^w) 256, Nat.mod_mul]
    omega

theorem fromBE_toBE_of_lt {w n : Nat} (h : n < 256 ^ w) : fromBE (toBE w n) = n := by
  rw [fromBE_toBE, Nat.mod_eq_of_lt h]

theorem rev_ind {P : Bytes → Prop} (h0 : P []) (hs : ∀ xs b, P xs → P (xs ++ [b])) : ∀ l, P l := by
  intro l
  have : ∀ r : Bytes, P r.reverse := by
    intro r
    induction r with
    | nil => simpa
    | cons a r ih => simpa using hs _ a ih
  simpa using this l.reverse

theorem fromBE_lt (bs : Bytes) : fromBE bs < 256 ^ bs.length := by
  induction bs using rev_ind with
  | h0 => simp [fromBE]
  | hs xs b ih =>
    rw [fromBE_append]; simp [Nat.pow_succ]
    have := b.toNat_lt
    omega

theorem toBE_fromBE (bs : Bytes) : toBE bs.length (fromBE bs) = bs := by
  induction bs using rev_ind with
  | h0 => simp [toBE]
  | hs xs b ih =>
    rw [fromBE_append]; simp only [List.length_append, List.length_cons, List.length_nil, Nat.zero_add]
    rw [toBE]
    have hb := b.toNat_lt
    have h1 : (fromBE xs * 256 + b.toNat) / 256 = fromBE xs := by omega
    have h2 : (fromBE xs * 256 + b.toNat) % 256 = b.toNat := by omega
    rw [h1, h2, ih]; simp

theorem and_ff (x : Nat) : x &&& 0xFF = x % 256 := by
  simpa using Nat.and_two_pow_sub_one_eq_mod x 8

theorem and_7f (x : Nat) : x &&& 0x7F = x % 128 := by
  simpa using Nat.and_two_pow_sub_one_eq_mod x 7

end Uds
