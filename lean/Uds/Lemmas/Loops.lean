import Uds.Lemmas.Py
import Uds.Lemmas.Bytes
import Uds.Spec.Response
/-
  Lemmas about the record loops of the response interpreters: one encoded record in front of any tail is consumed and
  decoded (prefix lemmas), and what the loops do on a tail of zero bytes (padding lemmas).
-/
namespace Uds
open Uds.Model Uds.Spec

theorem allZero_zeros (n : Nat) : allZero (zeros n) = true := by simp [allZero, zeros]

theorem zeros_length (n : Nat) : (zeros n).length = n := by simp [zeros]

theorem zeros_take (n k : Nat) : (zeros n).take k = zeros (min k n) := by simp [zeros, List.take_replicate]

theorem zeros_drop (n k : Nat) : (zeros n).drop k = zeros (n - k) := by simp [zeros, List.drop_replicate]

theorem allZero_append (a b : Bytes) : allZero (a ++ b) = (allZero a && allZero b) := by simp [allZero]

/-! ### 4- and 6-byte DTC records (ReadDTCInformation, availability-mask groups) -/

def recSize (six : Bool) : Nat := if six then 6 else 4

/-- a record as the parser produces it (the other fields of the object keep their defaults) -/
def RecOk (six : Bool) (r : DtcRec) : Prop :=
  r.id < 2 ^ 24 ∧ r.status < 256 ∧ r.fault = none ∧ r.snaps = [] ∧ r.ext = [] ∧
  (if six then (∃ f, r.funit = some f ∧ f < 256) ∧ r.severity < 256 ∧ (Severity.ofByte r.severity).toByte = r.severity
   else r.funit = none ∧ r.severity = 0)

theorem toBE3_length (n : Nat) : (toBE 3 n).length = 3 := by simp

theorem encRec_length (six : Bool) (r : DtcRec) : (encRec six r).length = recSize six := by
  cases six <;> simp [encRec, encRec4, encRec6, recSize]

theorem be3_toBE (n : Nat) (rest : Bytes) (h : n < 2 ^ 24) : be3 (toBE 3 n ++ rest) = n := by
  unfold be3
  rw [List.take_append_of_le_length (by simp), List.take_of_length_le (by simp)]
  exact fromBE_toBE_of_lt (by simpa using h)

theorem mkRec_enc (six : Bool) (r : DtcRec) (h : RecOk six r) : mkRec six (encRec six r) = .ok r := by
  obtain ⟨hid, hst, hf, hs, he, hx⟩ := h
  cases six
  · simp only [Bool.false_eq_true, if_false] at hx
    obtain ⟨hfu, hsev⟩ := hx
    have hi : idx (toBE 3 r.id ++ [UInt8.ofNat r.status]) 3 = .ok (UInt8.ofNat r.status) := by
      simp [idx, pure, Except.pure]
    simp only [mkRec, Bool.false_eq_true, if_false, mkRec4, encRec, encRec4, hi, bind, Except.bind, pure, Except.pure, be3_toBE _ _ hid,
      toNat_ofNat_lt hst]
    cases r; simp_all
  · simp only [if_true] at hx
    obtain ⟨⟨f, hfu, hf256⟩, hsev, hnorm⟩ := hx
    have h0 : idx ([UInt8.ofNat r.severity, UInt8.ofNat (r.funit.getD 0)] ++ toBE 3 r.id ++ [UInt8.ofNat r.status]) 0 = .ok (UInt8.ofNat r.severity) := by
      simp [idx, pure, Except.pure]
    have h1 : idx ([UInt8.ofNat r.severity, UInt8.ofNat (r.funit.getD 0)] ++ toBE 3 r.id ++ [UInt8.ofNat r.status]) 1 = .ok (UInt8.ofNat (r.funit.getD 0)) := by
      simp [idx, pure, Except.pure]
    have h5 : idx ([UInt8.ofNat r.severity, UInt8.ofNat (r.funit.getD 0)] ++ toBE 3 r.id ++ [UInt8.ofNat r.status]) 5 = .ok (UInt8.ofNat r.status) := by
      simp [idx, pure, Except.pure]
    have hd : be3 (([UInt8.ofNat r.severity, UInt8.ofNat (r.funit.getD 0)] ++ toBE 3 r.id ++ [UInt8.ofNat r.status]).drop 2) = r.id := by
      simp only [List.cons_append, List.nil_append, List.append_assoc, List.drop_succ_cons, List.drop_zero]
      exact be3_toBE _ _ hid
    simp only [mkRec, if_true, mkRec6, encRec, encRec6, h0, h1, h5, hd, bind, Except.bind, pure, Except.pure, toNat_ofNat_lt hst, toNat_ofNat_lt hsev,
      hfu, Option.getD_some, toNat_ofNat_lt hf256, hnorm]
    cases r; simp_all [Nat.mod_eq_of_lt hsev]

/-- one encoded record in front of any tail is decoded and the loop continues on the tail -/
theorem recordLoop_cons (tol ign six sf09 first : Bool) (r : DtcRec) (tail : Bytes) (acc : List DtcRec) (hr : RecOk six r)
    (hnz : (allZero (encRec six r) && ign) = false) :
    recordLoop tol ign six sf09 first (encRec six r ++ tail) acc = recordLoop tol ign six sf09 false tail (r :: acc) := by
  rw [recordLoop]
  have hl := encRec_length six r
  have hsz : (if six = true then 6 else 4) = recSize six := rfl
  have h0 : ¬ (encRec six r ++ tail).length = 0 := by simp [hl, recSize]; split <;> omega
  have h1 : ¬ (encRec six r ++ tail).length < (if six = true then 6 else 4) := by simp [hl, hsz]
  have ht : (encRec six r ++ tail).take (if six = true then 6 else 4) = encRec six r := by
    rw [hsz, List.take_append_of_le_length (by omega), List.take_of_length_le (by omega)]
  have hdp : (encRec six r ++ tail).drop (if six = true then 6 else 4) = tail := by
    rw [hsz, List.drop_append_of_le_length (by omega), List.drop_of_length_le (by omega)]; simp
  simp only [dif_neg h0, dif_neg h1, ht, hdp, hnz, Bool.false_eq_true, if_false, mkRec_enc six r hr, bind, Except.bind]

def recNonZero (six ign : Bool) (r : DtcRec) : Prop := (allZero (encRec six r) && ign) = false

theorem recordLoop_prefix (tol ign six sf09 first : Bool) (rs : List DtcRec) (tail : Bytes) (acc : List DtcRec)
    (hr : ∀ r ∈ rs, RecOk six r ∧ recNonZero six ign r) :
    recordLoop tol ign six sf09 first (encRecs six rs ++ tail) acc =
      recordLoop tol ign six sf09 (first && rs.isEmpty) tail (rs.reverse ++ acc) := by
  induction rs generalizing first acc with
  | nil => simp [encRecs]
  | cons r rest ih =>
    simp only [encRecs, List.append_assoc]
    rw [recordLoop_cons _ _ _ _ _ _ _ _ (hr r (by simp)).1 (hr r (by simp)).2]
    rw [ih false (r :: acc) (fun x hx => hr x (by simp [hx]))]
    simp

theorem recordLoop_nil (tol ign six sf09 first : Bool) (acc : List DtcRec) : recordLoop tol ign six sf09 first [] acc = .ok acc.reverse := by
  rw [recordLoop]; simp

/-- the record the parser builds from `recSize` zero bytes -/
def zeroRec (six : Bool) : DtcRec := if six then { id := 0, funit := some 0 } else { id := 0 }

theorem mkRec_zeros (six : Bool) : mkRec six (zeros (recSize six)) = .ok (zeroRec six) := by
  cases six <;> decide

/-- **zero padding, tolerated**: a tail of `n` zero bytes ends the loop; with `ignore_all_zero_dtc` off every whole all-zero record
    in it is a record (DTC 0), the remaining partial record is dropped -/
theorem recordLoop_zeros (ign six sf09 first : Bool) (n : Nat) (acc : List DtcRec) :
    recordLoop true ign six sf09 first (zeros n) acc =
      .ok (acc.reverse ++ (if ign then [] else List.replicate (n / recSize six) (zeroRec six))) := by
  induction n using Nat.strongRecOn generalizing acc first with
  | _ n ih =>
    rw [recordLoop]
    have hsz : (if six = true then 6 else 4) = recSize six := rfl
    have hpos : 0 < recSize six := by unfold recSize; split <;> omega
    by_cases h0 : n = 0
    · subst h0
      simp [zeros_length, Nat.zero_div]
    · have h0' : ¬ (zeros n).length = 0 := by simpa [zeros_length] using h0
      rw [dif_neg h0']
      by_cases h1 : n < recSize six
      · have h1' : (zeros n).length < (if six = true then 6 else 4) := by simpa [zeros_length, hsz] using h1
        rw [dif_pos h1']
        simp [allZero_zeros, Nat.div_eq_of_lt h1]
      · have h1' : ¬ (zeros n).length < (if six = true then 6 else 4) := by simpa [zeros_length, hsz] using h1
        rw [dif_neg h1']
        simp only [hsz, zeros_take, zeros_drop, Nat.min_eq_left (Nat.le_of_not_lt h1), allZero_zeros, Bool.true_and]
        have hdiv : n / recSize six = (n - recSize six) / recSize six + 1 := by
          rw [← Nat.sub_add_cancel (Nat.le_of_not_lt h1), Nat.add_div_right _ hpos]; simp
        cases ign
        · simp only [Bool.false_eq_true, if_false, mkRec_zeros, bind, Except.bind]
          rw [ih (n - recSize six) (by omega)]
          simp only [Bool.false_eq_true, if_false, List.reverse_cons, List.append_assoc, List.singleton_append, hdiv, List.replicate_succ]
        · simp only [if_true]
          rw [ih (n - recSize six) (by omega)]
          simp

/-- **zero padding, not tolerated**: trailing bytes that do not form whole records are an invalid response -/
theorem recordLoop_zeros_rejected (ign six first : Bool) (n : Nat) (acc : List DtcRec) (hn : n % recSize six ≠ 0) :
    recordLoop false ign six false first (zeros n) acc = .error .invalid := by
  induction n using Nat.strongRecOn generalizing acc first with
  | _ n ih =>
    rw [recordLoop]
    have hsz : (if six = true then 6 else 4) = recSize six := rfl
    have hpos : 0 < recSize six := by unfold recSize; split <;> omega
    have h0 : n ≠ 0 := by intro h; subst h; simp at hn
    have h0' : ¬ (zeros n).length = 0 := by simpa [zeros_length] using h0
    rw [dif_neg h0']
    by_cases h1 : n < recSize six
    · have h1' : (zeros n).length < (if six = true then 6 else 4) := by simpa [zeros_length, hsz] using h1
      rw [dif_pos h1']; simp
    · have h1' : ¬ (zeros n).length < (if six = true then 6 else 4) := by simpa [zeros_length, hsz] using h1
      rw [dif_neg h1']
      simp only [hsz, zeros_take, zeros_drop, Nat.min_eq_left (Nat.le_of_not_lt h1), allZero_zeros, Bool.true_and]
      have hmod : (n - recSize six) % recSize six ≠ 0 := by
        rw [← Nat.sub_add_cancel (Nat.le_of_not_lt h1), Nat.add_mod_right] at hn; exact hn
      cases ign
      · simp only [Bool.false_eq_true, if_false, mkRec_zeros, bind, Except.bind]
        exact ih (n - recSize six) (by omega) _ _ hmod
      · simp only [if_true]
        exact ih (n - recSize six) (by omega) _ _ hmod

end Uds
