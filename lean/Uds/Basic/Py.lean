import Uds.Basic.Bytes
/-
  Python-faithful failure vocabulary.  The model never defaults a failure: every way the Python code
  can stop is a constructor here.  `documented` are the outcomes the library documents.
-/
namespace Uds

inductive PyErr where
  | negative (code : Nat)      -- NegativeResponseException (code of the response)
  | invalid                    -- InvalidResponseException
  | unexpected                 -- UnexpectedResponseException
  | timeout                    -- TimeoutException
  | config                     -- ConfigError
  | notImpl                    -- NotImplementedError (documented for fields wider than 64 bits)
  | valueErr | indexErr | structErr | attrErr | keyErr | overflowErr | typeErr | assertErr
  | runtimeErr | other
  deriving DecidableEq, Repr, Inhabited

abbrev Py := Except PyErr

instance {ε α : Type} [DecidableEq ε] [DecidableEq α] : DecidableEq (Except ε α)
  | .ok a, .ok b => if h : a = b then isTrue (by rw [h]) else isFalse (by intro h'; cases h'; exact h rfl)
  | .error a, .error b => if h : a = b then isTrue (by rw [h]) else isFalse (by intro h'; cases h'; exact h rfl)
  | .ok _, .error _ => isFalse (by intro h; cases h)
  | .error _, .ok _ => isFalse (by intro h; cases h)

def PyErr.documented : PyErr → Bool
  | .negative _ | .invalid | .unexpected | .timeout | .config | .notImpl => true
  | _ => false

/-- the failures the interpretation of a reply (interpret_response + the client's checks) may end in: the documented ones that are not
    produced by `send_request` itself (a negative response, a timeout) -/
def PyErr.ofReply : PyErr → Bool
  | .invalid | .unexpected | .config | .notImpl => true
  | _ => false

theorem PyErr.ofReply_documented {e : PyErr} (h : e.ofReply = true) : e.documented = true := by
  cases e <;> simp_all [PyErr.ofReply, PyErr.documented]

theorem PyErr.ofReply_not_negative {e : PyErr} (h : e.ofReply = true) : (∀ c, e ≠ .negative c) ∧ e ≠ .timeout := by
  cases e <;> simp_all [PyErr.ofReply]

def PyErr.tag : PyErr → String
  | .negative c => s!"negative:{c}"
  | .invalid => "invalid" | .unexpected => "unexpected" | .timeout => "timeout"
  | .config => "config" | .notImpl => "notimpl" | .valueErr => "ValueError"
  | .indexErr => "IndexError" | .structErr => "struct.error" | .attrErr => "AttributeError"
  | .keyErr => "KeyError" | .overflowErr => "OverflowError" | .typeErr => "TypeError"
  | .assertErr => "AssertionError" | .runtimeErr => "RuntimeError" | .other => "other"

/-- `if cond: raise e` as one statement of a `do` block -/
def guardPy (cond : Bool) (e : PyErr) : Py Unit := if cond then throw e else pure ()

/-- Python `bs[i]` for `i ≥ 0`. -/
def idx (bs : Bytes) (i : Nat) : Py UInt8 :=
  match bs[i]? with
  | some b => pure b
  | none => throw .indexErr

theorem idx_ok {bs : Bytes} {i : Nat} (h : i < bs.length) : idx bs i = .ok bs[i] := by
  simp [idx, h, pure, Except.pure]

/-- `struct.unpack` of a fixed format needing exactly `w` bytes. -/
def unpackBE (w : Nat) (bs : Bytes) : Py Nat :=
  if bs.length = w then pure (fromBE bs) else throw .structErr

end Uds
