/-
  Basic byte-level vocabulary shared by Model and Spec (core Lean only).
-/
namespace Uds

abbrev Bytes := List UInt8

/-- big-endian encoding of `n` on exactly `w` bytes (value taken modulo `256^w`, as `int.to_bytes`
    would refuse — callers guard). -/
def toBE : Nat → Nat → Bytes
  | 0, _ => []
  | w+1, n => toBE w (n / 256) ++ [UInt8.ofNat (n % 256)]

/-- big-endian decoding (Python `int.from_bytes(bs, 'big')`). -/
def fromBE (bs : Bytes) : Nat := bs.foldl (fun acc b => acc * 256 + b.toNat) 0

def allZero (bs : Bytes) : Bool := bs.all (· == 0)

def zeros (n : Nat) : Bytes := List.replicate n 0

/-- Python slice `bs[a:b]` for non-negative a, b. -/
def slice (bs : Bytes) (a b : Nat) : Bytes := (bs.take b).drop a

/-- Python `bs[-n:]` for `n > 0` (`bs[-0:]` is the whole string, handled by callers). -/
def takeRight (bs : Bytes) (n : Nat) : Bytes := bs.drop (bs.length - n)

def hexDigit (n : Nat) : Char :=
  if n < 10 then Char.ofNat (48 + n) else Char.ofNat (87 + n)

def hexByte (b : UInt8) : String :=
  String.ofList [hexDigit (b.toNat / 16), hexDigit (b.toNat % 16)]

def hex (bs : Bytes) : String := String.join (bs.map hexByte)

def unhexDigit (c : Char) : Option Nat :=
  if '0' ≤ c ∧ c ≤ '9' then some (c.toNat - 48)
  else if 'a' ≤ c ∧ c ≤ 'f' then some (c.toNat - 87)
  else if 'A' ≤ c ∧ c ≤ 'F' then some (c.toNat - 55)
  else none

def unhexList : List Char → Option Bytes
  | [] => some []
  | [_] => none
  | a :: b :: rest => do
    let x ← unhexDigit a
    let y ← unhexDigit b
    let tl ← unhexList rest
    pure (UInt8.ofNat (x * 16 + y) :: tl)

/-- `-` stands for the empty string on the wire protocol. -/
def unhex (s : String) : Option Bytes :=
  if s == "-" then some [] else unhexList s.toList

end Uds
