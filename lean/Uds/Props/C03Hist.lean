import Uds.Props.C03
import Uds.Props.C09Hist
/-
  C03 over arbitrary histories: whatever a client has been through, a response is handed to the caller only if it answers the frame that call transmitted.
-/
namespace Uds.Props.C03
open Uds Uds.Model

/-- **accepts_only_answers_after_any_history**: after any history whose block operations, folded alone, leave no payload override open, a call returns a
    response only if that response arrived during this very call (stray frames of the history are no candidates), is a valid positive response of the
    service whose request identifier leads the frame the call transmitted, and repeats in its echoes the corresponding bytes of that frame -/
theorem accepts_only_answers_after_any_history (s : HState) (ops : List HOp) (e : Entry) (arr : List Frame) (resp : Response)
    (hfold : (ops.foldl C09.blockFold (s.cs.spr, s.cs.override)).2 = none)
    (h : (callInner (hrun s ops).1.cfg (hrun s ops).1.cs e arr).inner = .ret (some resp)) :
    ∃ p rest sv, (hstep (hrun s ops).1 (.call e arr)).2.log = .flush :: .send p :: rest ∧
      p[0]? = some (UInt8.ofNat sv.sid) ∧ resp.service = some sv ∧ resp.positive = true ∧ resp.valid = true ∧
      (∃ f ∈ arr, resp = Response.fromPayload f.payload) ∧ EchoOk e p resp.data := by
  have hov : (hrun s ops).1.cs.override = none := by
    have := congrArg Prod.snd (C09.hrun_flags s ops); simp only at this; rw [this]; exact hfold
  obtain ⟨p, rest, sv, h1, h2⟩ := call_accepts_only_answers _ _ e arr resp hov h
  exact ⟨p, rest, sv, by simp only [hstep]; exact h1, h2⟩

/-! non-vacuity: a stale `51 01` sits in the queue, an override block was left by a failed call; the later ecu_reset(1) accepts the `51 01` that arrives during the call -/
example : (callInner (hrun { cfg := { send := ⟨some 2000, 100, 300, false⟩ } }
      [.enterOvr (.const [0x11, 0x03]), .call (.ecuReset 1) [⟨1, [0x7F, 0x11, 0x22]⟩], .exitOvr, .stray [0x51, 0x01]]).1.cfg
      (hrun { cfg := { send := ⟨some 2000, 100, 300, false⟩ } }
      [.enterOvr (.const [0x11, 0x03]), .call (.ecuReset 1) [⟨1, [0x7F, 0x11, 0x22]⟩], .exitOvr, .stray [0x51, 0x01]]).1.cs
      (.ecuReset 1) [⟨7, [0x51, 0x01]⟩]).inner = .ret (some (Response.fromPayload [0x51, 0x01])) := by decide +kernel

end Uds.Props.C03
