import Uds.Props.C06
import Uds.Props.C02Call
/-
  C06 at call level, for every client method built on `callWith` (every service family): whatever the method would do with a positive reply, a
  negative-response frame of the request's service with any code other than 0x78 — after any number of in-time response-pending replies — ends the
  call with the negative outcome carrying exactly that code; also inside a suppress-positive-response block that waits for an NRC.
-/
namespace Uds.Props.C06
open Uds Uds.Model Uds.Props.C05 Uds.Props.C02

/-- a request that has a payload also has one with the suppress bit when its service has a sub-function -/
theorem payload_suppressed_exists (req : Request) (svc : Service) (p0 : Bytes) (hsvc : req.service = some svc) (hu : svc.useSubfn = true)
    (hp0 : req.getPayload none = .ok p0) : ∃ p1, req.getPayload (some true) = .ok p1 := by
  unfold Request.getPayload at hp0 ⊢
  simp only [hsvc, hu, if_true] at hp0 ⊢
  cases hsf : req.subfunction with
  | none => simp [hsf] at hp0
  | some sf0 =>
    simp only [hsf, bind_ok, packB_ok, pure_ok] at hp0 ⊢
    obtain ⟨a, ⟨h1, rfl⟩, b, ⟨h2, rfl⟩, rfl⟩ := hp0
    have hsf0 : sf0 < 256 := by
      by_cases hspr : req.spr = true
      · simp only [hspr, if_true] at h2
        have : sf0 ≤ setBit7 sf0 := by unfold setBit7; exact Nat.left_le_or
        omega
      · simpa [hspr] using h2
    have hset : setBit7 sf0 < 256 := by unfold setBit7; exact Nat.or_lt_two_pow (n := 8) (by omega) (by decide)
    exact ⟨_, _, ⟨h1, rfl⟩, _, ⟨hset, rfl⟩, rfl⟩

/-- **any client method, any negative response code**: if the client reads replies at all (no suppress block, or one that waits for an NRC), then after
    `pend` in-time response-pending replies the frame `7F sid c …` with `c ≠ 0x78` makes the call raise the negative-response outcome with code `c`,
    whatever the method's own interpretation is and whatever arrives afterwards -/
theorem callWith_negative {α : Type} (cfg : SendCfg) (st : ClientState) (req : Request) (post : Bytes → Py α) (svc : Service) (p0 : Bytes)
    (pend : List Frame) (c : UInt8) (tail : Bytes) (tfin : Nat) (extra : List Frame)
    (hsvc : req.service = some svc) (hs : svc ∈ services) (hp0 : req.getPayload none = .ok p0) (hreqspr : req.spr = false)
    (hreads : st.spr.enabled = false ∨ st.spr.waitNrc = true)
    (hc : c ≠ 0x78) (hp : ∀ f ∈ pend, ∃ t, f.payload = nrcFrame svc 0x78 t)
    (ht : Spec.InTime cfg.requestTimeout (p2starEff cfg st) 0 (firstSingle cfg st) (pend.map (·.arrival)) tfin) :
    callWith cfg st req post (pend ++ ⟨tfin, nrcFrame svc c tail⟩ :: extra) = .exc (.negative c.toNat) := by
  have hloop : ∀ spr, (waitLoop cfg.requestTimeout (p2starEff cfg st) cfg.hasCallback (svc.sid + 0x40) spr 0 (firstSingle cfg st) false
      (pend ++ ⟨tfin, nrcFrame svc c tail⟩ :: extra)).outcome = .raised (.negative c.toNat)
        (some { service := some svc, positive := false, code := some c.toNat, codeName := rcName c.toNat, valid := true, reason := "", data := tail }) none :=
    fun spr => (nrc_surfaces svc hs c hc tail cfg.requestTimeout (p2starEff cfg st) cfg.hasCallback spr pend hp tfin extra 0 (firstSingle cfg st) false
      (by intro h; cases h) ht).1
  unfold firstSingle at hloop
  unfold callWith sendRequest
  simp only [hsvc, hreqspr, Bool.false_or]
  by_cases hen : st.spr.enabled = true
  · have hw : st.spr.waitNrc = true := by rcases hreads with h | h; · rw [hen] at h; cases h
                                          · exact h
    by_cases hu : svc.useSubfn = true
    · obtain ⟨p1, hp1⟩ := payload_suppressed_exists req svc p0 hsvc hu hp0
      simp only [hen, hu, hw, Bool.and_self, if_true, hp1, Bool.not_true, Bool.and_false, Bool.false_eq_true, if_false]
      cases hrt : cfg.requestTimeout <;> simp only [hrt] at hloop ⊢ <;> rw [hloop true]
    · simp only [hen, hu, hw, Bool.true_and, Bool.and_self, Bool.false_eq_true, if_false, hp0, Bool.and_false, Bool.false_and]
      cases hrt : cfg.requestTimeout <;> simp only [hrt] at hloop ⊢ <;> rw [hloop false]
  · have hen' : st.spr.enabled = false := by simpa using hen
    simp only [hen', Bool.false_and, Bool.false_eq_true, if_false, hp0]
    cases hrt : cfg.requestTimeout <;> simp only [hrt] at hloop ⊢ <;> rw [hloop false]

/-! ### non-vacuity: two pending replies, then NRC 0x00 (a code without a name) inside a suppress block that waits for an NRC -/
example : callWith ⟨some 2000, 50, 500, true⟩ { spr := ⟨true, true⟩ } (mkReq "ECUReset" (some 1) none) (fun d => echoPost 1 d)
    [⟨40, [0x7F, 0x11, 0x78]⟩, ⟨500, [0x7F, 0x11, 0x78, 0xAA]⟩, ⟨900, [0x7F, 0x11, 0x00]⟩, ⟨901, [0x51, 0x01]⟩]
    = .exc (.negative 0) := by decide +kernel

end Uds.Props.C06
