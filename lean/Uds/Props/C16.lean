import Uds.Model.Conn
/-
  C16 — connections deliver exactly the peer's frames, in order, once; honest timeouts.
  Invariants over arbitrary action sequences (= all interleavings of peer, receiver thread and consumer).
-/
namespace Uds.Props.C16
open Uds Uds.Model.Conn

/-- message-preserving sockets: what was taken out of the queue, what is in it, and what the kernel still holds
    (cut to `bufsize` as `recv` will cut it) is exactly what the peer sent, in order -/
def MsgInv (s : Sock) : Prop :=
  s.taken.map (·.1) ++ s.rxq ++ s.osbuf.map (·.take s.bufsize) = s.sent.map (·.take s.bufsize)

/-- byte-stream sockets: the same on the concatenated bytes -/
def StreamInv (s : Sock) : Prop :=
  flat (s.taken.map (·.1)) ++ flat s.rxq ++ flat s.osbuf = flat s.sent

def init (k : Kind) (bufsize : Nat) : Sock := { kind := k, bufsize := bufsize }

theorem init_msg (k : Kind) (b : Nat) : MsgInv (init k b) := by simp [MsgInv, init]
theorem init_stream (k : Kind) (b : Nat) : StreamInv (init k b) := by simp [StreamInv, init, flat]

theorem step_kind (s : Sock) (a : Act) : (step s a).1.kind = s.kind ∧ (step s a).1.bufsize = s.bufsize := by
  cases a <;> simp only [step, rxBody] <;> (repeat' split) <;> simp

theorem rxBody_msg (s : Sock) (k : Nat) (hk : s.kind ≠ .stream) (h : MsgInv s) : MsgInv (rxBody s k) := by
  unfold rxBody recv
  cases hkind : s.kind with
  | stream => exact absurd hkind hk
  | seqpacket =>
    simp only
    cases hb : s.osbuf with
    | nil =>
      simp only [MsgInv] at h ⊢; rw [hb] at h
      cases s.peerClosed <;> simpa [hb] using h
    | cons m rest =>
      simp only [MsgInv] at h ⊢; rw [hb] at h
      split
      · simpa [hb] using h
      · simpa using h
  | dgram =>
    simp only
    cases hb : s.osbuf with
    | nil => simpa [MsgInv] using h
    | cons m rest =>
      simp only [MsgInv] at h ⊢; rw [hb] at h; simpa using h

/-- one step of any party preserves the invariant (message-preserving sockets) -/
theorem step_msg (s : Sock) (a : Act) (hk : s.kind ≠ .stream) (h : MsgInv s) : MsgInv (step s a).1 := by
  cases a with
  | «open» => simpa [step, MsgInv] using h
  | close => simpa [step, MsgInv] using h
  | closeRacing =>
    simp only [step]
    split
    · have := rxBody_msg s s.bufsize hk h; simpa [MsgInv] using this
    · simpa [MsgInv] using h
  | peerSend f =>
    simp only [step]; split
    · exact h
    · simp only [MsgInv] at h ⊢; simp [← h]
  | peerClose => simpa [step, MsgInv] using h
  | rxStep k =>
    simp only [step]; split
    · exact h
    · split
      · simpa [MsgInv] using h
      · exact rxBody_msg s k hk h
  | rxFault => simp only [step]; split <;> simpa [MsgInv] using h
  | get exc =>
    simp only [step]; split
    · exact h
    · split
      · rename_i f rest hq
        simp only [MsgInv] at h ⊢; rw [hq] at h; simpa using h
      · exact h
  | flush =>
    simp only [step, MsgInv] at h ⊢
    simp only [List.map_append, List.map_map, List.append_nil]
    have : (s.rxq.map ((fun x => x.1) ∘ fun f => (f, false))) = s.rxq := by simp [Function.comp_def]
    rw [this]; exact h
  | send p => simp only [step]; (repeat' split) <;> simpa [MsgInv] using h

theorem run_msg (s : Sock) (acts : List Act) (hk : s.kind ≠ .stream) (h : MsgInv s) : MsgInv (run s acts).1 := by
  induction acts generalizing s with
  | nil => simpa [run]
  | cons a as ih =>
    simp only [run]
    exact ih _ (by rw [(step_kind s a).1]; exact hk) (step_msg s a hk h)

/-- **in order, unmodified up to the buffer size, at most once, nothing invented** — for every interleaving of peer
    writes, peer disconnect, receiver iterations, faults, close/open, flushes and reads: the frames returned by
    `wait_frame` form a subsequence of the frames the peer sent (each cut to `bufsize`), in sending order -/
theorem delivered_sublist_msg (k : Kind) (b : Nat) (hk : k ≠ .stream) (acts : List Act) :
    (delivered (run (init k b) acts).1).Sublist (((run (init k b) acts).1.sent).map (·.take b)) := by
  have hinv := run_msg (init k b) acts hk (init_msg k b)
  have hb : (run (init k b) acts).1.bufsize = b := by
    have : ∀ (s : Sock) (l : List Act), (run s l).1.bufsize = s.bufsize := by
      intro s l; induction l generalizing s with
      | nil => simp [run]
      | cons a as ih => simp only [run]; rw [ih, (step_kind s a).2]
    rw [this]; rfl
  generalize (run (init k b) acts).1 = s at *
  unfold MsgInv at hinv
  rw [hb] at hinv
  rw [← hinv]
  have h1 : (delivered s).Sublist (s.taken.map (·.1)) := by
    unfold delivered
    exact List.Sublist.map _ List.filter_sublist
  exact h1.trans (List.sublist_append_of_sublist_left (List.sublist_append_left _ _))

/-- **exactly once** — if nothing was discarded by `empty_rxqueue` and everything the peer sent has been consumed
    (queue and kernel buffer drained), the frames returned are exactly the frames sent, in order -/
theorem delivered_all_msg (k : Kind) (b : Nat) (hk : k ≠ .stream) (acts : List Act)
    (hnoflush : ∀ t ∈ (run (init k b) acts).1.taken, t.2 = true)
    (hdrained : (run (init k b) acts).1.rxq = [] ∧ (run (init k b) acts).1.osbuf = []) :
    delivered (run (init k b) acts).1 = ((run (init k b) acts).1.sent).map (·.take (run (init k b) acts).1.bufsize) := by
  have hinv := run_msg (init k b) acts hk (init_msg k b)
  generalize (run (init k b) acts).1 = s at *
  unfold MsgInv at hinv
  rw [hdrained.1, hdrained.2] at hinv
  simp at hinv
  rw [← hinv]; unfold delivered
  have hf : s.taken.filter (·.2) = s.taken := List.filter_eq_self.2 (by intro t ht; exact hnoflush t ht)
  rw [hf]

/-! ### byte streams -/

theorem flat_append (a b : List Bytes) : flat (a ++ b) = flat a ++ flat b := by simp [flat]

theorem chunk_rejoin (l : Bytes) (n : Nat) :
    l.take n ++ flat (if (l.drop n).isEmpty then [] else [l.drop n]) = l := by
  split
  · rename_i h
    have h0 : l.drop n = [] := by simpa using h
    have := List.take_append_drop n l
    rw [h0] at this
    simpa [flat] using this
  · simp [flat]

theorem take_nonempty (l : Bytes) (n : Nat) (hl : l.isEmpty = false) (hn : 1 ≤ n) : (l.take n).isEmpty = false := by
  cases l with
  | nil => simp at hl
  | cons x xs =>
    have : n = (n - 1) + 1 := by omega
    rw [this, List.take_succ_cons]; simp

theorem rxBody_stream (s : Sock) (k : Nat) (hk : s.kind = .stream) (h : StreamInv s) : StreamInv (rxBody s k) := by
  unfold rxBody recv
  simp only [hk]
  by_cases he : (flat s.osbuf).isEmpty = true
  · simp only [he, if_true]
    cases hp : s.peerClosed
    · simpa using h
    · simp only [if_true]
      simpa [StreamInv] using h
  · have he' : (flat s.osbuf).isEmpty = false := by simpa using he
    simp only [he', Bool.false_eq_true, if_false]
    have hd := take_nonempty (flat s.osbuf) (max 1 (min k s.bufsize)) he' (by omega)
    simp only [hd, Bool.false_and, Bool.false_eq_true, if_false]
    simp only [StreamInv] at h ⊢
    rw [← h]
    simp only [flat_append]
    have hj := chunk_rejoin (flat s.osbuf) (max 1 (min k s.bufsize))
    have h1 : flat [List.take (max 1 (min k s.bufsize)) (flat s.osbuf)] = List.take (max 1 (min k s.bufsize)) (flat s.osbuf) := by
      simp [flat]
    rw [h1, List.append_assoc, List.append_assoc, hj]
    simp [List.append_assoc]

theorem step_stream (s : Sock) (a : Act) (hk : s.kind = .stream) (h : StreamInv s) : StreamInv (step s a).1 := by
  cases a with
  | «open» => simpa [step, StreamInv] using h
  | close => simpa [step, StreamInv] using h
  | closeRacing =>
    simp only [step]
    split
    · have := rxBody_stream s s.bufsize hk h; simpa [StreamInv] using this
    · simpa [StreamInv] using h
  | peerSend f =>
    simp only [step]; split
    · exact h
    · simp only [StreamInv, flat_append] at h ⊢; rw [← h]; simp [List.append_assoc]
  | peerClose => simpa [step, StreamInv] using h
  | rxStep k =>
    simp only [step]; split
    · exact h
    · split
      · simpa [StreamInv] using h
      · exact rxBody_stream s k hk h
  | rxFault => simp only [step]; split <;> simpa [StreamInv] using h
  | get exc =>
    simp only [step]; split
    · exact h
    · split
      · rename_i f rest hq
        simp only [StreamInv] at h ⊢; rw [hq] at h
        simp only [List.map_append, flat_append] at h ⊢
        rw [← h]; simp [flat, List.append_assoc]
      · exact h
  | flush =>
    simp only [step, StreamInv] at h ⊢
    simp only [List.map_append, List.map_map, flat_append]
    have : (s.rxq.map ((fun x => x.1) ∘ fun f => (f, false))) = s.rxq := by simp [Function.comp_def]
    rw [this, ← h]; simp [flat]
  | send p => simp only [step]; (repeat' split) <;> simpa [StreamInv] using h

theorem run_stream (s : Sock) (acts : List Act) (hk : s.kind = .stream) (h : StreamInv s) : StreamInv (run s acts).1 := by
  induction acts generalizing s with
  | nil => simpa [run]
  | cons a as ih =>
    simp only [run]
    exact ih _ (by rw [(step_kind s a).1]; exact hk) (step_stream s a hk h)

/-- **byte streams** — without intervening `empty_rxqueue`, the concatenation of what `wait_frame` returned is a prefix of
    the concatenation of what the peer wrote, for every interleaving and every way the kernel chunks the stream -/
theorem stream_prefix (b : Nat) (acts : List Act)
    (hnoflush : ∀ t ∈ (run (init .stream b) acts).1.taken, t.2 = true) :
    ∃ pending, flat (delivered (run (init .stream b) acts).1) ++ pending = flat (run (init .stream b) acts).1.sent := by
  have hinv := run_stream (init .stream b) acts rfl (init_stream .stream b)
  generalize (run (init .stream b) acts).1 = s at *
  refine ⟨flat s.rxq ++ flat s.osbuf, ?_⟩
  unfold StreamInv at hinv
  rw [← hinv, ← List.append_assoc]
  unfold delivered
  have hf : s.taken.filter (·.2) = s.taken := List.filter_eq_self.2 (by intro t ht; exact hnoflush t ht)
  rw [hf]

/-! ### disconnect, closed connection, close, timeouts, exception flag -/

/-- after the peer has disconnected and its data has been read, receiver iterations queue nothing (no empty frames) -/
theorem eof_queues_nothing (s : Sock) (k : Nat) (hc : s.peerClosed = true) (he : s.osbuf = []) :
    (step s (.rxStep k)).1.rxq = s.rxq := by
  simp only [step]
  split
  · rfl
  · split
    · rfl
    · unfold rxBody recv
      cases hk : s.kind <;> simp [he, hc, flat]

/-- using a closed connection raises, immediately and without touching anything -/
theorem closed_raises (s : Sock) (hc : s.opened = false) (exc : Bool) (p : Bytes) :
    step s (.get exc) = (s, .runtimeErr) ∧ step s (.send p) = (s, .runtimeErr) := by
  simp [step, hc]

/-- `close()` always ends with the receiver thread dead and the connection closed, whether or not an iteration was in flight -/
theorem close_terminates (s : Sock) :
    (step s .close).1.alive = false ∧ (step s .close).1.opened = false ∧
    (step s .closeRacing).1.alive = false ∧ (step s .closeRacing).1.opened = false := by
  simp [step]

/-- once `exit_requested` is set the next loop test ends the thread; nothing but `open()` clears the request -/
theorem exit_request_stops (s : Sock) (k : Nat) (h : s.exitReq = true) : (step s (.rxStep k)).1.alive = false := by
  simp only [step]; split
  · rename_i ha; simpa using ha
  · simp [h]

theorem exit_request_sticky (s : Sock) (a : Act) (h : s.exitReq = true) (ha : a ≠ .open) : (step s a).1.exitReq = true := by
  cases a <;> simp only [step, rxBody] <;> (repeat' split) <;> simp_all

/-- **honest timeout / exception flag** — on an open connection `wait_frame` gives up only when the queue is empty; it then
    raises TimeoutException iff `exception=True` and returns None otherwise; a queued frame is always returned -/
theorem get_semantics (s : Sock) (ho : s.opened = true) (exc : Bool) :
    (s.rxq = [] → (step s (.get exc)).2 = (if exc then .timeout else .none)) ∧
    (∀ f rest, s.rxq = f :: rest → (step s (.get exc)).2 = .frame f ∧ (step s (.get exc)).1.rxq = rest) := by
  constructor
  · intro h; simp [step, ho, h]
  · intro f rest h; simp [step, ho, h]

/-! ### QueueConnection -/

def QInv (s : QConn) : Prop :=
  s.taken.map (·.1) ++ s.fromUser.map (·.take s.mtu) = s.sent.map (·.take s.mtu)

theorem qstep_mtu (s : QConn) (a : QAct) : (qstep s a).1.mtu = s.mtu := by
  cases a <;> simp only [qstep] <;> (repeat' split) <;> simp

theorem qstep_inv (s : QConn) (a : QAct) (h : QInv s) : QInv (qstep s a).1 := by
  cases a with
  | «open» => simpa [qstep, QInv] using h
  | close =>
    simp only [qstep, QInv] at h ⊢
    simp only [List.map_append, List.map_map, List.map_nil, List.append_nil]
    have : (s.fromUser.map ((fun x => x.1) ∘ fun f => (List.take s.mtu f, false))) = s.fromUser.map (·.take s.mtu) := by
      simp [Function.comp_def]
    rw [this]; exact h
  | peerPut f => simp only [qstep, QInv] at h ⊢; simp [← h]
  | get exc =>
    simp only [qstep]; split
    · exact h
    · split
      · rename_i f rest hq
        simp only [QInv] at h ⊢; rw [hq] at h; simpa using h
      · exact h
  | flush =>
    simp only [qstep, QInv] at h ⊢
    simp only [List.map_append, List.map_map, List.map_nil, List.append_nil]
    have : (s.fromUser.map ((fun x => x.1) ∘ fun f => (List.take s.mtu f, false))) = s.fromUser.map (·.take s.mtu) := by
      simp [Function.comp_def]
    rw [this]; exact h
  | send p => simp only [qstep]; (repeat' split) <;> simpa [QInv] using h

theorem qrun_inv (s : QConn) (acts : List QAct) (h : QInv s) : QInv (qrun s acts).1 := by
  induction acts generalizing s with
  | nil => simpa [qrun]
  | cons a as ih => simp only [qrun]; exact ih _ (qstep_inv s a h)

/-- queue-backed connection: what `wait_frame` returned is a subsequence, in order, of what was put (cut to the MTU) -/
theorem qdelivered_sublist (mtu : Nat) (acts : List QAct) :
    (qdelivered (qrun { mtu := mtu } acts).1).Sublist (((qrun { mtu := mtu } acts).1.sent).map (·.take mtu)) := by
  have hinv := qrun_inv { mtu := mtu } acts (by simp [QInv])
  have hm : (qrun ({ mtu := mtu } : QConn) acts).1.mtu = mtu := by
    have : ∀ (s : QConn) (l : List QAct), (qrun s l).1.mtu = s.mtu := by
      intro s l; induction l generalizing s with
      | nil => simp [qrun]
      | cons a as ih => simp only [qrun]; rw [ih, qstep_mtu]
    rw [this]
  generalize (qrun ({ mtu := mtu } : QConn) acts).1 = s at *
  unfold QInv at hinv
  rw [hm] at hinv
  rw [← hinv]
  have h1 : (qdelivered s).Sublist (s.taken.map (·.1)) := by
    unfold qdelivered
    exact List.Sublist.map _ List.filter_sublist
  exact h1.trans (List.sublist_append_left _ _)

theorem qclosed_raises (s : QConn) (hc : s.opened = false) (exc : Bool) (p : Bytes) :
    qstep s (.get exc) = (s, .runtimeErr) ∧ qstep s (.send p) = (s, .runtimeErr) := by
  simp [qstep, hc]

theorem qget_semantics (s : QConn) (ho : s.opened = true) (exc : Bool) :
    (s.fromUser = [] → (qstep s (.get exc)).2 = (if exc then .timeout else .none)) ∧
    (∀ f rest, s.fromUser = f :: rest → (qstep s (.get exc)).2 = .frame (f.take s.mtu)) := by
  constructor
  · intro h; simp [qstep, ho, h]
  · intro f rest h; simp [qstep, ho, h]

/-! ### non-vacuity: a concrete interleaving with a racing close, a disconnect and reads -/
example :
    let r := run (init .seqpacket 4) [.open, .peerSend [1, 2, 3, 4, 5], .peerSend [6], .rxStep 0, .get true, .peerClose, .rxStep 0, .rxStep 0, .rxStep 0, .get true, .get true, .get false]
    r.2 = [.none, .none, .none, .none, .frame [1, 2, 3, 4], .none, .none, .none, .none, .frame [6], .timeout, .none]
    ∧ r.1.alive = false ∧ delivered r.1 = [[1, 2, 3, 4], [6]] := by decide

end Uds.Props.C16
