import Uds.Lemmas.Loops
import Uds.Props.C02
/-
  C11 — zero padding: trailing zeros are ignored when tolerated, rejected when not.
  For any well-formed reply `enc v` and any number `n` of appended zero bytes.
-/
namespace Uds.Props.C11
open Uds Uds.Model Uds.Spec Uds.Props.C02

/-! ### ReadDTCInformation, availability-mask groups (records of 4 / 6 bytes) -/

/-- **tolerated**: the decoded records are those encoded; with `ignore_all_zero_dtc` off each *whole* all-zero record of the padding
    is one more record (DTC 0), and a remaining partial record is dropped — for every record list and every `n` -/
theorem records_pad_tolerated (ign six sf09 first : Bool) (rs : List DtcRec) (n : Nat) (acc : List DtcRec)
    (hr : ∀ r ∈ rs, RecOk six r ∧ recNonZero six ign r) :
    recordLoop true ign six sf09 first (encRecs six rs ++ zeros n) acc =
      .ok (acc.reverse ++ rs ++ (if ign then [] else List.replicate (n / recSize six) (zeroRec six))) := by
  rw [recordLoop_prefix true ign six sf09 first rs (zeros n) acc hr, recordLoop_zeros]
  simp

/-- **not tolerated**: trailing zeros that do not form whole records make the reply invalid (any sub-function of the groups except
    reportSeverityInformationOfDTC, which by design ignores an incomplete second record) -/
theorem records_pad_rejected (ign six first : Bool) (rs : List DtcRec) (n : Nat) (acc : List DtcRec)
    (hr : ∀ r ∈ rs, RecOk six r ∧ recNonZero six ign r) (hn : n % recSize six ≠ 0) :
    recordLoop false ign six false first (encRecs six rs ++ zeros n) acc = .error .invalid := by
  rw [recordLoop_prefix false ign six false first rs (zeros n) acc hr]
  exact recordLoop_zeros_rejected ign six _ n _ hn

/-- with tolerance off, whole all-zero records are still records (or skipped when `ignore_all_zero_dtc`): only *incomplete* ones are refused -/
theorem records_whole_zero_records (ign six first : Bool) (rs : List DtcRec) (k : Nat) (acc : List DtcRec)
    (hr : ∀ r ∈ rs, RecOk six r ∧ recNonZero six ign r) :
    ∃ out, recordLoop false ign six false first (encRecs six rs ++ zeros (k * recSize six)) acc = .ok out := by
  rw [recordLoop_prefix false ign six false first rs _ acc hr]
  generalize (first && rs.isEmpty) = f
  generalize (rs.reverse ++ acc) = a
  induction k generalizing a f with
  | zero => simp [zeros, recordLoop_nil]
  | succ k ih =>
    have hpos : 0 < recSize six := by unfold recSize; split <;> omega
    rw [recordLoop]
    have hsz : (if six = true then 6 else 4) = recSize six := rfl
    have hlen : (zeros ((k + 1) * recSize six)).length = (k + 1) * recSize six := zeros_length _
    have hge : recSize six ≤ (k + 1) * recSize six := by rw [Nat.add_mul]; omega
    have h0 : ¬ (zeros ((k + 1) * recSize six)).length = 0 := by rw [hlen]; omega
    have h1 : ¬ (zeros ((k + 1) * recSize six)).length < (if six = true then 6 else 4) := by rw [hlen, hsz]; omega
    rw [dif_neg h0, dif_neg h1]
    simp only [hsz, zeros_take, zeros_drop, Nat.min_eq_left hge, allZero_zeros, Bool.true_and]
    have hsub : (k + 1) * recSize six - recSize six = k * recSize six := by rw [Nat.add_mul]; omega
    rw [hsub]
    cases ign
    · simp only [Bool.false_eq_true, if_false, mkRec_zeros, bind, Except.bind]; exact ih _ _
    · simp only [if_true]; exact ih _ _

/-! ### ReadMemoryByAddress (client-side trimming) -/

theorem len_pad (data : Bytes) (n : Nat) : (data ++ zeros n).length = data.length + n := by
  rw [List.length_append, zeros_length]

theorem readmem_pad_tolerated (data : Bytes) (n : Nat) (h : 1 ≤ data.length) :
    readMemClient data.length true (data ++ zeros n) = .ok (.readMem data) := by
  unfold readMemClient readMemInterpret
  have hg : guardPy (decide ((data ++ zeros n).length < 1)) PyErr.invalid = .ok () :=
    guardPy_ok.2 (by rw [decide_eq_false_iff_not, len_pad]; omega)
  simp only [hg, bind, Except.bind, pure, Except.pure]
  have h1 : ¬ (data ++ zeros n).length < data.length := by rw [len_pad]; omega
  rw [if_neg h1]
  by_cases hn : n = 0
  · subst hn
    have h2 : ¬ (data ++ zeros 0).length > data.length := by rw [len_pad]; omega
    rw [if_neg h2]; simp [zeros]
  · have h2 : (data ++ zeros n).length > data.length := by rw [len_pad]; omega
    rw [if_pos h2]
    have hd : (data ++ zeros n).drop data.length = zeros n := by
      rw [List.drop_append_of_le_length (Nat.le_refl _), List.drop_of_length_le (Nat.le_refl _)]; rfl
    have ht : (data ++ zeros n).take data.length = data := by
      rw [List.take_append_of_le_length (Nat.le_refl _), List.take_of_length_le (Nat.le_refl _)]
    rw [hd, ht, allZero_zeros]; rfl

theorem readmem_pad_rejected (data : Bytes) (n : Nat) (h : 1 ≤ data.length) (hn : 0 < n) :
    readMemClient data.length false (data ++ zeros n) = .error .unexpected := by
  unfold readMemClient readMemInterpret
  have hg : guardPy (decide ((data ++ zeros n).length < 1)) PyErr.invalid = .ok () :=
    guardPy_ok.2 (by rw [decide_eq_false_iff_not, len_pad]; omega)
  have h1 : ¬ (data ++ zeros n).length < data.length := by rw [len_pad]; omega
  have h2 : (data ++ zeros n).length > data.length := by rw [len_pad]; omega
  simp only [hg, bind, Except.bind, pure, Except.pure]
  rw [if_neg h1, if_pos h2]
  simp

/-! ### InputOutputControlByIdentifier (fixed-length codec) -/

theorem io_pad_tolerated (e : IoEntry) (did : Nat) (cp : Option Nat) (data : Bytes) (n : Nat) (hl : e.codecLen = some data.length) :
    ioDecode e true did cp (data ++ zeros n) = .ok (.io did cp (some data)) := by
  unfold ioDecode
  simp only [hl]
  have hd : (data ++ zeros n).drop data.length = zeros n := by
    rw [List.drop_append_of_le_length (Nat.le_refl _), List.drop_of_length_le (Nat.le_refl _)]; rfl
  have ht : (data ++ zeros n).take data.length = data := by
    rw [List.take_append_of_le_length (Nat.le_refl _), List.take_of_length_le (Nat.le_refl _)]
  by_cases hn : n = 0
  · subst hn
    have : ¬ (data ++ zeros 0).length > data.length := by rw [len_pad]; omega
    have hz : data ++ zeros 0 = data := by simp [zeros]
    rw [hz]
    have hlt : ¬ data.length > data.length := by omega
    simp only [decide_eq_false hlt, Bool.false_and, Bool.false_eq_true, if_false, if_true]; rfl
  · have : (data ++ zeros n).length > data.length := by rw [len_pad]; omega
    simp only [decide_eq_true this, hd, allZero_zeros, Bool.and_self, if_true, ht]; rfl

theorem io_pad_rejected (e : IoEntry) (did : Nat) (cp : Option Nat) (data : Bytes) (n : Nat) (hl : e.codecLen = some data.length) (hn : 0 < n) :
    ioDecode e false did cp (data ++ zeros n) = .error .invalid := by
  unfold ioDecode
  simp only [hl, Bool.and_false, Bool.false_eq_true, if_false]
  have : ¬ (data ++ zeros n).length = data.length := by rw [len_pad]; omega
  rw [if_neg this]; rfl

/-! ### WWH-OBD records (0x42 / 0x55) followed by zero bytes -/

theorem wwhLoop_prefix (tol ign : Bool) (rs : List DtcRec) (tail : Bytes) (acc : List DtcRec) (hr : ∀ r ∈ rs, WwhOk r ∧ wwhNonZero ign r) :
    wwhLoop tol ign (encWwhs rs ++ tail) acc = wwhLoop tol ign tail (acc ++ rs) := by
  induction rs generalizing acc with
  | nil => simp [encWwhs]
  | cons r rest ih =>
    simp only [encWwhs, List.append_assoc]
    rw [wwhLoop_cons _ _ _ _ _ (hr r (by simp)).1 (hr r (by simp)).2, ih _ (fun x hx => hr x (by simp [hx]))]
    simp

def zeroWwh : DtcRec := { id := 0 }

theorem wwhLoop_zeros (ign : Bool) (n : Nat) (acc : List DtcRec) :
    wwhLoop true ign (zeros n) acc = .ok (acc ++ (if ign then [] else List.replicate (n / 5) zeroWwh)) := by
  induction n using Nat.strongRecOn generalizing acc with
  | _ n ih =>
    rw [wwhLoop]
    by_cases h0 : n = 0
    · subst h0; simp [zeros_length]
    · have h0' : ¬ (zeros n).length = 0 := by simpa [zeros_length] using h0
      rw [dif_neg h0']
      by_cases h1 : n < 5
      · have h1' : (zeros n).length < 5 := by simpa [zeros_length] using h1
        rw [dif_pos h1']
        simp [allZero_zeros, Nat.div_eq_of_lt h1]
      · have h1' : ¬ (zeros n).length < 5 := by simpa [zeros_length] using h1
        rw [dif_neg h1']
        simp only [zeros_take, zeros_drop, Nat.min_eq_left (Nat.le_of_not_lt h1), allZero_zeros, Bool.true_and]
        have hdiv : n / 5 = (n - 5) / 5 + 1 := by omega
        cases ign
        · simp only [Bool.false_eq_true, if_false]
          simp only [bind, Except.bind]
          have i0 : idx (zeros 5) 0 = .ok 0 := by decide
          have i4 : idx (zeros 5) 4 = .ok 0 := by decide
          simp only [i0, i4]
          rw [ih (n - 5) (by omega)]
          simp only [Bool.false_eq_true, if_false, hdiv, List.replicate_succ, List.append_assoc, List.singleton_append]
          rfl
        · simp only [if_true]
          rw [ih (n - 5) (by omega)]
          simp

theorem wwhLoop_zeros_rejected (ign : Bool) (n : Nat) (acc : List DtcRec) (hn : n % 5 ≠ 0) :
    wwhLoop false ign (zeros n) acc = .error .invalid := by
  induction n using Nat.strongRecOn generalizing acc with
  | _ n ih =>
    rw [wwhLoop]
    have h0 : n ≠ 0 := by intro h; subst h; simp at hn
    have h0' : ¬ (zeros n).length = 0 := by simpa [zeros_length] using h0
    rw [dif_neg h0']
    by_cases h1 : n < 5
    · have h1' : (zeros n).length < 5 := by simpa [zeros_length] using h1
      rw [dif_pos h1']; simp
    · have h1' : ¬ (zeros n).length < 5 := by simpa [zeros_length] using h1
      rw [dif_neg h1']
      simp only [zeros_take, zeros_drop, Nat.min_eq_left (Nat.le_of_not_lt h1), allZero_zeros, Bool.true_and]
      have hmod : (n - 5) % 5 ≠ 0 := by omega
      cases ign
      · simp only [Bool.false_eq_true, if_false]
        have i0 : idx (zeros 5) 0 = .ok 0 := by decide
        have i4 : idx (zeros 5) 4 = .ok 0 := by decide
        simp only [i0, i4, bind, Except.bind]
        exact ih (n - 5) (by omega) _ hmod
      · simp only [if_true]
        exact ih (n - 5) (by omega) _ hmod

/-- **WWH-OBD, tolerated** -/
theorem wwh_pad_tolerated (ign : Bool) (rs : List DtcRec) (n : Nat) (acc : List DtcRec) (hr : ∀ r ∈ rs, WwhOk r ∧ wwhNonZero ign r) :
    wwhLoop true ign (encWwhs rs ++ zeros n) acc = .ok (acc ++ rs ++ (if ign then [] else List.replicate (n / 5) zeroWwh)) := by
  rw [wwhLoop_prefix true ign rs (zeros n) acc hr, wwhLoop_zeros]

/-- **WWH-OBD, not tolerated**: zero bytes that do not form whole records are refused -/
theorem wwh_pad_rejected (ign : Bool) (rs : List DtcRec) (n : Nat) (acc : List DtcRec) (hr : ∀ r ∈ rs, WwhOk r ∧ wwhNonZero ign r) (hn : n % 5 ≠ 0) :
    wwhLoop false ign (encWwhs rs ++ zeros n) acc = .error .invalid := by
  rw [wwhLoop_prefix false ign rs (zeros n) acc hr]; exact wwhLoop_zeros_rejected ign n _ hn

/-! ### fault-detection counters (0x14) followed by zero bytes -/

theorem faultLoop_prefix (tol ign : Bool) (rs : List DtcRec) (tail : Bytes) (acc : List DtcRec) (hr : ∀ r ∈ rs, FaultOk r ∧ faultNonZero ign r) :
    g3Loop tol ign false (encFaults rs ++ tail) acc = g3Loop tol ign false tail (acc ++ rs) := by
  induction rs generalizing acc with
  | nil => simp [encFaults]
  | cons r rest ih =>
    obtain ⟨⟨hid, ⟨f, hf, hf256⟩, hst, hsev, hfu, hs, he⟩, hnz⟩ := hr r (by simp)
    simp only [encFaults, List.append_assoc]
    rw [g3Loop]
    have hl := encFault_length r
    have h0 : ¬ (encFault r ++ (encFaults rest ++ tail)).length = 0 := by simp [hl]
    have h1 : ¬ (encFault r ++ (encFaults rest ++ tail)).length < 4 := by simp [hl]
    have ht : (encFault r ++ (encFaults rest ++ tail)).take 4 = encFault r := by
      rw [List.take_append_of_le_length (by omega), List.take_of_length_le (by omega)]
    have hdp : (encFault r ++ (encFaults rest ++ tail)).drop 4 = encFaults rest ++ tail := by
      rw [List.drop_append_of_le_length (by omega), List.drop_of_length_le (by omega)]; simp
    have i3 : idx (encFault r) 3 = .ok (UInt8.ofNat f) := by simp [encFault, hf, idx, pure, Except.pure]
    have hb : be3 (encFault r) = r.id := by simp only [encFault]; exact be3_toBE _ _ hid
    unfold faultNonZero at hnz
    simp only [dif_neg h0, dif_neg h1, ht, hdp, hnz, Bool.false_eq_true, if_false, i3, hb, bind, Except.bind, toNat_ofNat_lt hf256]
    rw [ih _ (fun x hx => hr x (by simp [hx]))]
    have : ({ id := r.id, fault := some f } : DtcRec) = r := by cases r; simp_all
    rw [this]; simp

def zeroFault : DtcRec := { id := 0, fault := some 0 }

theorem faultLoop_zeros (ign : Bool) (n : Nat) (acc : List DtcRec) :
    g3Loop true ign false (zeros n) acc = .ok (acc ++ (if ign then [] else List.replicate (n / 4) zeroFault)) := by
  induction n using Nat.strongRecOn generalizing acc with
  | _ n ih =>
    rw [g3Loop]
    by_cases h0 : n = 0
    · subst h0; simp [zeros_length]
    · have h0' : ¬ (zeros n).length = 0 := by simpa [zeros_length] using h0
      rw [dif_neg h0']
      by_cases h1 : n < 4
      · have h1' : (zeros n).length < 4 := by simpa [zeros_length] using h1
        rw [dif_pos h1']
        simp [allZero_zeros, Nat.div_eq_of_lt h1]
      · have h1' : ¬ (zeros n).length < 4 := by simpa [zeros_length] using h1
        rw [dif_neg h1']
        simp only [zeros_take, zeros_drop, Nat.min_eq_left (Nat.le_of_not_lt h1), allZero_zeros, Bool.true_and]
        have hdiv : n / 4 = (n - 4) / 4 + 1 := by omega
        cases ign
        · have i3 : idx (zeros 4) 3 = .ok 0 := by decide
          simp only [Bool.false_eq_true, if_false, i3, bind, Except.bind]
          rw [ih (n - 4) (by omega)]
          simp only [Bool.false_eq_true, if_false, hdiv, List.replicate_succ, List.append_assoc, List.singleton_append]
          rfl
        · simp only [if_true]
          rw [ih (n - 4) (by omega)]
          simp

theorem faultLoop_zeros_rejected (ign : Bool) (n : Nat) (acc : List DtcRec) (hn : n % 4 ≠ 0) :
    g3Loop false ign false (zeros n) acc = .error .invalid := by
  induction n using Nat.strongRecOn generalizing acc with
  | _ n ih =>
    rw [g3Loop]
    have h0 : n ≠ 0 := by intro h; subst h; simp at hn
    have h0' : ¬ (zeros n).length = 0 := by simpa [zeros_length] using h0
    rw [dif_neg h0']
    by_cases h1 : n < 4
    · have h1' : (zeros n).length < 4 := by simpa [zeros_length] using h1
      rw [dif_pos h1']; simp
    · have h1' : ¬ (zeros n).length < 4 := by simpa [zeros_length] using h1
      rw [dif_neg h1']
      simp only [zeros_take, zeros_drop, Nat.min_eq_left (Nat.le_of_not_lt h1), allZero_zeros, Bool.true_and]
      have hmod : (n - 4) % 4 ≠ 0 := by omega
      cases ign
      · have i3 : idx (zeros 4) 3 = .ok 0 := by decide
        simp only [Bool.false_eq_true, if_false, i3, bind, Except.bind]
        exact ih (n - 4) (by omega) _ hmod
      · simp only [if_true]
        exact ih (n - 4) (by omega) _ hmod

theorem fault_pad_tolerated (ign : Bool) (rs : List DtcRec) (n : Nat) (acc : List DtcRec) (hr : ∀ r ∈ rs, FaultOk r ∧ faultNonZero ign r) :
    g3Loop true ign false (encFaults rs ++ zeros n) acc = .ok (acc ++ rs ++ (if ign then [] else List.replicate (n / 4) zeroFault)) := by
  rw [faultLoop_prefix true ign rs (zeros n) acc hr, faultLoop_zeros]

theorem fault_pad_rejected (ign : Bool) (rs : List DtcRec) (n : Nat) (acc : List DtcRec) (hr : ∀ r ∈ rs, FaultOk r ∧ faultNonZero ign r) (hn : n % 4 ≠ 0) :
    g3Loop false ign false (encFaults rs ++ zeros n) acc = .error .invalid := by
  rw [faultLoop_prefix false ign rs (zeros n) acc hr]; exact faultLoop_zeros_rejected ign n _ hn

/-! ### extended data by DTC number (0x06 / 0x10 / 0x19) followed by zero bytes: record number 0 does not exist, so the first zero ends the list -/

theorem extLoop_prefix (tol : Bool) (size : Nat) (l : List (Nat × Bytes)) (tail : Bytes) (acc : List (Nat × Bytes)) (h : ∀ e ∈ l, ExtOk size e) :
    extByDtcLoop tol size (encExts l ++ tail) acc = extByDtcLoop tol size tail (acc ++ l) := by
  induction l generalizing acc with
  | nil => simp [encExts]
  | cons e rest ih =>
    obtain ⟨n, b⟩ := e
    obtain ⟨h0, h1, h2⟩ := h (n, b) (by simp)
    simp only at h0 h1 h2
    rw [extByDtcLoop]
    have hne : ¬ (encExts ((n, b) :: rest) ++ tail).length = 0 := by simp [encExts]
    rw [dif_neg hne]
    have hi : idx (encExts ((n, b) :: rest) ++ tail) 0 = .ok (UInt8.ofNat n) := by simp [encExts, idx, pure, Except.pure]
    have hn : (UInt8.ofNat n).toNat = n := toNat_ofNat_lt h1
    have hz : (n == 0) = false := by simpa using (show n ≠ 0 by omega)
    have hd : (encExts ((n, b) :: rest) ++ tail).drop 1 = b ++ (encExts rest ++ tail) := by simp [encExts]
    simp only [hi, bind, Except.bind, hn, hz, Bool.false_eq_true, if_false, hd]
    have hlen : ¬ (b ++ (encExts rest ++ tail)).length < size := by simp; omega
    rw [if_neg hlen]
    have ht : (b ++ (encExts rest ++ tail)).take size = b := by rw [← h2]; simp
    have hdr : (b ++ (encExts rest ++ tail)).drop size = encExts rest ++ tail := by rw [← h2]; simp
    rw [ht, hdr, ih _ (fun e he => h e (by simp [he]))]
    simp only [List.append_assoc, List.singleton_append]

theorem ext_pad (tol : Bool) (size : Nat) (l : List (Nat × Bytes)) (n : Nat) (acc : List (Nat × Bytes)) (h : ∀ e ∈ l, ExtOk size e) (hn : 0 < n) :
    extByDtcLoop tol size (encExts l ++ zeros n) acc = if tol then .ok (acc ++ l) else .error .invalid := by
  rw [extLoop_prefix tol size l (zeros n) acc h, extByDtcLoop]
  have h0 : ¬ (zeros n).length = 0 := by rw [zeros_length]; omega
  rw [dif_neg h0]
  have i0 : idx (zeros n) 0 = .ok 0 := by
    cases n with
    | zero => omega
    | succ k => simp [zeros, idx, List.replicate_succ, pure, Except.pure]
  simp only [i0, bind, Except.bind, allZero_zeros, Bool.true_and]
  cases tol <;> simp

/-! ### ReadDataByIdentifier followed by zero bytes (fixed-length codecs; identifier 0x0000 not configured) -/

def DidsFixed (cfg : DidCfg) (tol : Bool) : List (Nat × Bytes) → Prop
  | [] => True
  | (d, v) :: rest => d < 65536 ∧ (d ≠ 0 ∨ cfg.entries.any (·.1 == 0) = true ∨ tol = false) ∧ fetchCodec cfg d = .ok (some v.length) ∧ DidsFixed cfg tol rest

theorem rdbiLoop_prefix (cfg : DidCfg) (tol : Bool) (l : List (Nat × Bytes)) (tail : Bytes) (acc : List (Nat × Bytes)) (h : DidsFixed cfg tol l)
    (hnd : ((acc ++ l).map (·.1)).Nodup) : rdbiLoop cfg tol (encDids l ++ tail) acc = rdbiLoop cfg tol tail (acc ++ l) := by
  induction l generalizing acc with
  | nil => simp [encDids]
  | cons e rest ih =>
    obtain ⟨d, v⟩ := e
    obtain ⟨hd, hz, hf, hrest⟩ := h
    have hlen : (encDids ((d, v) :: rest) ++ tail).length = 2 + (v ++ (encDids rest ++ tail)).length := by simp [encDids]
    have ht : (encDids ((d, v) :: rest) ++ tail).take 2 = toBE 2 d := by
      simp only [encDids, List.append_assoc]
      rw [List.take_append_of_le_length (by simp)]; exact List.take_of_length_le (by simp)
    have hdr : (encDids ((d, v) :: rest) ++ tail).drop 2 = v ++ (encDids rest ++ tail) := by
      simp only [encDids, List.append_assoc]
      rw [List.drop_append_of_le_length (by simp)]; simp [List.drop_of_length_le]
    have hu : unpackBE 2 (toBE 2 d) = .ok d := by
      simp [unpackBE, fromBE_toBE_of_lt (show d < 256 ^ 2 by omega), pure, Except.pure]
    have hcond : (d == 0 && !cfg.entries.any (·.1 == 0) && tol && allZero (encDids ((d, v) :: rest) ++ tail)) = false := by
      rcases hz with hz | hz | hz
      · have : (d == 0) = false := by simpa using hz
        simp [this]
      · simp [hz]
      · simp [hz]
    have hnew : ∀ e ∈ acc, e.1 ≠ d := by
      intro e he heq
      rw [List.map_append, List.map_cons] at hnd
      exact (List.nodup_append.1 hnd).2.2 e.1 (List.mem_map_of_mem he) d (by simp) heq
    have hnd' : (((acc ++ [(d, v)]) ++ rest).map (·.1)).Nodup := by simpa using hnd
    rw [rdbiLoop]
    rw [dif_neg (by omega), dif_neg (by omega)]
    simp only [ht, hu, bind, Except.bind, hcond, Bool.false_eq_true, if_false, hf, hdr]
    have h1 : ¬ (v ++ (encDids rest ++ tail)).length < v.length := by simp
    have h2 : (v ++ (encDids rest ++ tail)).take v.length = v := by simp
    have h3 : (v ++ (encDids rest ++ tail)).drop v.length = encDids rest ++ tail := by simp
    simp only [h1, if_false, h2, h3, dictSet_new acc d v hnew]
    rw [ih _ hrest hnd']; simp

theorem rdbiLoop_zeros (cfg : DidCfg) (n : Nat) (acc : List (Nat × Bytes)) (h0 : cfg.entries.any (·.1 == 0) = false) :
    rdbiLoop cfg true (zeros n) acc = .ok acc := by
  rw [rdbiLoop]
  by_cases hn0 : n = 0
  · subst hn0; simp [zeros_length, pure, Except.pure]
  · have h0' : ¬ (zeros n).length = 0 := by simpa [zeros_length] using hn0
    rw [dif_neg h0']
    by_cases hn1 : n ≤ 1
    · have : (zeros n).length ≤ 1 := by simpa [zeros_length] using hn1
      rw [dif_pos this]
      have hn : n = 1 := by omega
      subst hn
      simp [zeros, idx, pure, Except.pure, bind, Except.bind]
    · have : ¬ (zeros n).length ≤ 1 := by simpa [zeros_length] using hn1
      rw [dif_neg this]
      have ht : (zeros n).take 2 = zeros 2 := by rw [zeros_take]; congr 1; omega
      have hu : unpackBE 2 (zeros 2) = .ok 0 := by decide
      simp only [ht, hu, bind, Except.bind, h0, allZero_zeros]
      simp [pure, Except.pure]

/-- **ReadDataByIdentifier, tolerated**: any number of zero bytes after the records is ignored -/
theorem rdbi_pad_tolerated (cfg : DidCfg) (l : List (Nat × Bytes)) (n : Nat) (h : DidsFixed cfg true l) (hnd : (l.map (·.1)).Nodup)
    (h0 : cfg.entries.any (·.1 == 0) = false) : rdbiLoop cfg true (encDids l ++ zeros n) [] = .ok l := by
  rw [rdbiLoop_prefix cfg true l (zeros n) [] h (by simpa using hnd), rdbiLoop_zeros cfg n _ h0]; simp

/-- **ReadDataByIdentifier, not tolerated**: one trailing zero byte is an invalid response -/
theorem rdbi_pad1_rejected (cfg : DidCfg) (l : List (Nat × Bytes)) (h : DidsFixed cfg false l) (hnd : (l.map (·.1)).Nodup) :
    rdbiLoop cfg false (encDids l ++ zeros 1) [] = .error .invalid := by
  rw [rdbiLoop_prefix cfg false l (zeros 1) [] h (by simpa using hnd), rdbiLoop]
  simp [zeros, idx, pure, Except.pure, bind, Except.bind]

/-- … and two or more zero bytes read as identifier 0x0000, which has no codec: the interpreter stops with the missing-codec error that
    `read_data_by_identifier` reports as an unexpected response -/
theorem rdbi_pad2_rejected (cfg : DidCfg) (l : List (Nat × Bytes)) (n : Nat) (h : DidsFixed cfg false l) (hnd : (l.map (·.1)).Nodup) (hn : 2 ≤ n)
    (h0 : cfg.find 0 = none) : rdbiLoop cfg false (encDids l ++ zeros n) [] = .error .config := by
  rw [rdbiLoop_prefix cfg false l (zeros n) [] h (by simpa using hnd), rdbiLoop]
  have h0' : ¬ (zeros n).length = 0 := by rw [zeros_length]; omega
  have h1' : ¬ (zeros n).length ≤ 1 := by rw [zeros_length]; omega
  rw [dif_neg h0', dif_neg h1']
  have ht : (zeros n).take 2 = zeros 2 := by rw [zeros_take]; congr 1; omega
  have hu : unpackBE 2 (zeros 2) = .ok 0 := by decide
  simp only [ht, hu, bind, Except.bind, Bool.and_false, Bool.false_and, Bool.false_eq_true, if_false, fetchCodec, h0]
  rfl

/-! ### snapshot records by DTC number (0x04 / 0x18) followed by zero bytes -/

theorem snapByDtcLoop_prefix (c : DtcCfg) (gs : List (Nat × List Snap)) (tail : Bytes) (acc : List Snap) (h : ∀ g ∈ gs, GroupOk c g) :
    snapByDtcLoop c (encSnapGroups c.didSize gs ++ tail) acc = snapByDtcLoop c tail (acc ++ (gs.map (·.2)).flatten) := by
  induction gs generalizing acc with
  | nil => simp [encSnapGroups]
  | cons g rest ih =>
    obtain ⟨rec, l⟩ := g
    obtain ⟨hr, hl1, hl2, hs⟩ := h (rec, l) (by simp)
    simp only at hr hl1 hl2 hs
    have hn0 : UInt8.ofNat l.length ≠ 0 := by
      intro h0
      have := congrArg UInt8.toNat h0
      rw [toNat_ofNat_lt hl2] at this
      have : l.length = 0 := this
      omega
    have hE : encSnapGroups c.didSize ((rec, l) :: rest) ++ tail =
        UInt8.ofNat rec :: UInt8.ofNat l.length :: (encSnapDids c.didSize l ++ (encSnapGroups c.didSize rest ++ tail)) := by
      simp [encSnapGroups]
    rw [hE, snapByDtcLoop]
    have hlen0 : ¬ (UInt8.ofNat rec :: UInt8.ofNat l.length :: (encSnapDids c.didSize l ++ (encSnapGroups c.didSize rest ++ tail))).length = 0 := by simp
    have hz : (c.tol && allZero (UInt8.ofNat rec :: UInt8.ofNat l.length :: (encSnapDids c.didSize l ++ (encSnapGroups c.didSize rest ++ tail)))) = false := by
      rw [allZero_cons_ne hn0]; simp
    have hlen2 : ¬ (UInt8.ofNat rec :: UInt8.ofNat l.length :: (encSnapDids c.didSize l ++ (encSnapGroups c.didSize rest ++ tail))).length < 2 := by simp
    rw [dif_neg hlen0]
    simp only [hz, Bool.false_eq_true, if_false]
    rw [dif_neg hlen2]
    have hnz : (l.length == 0) = false := by simpa using (show l.length ≠ 0 by omega)
    have hge := encSnapDids_length_ge c.didSize l hl1
    have hlenk : ¬ (UInt8.ofNat rec :: UInt8.ofNat l.length :: (encSnapDids c.didSize l ++ (encSnapGroups c.didSize rest ++ tail))).length < 2 + c.didSize := by
      simp only [List.length_cons, List.length_append]; omega
    simp only [idx_cons0', idx_cons1', bind, Except.bind, toNat_ofNat_lt hr, toNat_ofNat_lt hl2, hnz, Bool.false_eq_true, if_false, hlenk,
      List.drop_succ_cons, List.drop_zero,
      snapDids_roundtrip c.dids c.didSize rec l (encSnapGroups c.didSize rest ++ tail) acc hs]
    have hshort : (encSnapGroups c.didSize rest ++ tail).length <
        (UInt8.ofNat rec :: UInt8.ofNat l.length :: (encSnapDids c.didSize l ++ (encSnapGroups c.didSize rest ++ tail))).length := by
      simp only [List.length_cons, List.length_append]; omega
    rw [if_pos hshort, ih _ (fun g hg => h g (by simp [hg]))]
    simp

theorem snapByDtcLoop_zeros_tolerated (c : DtcCfg) (n : Nat) (acc : List Snap) (ht : c.tol = true) : snapByDtcLoop c (zeros n) acc = .ok acc := by
  rw [snapByDtcLoop]
  by_cases h0 : (zeros n).length = 0
  · rw [dif_pos h0]; rfl
  · rw [dif_neg h0]; simp [ht, allZero_zeros, pure, Except.pure]

theorem snapByDtcLoop_zeros_rejected (c : DtcCfg) (n : Nat) (acc : List Snap) (ht : c.tol = false) (hn : 0 < n) : snapByDtcLoop c (zeros n) acc = .error .invalid := by
  rw [snapByDtcLoop]
  have h0 : ¬ (zeros n).length = 0 := by simp [zeros]; omega
  rw [dif_neg h0]
  simp only [ht, Bool.false_and, Bool.false_eq_true, if_false]
  by_cases h2 : (zeros n).length < 2
  · rw [dif_pos h2]; rfl
  · rw [dif_neg h2]
    have hn2 : 2 ≤ n := by simp [zeros] at h2; omega
    obtain ⟨m, rfl⟩ : ∃ m, n = m + 2 := ⟨n - 2, by omega⟩
    have : zeros (m + 2) = 0 :: 0 :: zeros m := by simp [zeros, List.replicate_succ]
    rw [this]
    simp [idx_cons0', idx_cons1', bind, Except.bind]

/-- **snapshot by DTC number, tolerated**: any number of zero bytes after the last record changes nothing -/
theorem snap_pad_tolerated (c : DtcCfg) (gs : List (Nat × List Snap)) (n : Nat) (acc : List Snap) (ht : c.tol = true) (h : ∀ g ∈ gs, GroupOk c g) :
    snapByDtcLoop c (encSnapGroups c.didSize gs ++ zeros n) acc = snapByDtcLoop c (encSnapGroups c.didSize gs) acc := by
  rw [snapByDtcLoop_prefix c gs _ acc h, snapByDtcLoop_zeros_tolerated c n _ ht, snapByDtc_loop_roundtrip c gs acc h]

/-- **not tolerated**: any trailing zero byte is an invalid response (one byte: incomplete; more: a record with no identifier) -/
theorem snap_pad_rejected (c : DtcCfg) (gs : List (Nat × List Snap)) (n : Nat) (acc : List Snap) (ht : c.tol = false) (hn : 0 < n) (h : ∀ g ∈ gs, GroupOk c g) :
    snapByDtcLoop c (encSnapGroups c.didSize gs ++ zeros n) acc = .error .invalid := by
  rw [snapByDtcLoop_prefix c gs _ acc h, snapByDtcLoop_zeros_rejected c n _ ht hn]

/-- the whole interpreter on sub-function 0x04: tolerated zero padding gives the unpadded result -/
theorem snapByDtc_pad_tolerated (c : DtcCfg) (sf : Nat) (e st : UInt8) (id : Nat) (gs : List (Nat × List Snap)) (n : Nat) (hms : hasMemSel sf = false)
    (hid : id < 2 ^ 24) (hk : 1 ≤ c.didSize ∧ c.didSize ≤ 8) (ht : c.tol = true) (h : ∀ g ∈ gs, GroupOk c g) :
    snapByDtcInterpret c sf (e :: (toBE 3 id ++ st :: (encSnapGroups c.didSize gs ++ zeros n))) =
      .ok { sfEcho := e.toNat, count := 1, dtcs := [{ id := id, status := st.toNat, snaps := (gs.map (·.2)).flatten }] } := by
  have hdrop1 : (e :: (toBE 3 id ++ st :: (encSnapGroups c.didSize gs ++ zeros n))).drop 1 = toBE 3 id ++ st :: (encSnapGroups c.didSize gs ++ zeros n) := rfl
  have hbe : be3 (toBE 3 id ++ st :: (encSnapGroups c.didSize gs ++ zeros n)) = id := be3_toBE id _ hid
  have hst : idx (e :: (toBE 3 id ++ st :: (encSnapGroups c.didSize gs ++ zeros n))) 4 = .ok st := by simp [idx, toBE, pure, Except.pure]
  have hd5 : (e :: (toBE 3 id ++ st :: (encSnapGroups c.didSize gs ++ zeros n))).drop 5 = encSnapGroups c.didSize gs ++ zeros n := by simp [toBE]
  simp only [snapByDtcInterpret, hms, Bool.false_eq_true, if_false, bind_ok, guardPy_ok, pure_ok, optByte]
  refine ⟨e, idx_cons0' _ _, (), (by simp only [List.length_cons, List.length_append, toBE_length]; simp; omega), none, rfl, st, hst, (),
    (by simp; omega), (gs.map (·.2)).flatten, ?_, ?_⟩
  · rw [hd5, snap_pad_tolerated c gs n [] ht h]; simpa using snapByDtc_loop_roundtrip c gs [] h
  · rw [hdrop1, hbe]

/-- … and with tolerance off any trailing zero byte makes the reply invalid -/
theorem snapByDtc_pad_rejected (c : DtcCfg) (sf : Nat) (e st : UInt8) (id : Nat) (gs : List (Nat × List Snap)) (n : Nat) (hms : hasMemSel sf = false)
    (hk : 1 ≤ c.didSize ∧ c.didSize ≤ 8) (ht : c.tol = false) (hn : 0 < n) (h : ∀ g ∈ gs, GroupOk c g) :
    snapByDtcInterpret c sf (e :: (toBE 3 id ++ st :: (encSnapGroups c.didSize gs ++ zeros n))) = .error .invalid := by
  have hst : idx (e :: (toBE 3 id ++ st :: (encSnapGroups c.didSize gs ++ zeros n))) 4 = .ok st := by simp [idx, toBE, pure, Except.pure]
  have hd5 : (e :: (toBE 3 id ++ st :: (encSnapGroups c.didSize gs ++ zeros n))).drop 5 = encSnapGroups c.didSize gs ++ zeros n := by simp [toBE]
  have hg1 : guardPy (decide ((e :: (toBE 3 id ++ st :: (encSnapGroups c.didSize gs ++ zeros n))).length < 5)) PyErr.invalid = .ok () :=
    guardPy_ok.2 (by simp only [List.length_cons, List.length_append, toBE_length]; simp; omega)
  have hg2 : guardPy (decide (c.didSize < 1 || c.didSize > 8)) PyErr.valueErr = .ok () := guardPy_ok.2 (by simp; omega)
  simp only [snapByDtcInterpret, hms, Bool.false_eq_true, if_false, optByte, idx_cons0', hg1, hg2, hst, hd5, snap_pad_rejected c gs n [] ht hn h,
    bind, Except.bind, pure, Except.pure]

/-! ### snapshot records by record number (0x05) followed by zero bytes -/

theorem snapByRecordLoop_prefix (c : DtcCfg) (ps : List (Nat × DtcRec)) (tail : Bytes) (acc : List DtcRec) (h : ∀ p ∈ ps, SnapRecOk c p) :
    snapByRecordLoop c (encSnapRecs c.didSize ps ++ tail) acc = snapByRecordLoop c tail (acc ++ ps.map (·.2)) := by
  induction ps generalizing acc with
  | nil => simp [encSnapRecs]
  | cons p rest ih =>
    obtain ⟨rec, r⟩ := p
    obtain ⟨hr, hid, hst, hl1, hl2, hs, hnz, hsev, hfu, hfa, hex⟩ := h (rec, r) (by simp)
    simp only at hr hid hst hl1 hl2 hs hnz hsev hfu hfa hex
    have hn0 : UInt8.ofNat r.snaps.length ≠ 0 := by
      intro h0
      have := congrArg UInt8.toNat h0
      rw [toNat_ofNat_lt hl2] at this
      have : r.snaps.length = 0 := this
      omega
    -- the encoded record, spelled out
    have henc : encSnapRecs c.didSize ((rec, r) :: rest) ++ tail =
        UInt8.ofNat rec :: (toBE 3 r.id ++ UInt8.ofNat r.status :: UInt8.ofNat r.snaps.length :: (encSnapDids c.didSize r.snaps ++ (encSnapRecs c.didSize rest ++ tail))) := by
      simp [encSnapRecs, encSnapRec]
    have hge := encSnapDids_length_ge c.didSize r.snaps hl1
    rw [henc, snapByRecordLoop]
    have t3 : (toBE 3 r.id).length = 3 := by simp
    have hlen0 : ¬ (UInt8.ofNat rec :: (toBE 3 r.id ++ UInt8.ofNat r.status :: UInt8.ofNat r.snaps.length :: (encSnapDids c.didSize r.snaps ++ (encSnapRecs c.didSize rest ++ tail)))).length = 0 := by simp
    have haz : allZero (UInt8.ofNat rec :: (toBE 3 r.id ++ UInt8.ofNat r.status :: UInt8.ofNat r.snaps.length :: (encSnapDids c.didSize r.snaps ++ (encSnapRecs c.didSize rest ++ tail)))) = false := by
      simp [allZero, hn0]
    have haz1 : allZero ((UInt8.ofNat rec :: (toBE 3 r.id ++ UInt8.ofNat r.status :: UInt8.ofNat r.snaps.length :: (encSnapDids c.didSize r.snaps ++ (encSnapRecs c.didSize rest ++ tail)))).drop 1) = false := by
      simp [allZero, hn0]
    have hlen1 : ((UInt8.ofNat rec :: (toBE 3 r.id ++ UInt8.ofNat r.status :: UInt8.ofNat r.snaps.length :: (encSnapDids c.didSize r.snaps ++ (encSnapRecs c.didSize rest ++ tail)))).length == 1) = false := by
      simp
    rw [dif_neg hlen0]
    simp only [haz, Bool.false_and, Bool.false_eq_true, if_false, hlen1, haz1, Bool.and_false, Bool.or_self]
    rw [dif_neg (by simp only [List.length_cons, List.length_append, t3]; omega), dif_neg (by simp only [List.length_cons, List.length_append, t3]; omega)]
    have i0 : idx (UInt8.ofNat rec :: (toBE 3 r.id ++ UInt8.ofNat r.status :: UInt8.ofNat r.snaps.length :: (encSnapDids c.didSize r.snaps ++ (encSnapRecs c.didSize rest ++ tail)))) 0 = .ok (UInt8.ofNat rec) := by
      simp [idx, pure, Except.pure]
    have i4 : idx (UInt8.ofNat rec :: (toBE 3 r.id ++ UInt8.ofNat r.status :: UInt8.ofNat r.snaps.length :: (encSnapDids c.didSize r.snaps ++ (encSnapRecs c.didSize rest ++ tail)))) 4 = .ok (UInt8.ofNat r.status) := by
      simp [idx, toBE, pure, Except.pure]
    have i5 : idx (UInt8.ofNat rec :: (toBE 3 r.id ++ UInt8.ofNat r.status :: UInt8.ofNat r.snaps.length :: (encSnapDids c.didSize r.snaps ++ (encSnapRecs c.didSize rest ++ tail)))) 5 = .ok (UInt8.ofNat r.snaps.length) := by
      simp [idx, toBE, pure, Except.pure]
    have hd6 : (UInt8.ofNat rec :: (toBE 3 r.id ++ UInt8.ofNat r.status :: UInt8.ofNat r.snaps.length :: (encSnapDids c.didSize r.snaps ++ (encSnapRecs c.didSize rest ++ tail)))).drop 6 =
        encSnapDids c.didSize r.snaps ++ (encSnapRecs c.didSize rest ++ tail) := by simp [toBE]
    have hd1 : be3 ((UInt8.ofNat rec :: (toBE 3 r.id ++ UInt8.ofNat r.status :: UInt8.ofNat r.snaps.length :: (encSnapDids c.didSize r.snaps ++ (encSnapRecs c.didSize rest ++ tail)))).drop 1) = r.id := by
      simp only [List.drop_succ_cons, List.drop_zero]; exact be3_toBE _ _ hid
    have hnz' : (r.snaps.length == 0) = false := by simpa using (show r.snaps.length ≠ 0 by omega)
    have hbody : ¬ (encSnapDids c.didSize r.snaps ++ (encSnapRecs c.didSize rest ++ tail)).length < c.didSize := by simp; omega
    have hbz : (c.tol && allZero (encSnapDids c.didSize r.snaps ++ (encSnapRecs c.didSize rest ++ tail))) = false := by
      rcases hnz with h | h
      · simp [h]
      · rw [allZero_append, h]; simp
    simp only [i0, i4, i5, bind, Except.bind, toNat_ofNat_lt hr, toNat_ofNat_lt hst, toNat_ofNat_lt hl2, hnz', Bool.false_eq_true, if_false, hd6, hbody, hbz,
      snapDids_roundtrip c.dids c.didSize rec r.snaps (encSnapRecs c.didSize rest ++ tail) [] hs, hd1]
    have hshort : (encSnapRecs c.didSize rest ++ tail).length <
        (UInt8.ofNat rec :: (toBE 3 r.id ++ UInt8.ofNat r.status :: UInt8.ofNat r.snaps.length :: (encSnapDids c.didSize r.snaps ++ (encSnapRecs c.didSize rest ++ tail)))).length := by
      simp only [List.length_cons, List.length_append]; omega
    rw [if_pos hshort, ih _ (fun p hp => h p (by simp [hp]))]
    have : ({ id := r.id, status := r.status, snaps := [] ++ r.snaps } : DtcRec) = r := by cases r; simp_all
    rw [this]; simp


theorem snapByRecordLoop_zeros_tolerated (c : DtcCfg) (n : Nat) (acc : List DtcRec) (ht : c.tol = true) : snapByRecordLoop c (zeros n) acc = .ok acc := by
  rw [snapByRecordLoop]
  by_cases h0 : (zeros n).length = 0
  · rw [dif_pos h0]; rfl
  · rw [dif_neg h0]; simp [ht, allZero_zeros, pure, Except.pure]

/-- with tolerance off a single trailing byte is read as a record number without DTC (the reply "no DTC stored for this record") -/
theorem snapByRecordLoop_zero1 (c : DtcCfg) (acc : List DtcRec) (ht : c.tol = false) : snapByRecordLoop c (zeros 1) acc = .ok acc := by
  rw [snapByRecordLoop]; simp [ht, zeros, pure, Except.pure]

theorem snapByRecordLoop_zeros_rejected (c : DtcCfg) (n : Nat) (acc : List DtcRec) (ht : c.tol = false) (hn : 2 ≤ n) :
    snapByRecordLoop c (zeros n) acc = .error .invalid := by
  rw [snapByRecordLoop]
  have hl : (zeros n).length = n := by simp [zeros]
  have h0 : ¬ (zeros n).length = 0 := by omega
  have h1 : ((zeros n).length == 1) = false := by simp [hl]; omega
  rw [dif_neg h0]
  simp only [ht, Bool.and_false, Bool.false_and, Bool.false_eq_true, if_false, h1, Bool.or_self]
  by_cases h5 : (zeros n).length < 5
  · rw [dif_pos h5]; rfl
  · rw [dif_neg h5]
    by_cases h6 : (zeros n).length < 6
    · rw [dif_pos h6]; rfl
    · rw [dif_neg h6]
      obtain ⟨m, rfl⟩ : ∃ m, n = m + 6 := ⟨n - 6, by omega⟩
      have : zeros (m + 6) = 0 :: 0 :: 0 :: 0 :: 0 :: 0 :: zeros m := by simp [zeros, List.replicate_succ]
      rw [this]
      simp [idx, bind, Except.bind, pure, Except.pure]

/-- **snapshot by record number (0x05), tolerated**: zero bytes after the last record change nothing -/
theorem snapRec_pad_tolerated (c : DtcCfg) (ps : List (Nat × DtcRec)) (n : Nat) (acc : List DtcRec) (ht : c.tol = true) (h : ∀ p ∈ ps, SnapRecOk c p) :
    snapByRecordLoop c (encSnapRecs c.didSize ps ++ zeros n) acc = .ok (acc ++ ps.map (·.2)) := by
  rw [snapByRecordLoop_prefix c ps _ acc h, snapByRecordLoop_zeros_tolerated c n _ ht]

/-- **not tolerated**: two or more trailing zero bytes are an invalid response -/
theorem snapRec_pad_rejected (c : DtcCfg) (ps : List (Nat × DtcRec)) (n : Nat) (acc : List DtcRec) (ht : c.tol = false) (hn : 2 ≤ n) (h : ∀ p ∈ ps, SnapRecOk c p) :
    snapByRecordLoop c (encSnapRecs c.didSize ps ++ zeros n) acc = .error .invalid := by
  rw [snapByRecordLoop_prefix c ps _ acc h, snapByRecordLoop_zeros_rejected c n _ ht hn]

/-- … while exactly one trailing byte is the record number of a further, empty record: accepted with the same content -/
theorem snapRec_pad1 (c : DtcCfg) (ps : List (Nat × DtcRec)) (acc : List DtcRec) (ht : c.tol = false) (h : ∀ p ∈ ps, SnapRecOk c p) :
    snapByRecordLoop c (encSnapRecs c.didSize ps ++ zeros 1) acc = .ok (acc ++ ps.map (·.2)) := by
  rw [snapByRecordLoop_prefix c ps _ acc h, snapByRecordLoop_zero1 c _ ht]


/-! ### RequestFileTransfer: every reply accepted without tolerance, followed by zero bytes -/

theorem idx_append {d : Bytes} (t : Bytes) {i : Nat} {b : UInt8} (h : idx d i = .ok b) : idx (d ++ t) i = .ok b := by
  unfold idx at *
  cases hd : d[i]? with
  | none => simp [hd] at h
  | some x =>
    have hi : i < d.length := by
      rcases Nat.lt_or_ge i d.length with h' | h'
      · exact h'
      · rw [List.getElem?_eq_none h'] at hd; cases hd
    rw [List.getElem?_append_left hi, hd]; simpa [hd] using h

theorem idx_lt {d : Bytes} {i : Nat} {b : UInt8} (h : idx d i = .ok b) : i < d.length := by
  unfold idx at h
  rcases Nat.lt_or_ge i d.length with h' | h'
  · exact h'
  · rw [List.getElem?_eq_none h'] at h; cases h

theorem readUIntAt_append {d : Bytes} (t : Bytes) {off n v : Nat} (h : readUIntAt d off n = .ok v) : readUIntAt (d ++ t) off n = .ok v := by
  unfold readUIntAt at *
  by_cases hle : off + n ≤ d.length
  · rw [if_pos hle] at h
    rw [if_pos (by simp; omega)]
    have : ((d ++ t).drop off).take n = (d.drop off).take n := by
      rw [List.drop_append_of_le_length (by omega), List.take_append_of_le_length (by simp; omega)]
    rw [this]; exact h
  · rw [if_neg hle] at h; cases h

theorem readUIntAt_le {d : Bytes} {off n v : Nat} (h : readUIntAt d off n = .ok v) : off + n ≤ d.length := by
  unfold readUIntAt at h
  by_cases hle : off + n ≤ d.length
  · exact hle
  · rw [if_neg hle] at h; cases h

theorem rftMaxLen_append (moop : Nat) {d : Bytes} (t : Bytes) {p : Option Nat × Nat} (h1 : 1 ≤ d.length) (h : rftMaxLen moop d = .ok p) :
    rftMaxLen moop (d ++ t) = .ok p ∧ p.2 ≤ d.length := by
  unfold rftMaxLen at *
  by_cases hm : rftHasLfid moop = true
  · simp only [hm, if_true, bind_ok, guardPy_ok, pure_ok] at h ⊢
    obtain ⟨_, h1, l, hl, _, h2, _, h3, _, h4, v, hv, hp⟩ := h
    refine ⟨⟨(), ?_, l, idx_append t hl, (), h2, (), h3, (), ?_, v, readUIntAt_append t hv, hp⟩, ?_⟩
    · simp at h1 ⊢; omega
    · simp at h4 ⊢; omega
    · have := readUIntAt_le hv; rw [← hp]; simpa using this
  · have hm' : rftHasLfid moop = false := by simpa using hm
    simp only [hm', Bool.false_eq_true, if_false, pure_ok] at h ⊢
    exact ⟨h, by rw [← h]; exact h1⟩

theorem rftDfiEcho_append (moop : Nat) {d : Bytes} (t : Bytes) {c1 : Nat} {p : Option Nat × Nat} (hc : c1 ≤ d.length) (h : rftDfiEcho moop d c1 = .ok p) :
    rftDfiEcho moop (d ++ t) c1 = .ok p ∧ p.2 ≤ d.length := by
  unfold rftDfiEcho at *
  by_cases hm : rftHasLfid moop = true
  · simp only [hm, if_true, bind_ok, guardPy_ok, pure_ok] at h ⊢
    obtain ⟨_, h1, b, hb, _, h2, hp⟩ := h
    refine ⟨⟨(), ?_, b, idx_append t hb, (), h2, hp⟩, ?_⟩
    · simp at h1 ⊢; omega
    · have := idx_lt hb; rw [← hp]; simp; omega
  · have hm' : rftHasLfid moop = false := by simpa using hm
    simp only [hm', Bool.false_eq_true, if_false, pure_ok] at h ⊢
    exact ⟨h, by rw [← h]; exact hc⟩

theorem take2_append {d : Bytes} (t : Bytes) {c : Nat} (h : c + 2 ≤ d.length) : ((d ++ t).drop c).take 2 = (d.drop c).take 2 := by
  rw [List.drop_append_of_le_length (by omega), List.take_append_of_le_length (by simp; omega)]

theorem rftSizes_append (moop : Nat) {d : Bytes} (t : Bytes) {c2 : Nat} {p : Option Nat × Option Nat × Nat} (hc : c2 ≤ d.length) (h : rftSizes moop d c2 = .ok p) :
    rftSizes moop (d ++ t) c2 = .ok p ∧ p.2.2 ≤ d.length := by
  unfold rftSizes at *
  by_cases hm : (moop == 4 || moop == 5) = true
  · simp only [hm, if_true, bind_ok, guardPy_ok] at h ⊢
    obtain ⟨_, h1, n, hn, _, h2, _, h3, _, h4, u, hu, hrest⟩ := h
    have h1' : c2 + 2 ≤ d.length := by simp at h1; omega
    refine ⟨⟨(), by simp at h1 ⊢; omega, n, by rw [take2_append t h1']; exact hn, (), h2, (), h3, (), by simp at h4 ⊢; omega, u, readUIntAt_append t hu, ?_⟩, ?_⟩
    · by_cases h44 : (moop == 4) = true
      · simp only [h44, if_true, bind_ok, guardPy_ok, pure_ok] at hrest ⊢
        obtain ⟨_, h5, c, hcc, hp⟩ := hrest
        exact ⟨(), by simp at h5 ⊢; omega, c, readUIntAt_append t hcc, hp⟩
      · have h44' : (moop == 4) = false := by simpa using h44
        simp only [h44', Bool.false_eq_true, if_false] at hrest ⊢
        exact hrest
    · by_cases h44 : (moop == 4) = true
      · simp only [h44, if_true, bind_ok, guardPy_ok, pure_ok] at hrest
        obtain ⟨_, h5, c, hcc, hp⟩ := hrest
        have := readUIntAt_le hcc; rw [← hp]; simpa using this
      · have h44' : (moop == 4) = false := by simpa using h44
        simp only [h44', Bool.false_eq_true, if_false, pure_ok] at hrest
        have := readUIntAt_le hu; rw [← hrest]; simpa using this
  · have hm' : (moop == 4 || moop == 5) = false := by simpa using hm
    simp only [hm', Bool.false_eq_true, if_false, pure_ok] at h ⊢
    exact ⟨h, by rw [← h]; exact hc⟩

theorem rftFilePos_append (moop : Nat) {d : Bytes} (t : Bytes) {c3 : Nat} {p : Option Nat × Nat} (hc : c3 ≤ d.length) (h : rftFilePos moop d c3 = .ok p) :
    rftFilePos moop (d ++ t) c3 = .ok p ∧ p.2 ≤ d.length := by
  unfold rftFilePos at *
  by_cases hm : (moop == 6) = true
  · simp only [hm, if_true, bind_ok, guardPy_ok, pure_ok] at h ⊢
    obtain ⟨_, h1, v, hv, hp⟩ := h
    refine ⟨⟨(), by simp at h1 ⊢; omega, v, readUIntAt_append t hv, hp⟩, ?_⟩
    have := readUIntAt_le hv; rw [← hp]; simpa using this
  · have hm' : (moop == 6) = false := by simpa using hm
    simp only [hm', Bool.false_eq_true, if_false, pure_ok] at h ⊢
    exact ⟨h, by rw [← h]; exact hc⟩

theorem allZero_drop_append_zeros (d : Bytes) (n k : Nat) (hk : d.length ≤ k) : allZero ((d ++ zeros n).drop k) = true := by
  rw [List.drop_append, List.drop_of_length_le hk, List.nil_append]
  simp [allZero, zeros, List.drop_replicate]

/-- every sub-parser of a reply accepted with tolerance off reads the same from the padded reply, and the cursor ends exactly at the end of the reply -/
theorem rft_parts_append {d : Bytes} {v : SData} (t : Bytes) (h : rftInterpret false d = .ok v) :
    ∃ m p1 p2 p3 p4, idx (d ++ t) 0 = .ok m ∧ 1 ≤ d.length ∧
      rftMaxLen m.toNat (d ++ t) = .ok p1 ∧ rftDfiEcho m.toNat (d ++ t) p1.2 = .ok p2 ∧ rftSizes m.toNat (d ++ t) p2.2 = .ok p3 ∧ rftFilePos m.toNat (d ++ t) p3.2.2 = .ok p4 ∧
      p4.2 = d.length ∧
      v = .rft m.toNat p1.1 p2.1 (if m.toNat == 4 then p3.1.map (fun u => (u, p3.2.1)) else none) (if m.toNat == 5 then p3.1 else none) p4.1 := by
  simp only [rftInterpret, bind_ok, guardPy_ok, pure_ok] at h
  obtain ⟨_, h0, m, hm, p1, h1, p2, h2, p3, h3, p4, h4, _, hg, hv⟩ := h
  have hlen : 1 ≤ d.length := by have := idx_lt hm; omega
  obtain ⟨a1, b1⟩ := rftMaxLen_append m.toNat t hlen h1
  obtain ⟨a2, b2⟩ := rftDfiEcho_append m.toNat t b1 h2
  obtain ⟨a3, b3⟩ := rftSizes_append m.toNat t b2 h3
  obtain ⟨a4, b4⟩ := rftFilePos_append m.toNat t b3 h4
  refine ⟨m, p1, p2, p3, p4, idx_append t hm, hlen, a1, a2, a3, a4, ?_, hv.symm⟩
  have : ¬ d.length > p4.2 := by intro hgt; simp [hgt] at hg
  omega

/-- **tolerated**: a RequestFileTransfer reply accepted as it stands is accepted with the same content when any number of zero bytes follow -/
theorem rft_pad_tolerated (d : Bytes) (v : SData) (n : Nat) (h : rftInterpret false d = .ok v) : rftInterpret true (d ++ zeros n) = .ok v := by
  obtain ⟨m, p1, p2, p3, p4, hm, hlen, a1, a2, a3, a4, hc, hv⟩ := rft_parts_append (zeros n) h
  simp only [rftInterpret, bind_ok, guardPy_ok, pure_ok]
  have hl : (d ++ zeros n).length = d.length + n := by simp [zeros]
  refine ⟨(), decide_eq_false (by rw [hl]; omega), m, hm, p1, a1, p2, a2, p3, a3, p4, a4, (), ?_, hv.symm⟩
  rw [allZero_drop_append_zeros d n p4.2 (by omega)]; simp

/-- **not tolerated**: the same reply followed by at least one zero byte is an invalid response -/
theorem rft_pad_rejected (d : Bytes) (v : SData) (n : Nat) (hn : 0 < n) (h : rftInterpret false d = .ok v) : rftInterpret false (d ++ zeros n) = .error .invalid := by
  obtain ⟨m, p1, p2, p3, p4, hm, hlen, a1, a2, a3, a4, hc, hv⟩ := rft_parts_append (zeros n) h
  have hl : (d ++ zeros n).length = d.length + n := by simp [zeros]
  have hg0 : guardPy (decide ((d ++ zeros n).length < 1)) PyErr.invalid = .ok () := guardPy_ok.2 (decide_eq_false (by rw [hl]; omega))
  have hlast : (decide ((d ++ zeros n).length > p4.2) && !(allZero ((d ++ zeros n).drop p4.2) && false)) = true := by
    have : decide ((d ++ zeros n).length > p4.2) = true := decide_eq_true (by rw [hl]; omega)
    rw [this]; simp
  simp only [rftInterpret, hg0, hm, a1, a2, a3, a4, hlast, bind, Except.bind]
  rfl

/-- tolerance never changes what an unpadded reply decodes to -/
theorem rft_tol_irrelevant_unpadded (d : Bytes) (v : SData) (h : rftInterpret false d = .ok v) : rftInterpret true d = .ok v := by
  have := rft_pad_tolerated d v 0 h
  simpa [zeros] using this

/-- the client call: same verdict and content for the padded reply under tolerance as for the reply itself -/
theorem rftClient_pad_tolerated (moop : Nat) (dfi : Option Nat) (d : Bytes) (v : SData) (n : Nat) (h : rftInterpret false d = .ok v) :
    rftClient moop dfi true (d ++ zeros n) = rftClient moop dfi false d := by
  unfold rftClient; rw [rft_pad_tolerated d v n h, h]; cases v <;> rfl

example : rftInterpret false (encRftHead 1 2 0x1000 0) = .ok (.rft 1 (some 0x1000) (some 0) none none none) :=
  rft_roundtrip_head 1 2 0x1000 0 false (Or.inl rfl) (by decide) (by decide) (by decide)


/-! ### extended data by record number (0x16) followed by zero bytes -/

theorem extByRecordLoop_prefix (c : DtcCfg) (rec : Nat) (rs : List DtcRec) (tail : Bytes) (seen : List Nat) (acc : List DtcRec)
    (h : ∀ r ∈ rs, ExtRecOk c rec r) (hnd : (seen ++ rs.map (·.id)).Nodup) :
    extByRecordLoop c rec (encExtRecs rs ++ tail) seen acc = extByRecordLoop c rec tail ((rs.map (·.id)).reverse ++ seen) (acc ++ rs) := by
  induction rs generalizing seen acc with
  | nil => simp [encExtRecs]
  | cons r rest ih =>
    obtain ⟨hid, hst, ⟨data, hext, hsz⟩, hnz, hsev, hfu, hfa, hsn⟩ := h r (by simp)
    have henc : encExtRecs (r :: rest) ++ tail = toBE 3 r.id ++ (UInt8.ofNat r.status :: (data ++ (encExtRecs rest ++ tail))) := by
      simp [encExtRecs, encExtRec, hext]
    have hrec : encExtRec r = toBE 3 r.id ++ (UInt8.ofNat r.status :: data) := by simp [encExtRec, hext]
    have haz : allZero (encExtRecs (r :: rest) ++ tail) = false := by
      have : encExtRecs (r :: rest) ++ tail = encExtRec r ++ (encExtRecs rest ++ tail) := by simp [encExtRecs]
      rw [this, allZero_append, hnz]; rfl
    rw [extByRecordLoop]
    have hlen0 : ¬ (encExtRecs (r :: rest) ++ tail).length = 0 := by rw [henc]; simp
    rw [dif_neg hlen0]
    simp only [haz, Bool.false_and, Bool.false_eq_true, if_false]
    have hlen4 : ¬ (encExtRecs (r :: rest) ++ tail).length < 4 := by rw [henc]; simp; omega
    rw [dif_neg hlen4]
    have hbe : be3 (encExtRecs (r :: rest) ++ tail) = r.id := by rw [henc]; exact be3_toBE _ _ hid
    have hnot : seen.contains r.id = false := by
      rw [List.map_cons] at hnd
      have := (List.nodup_append.1 hnd).2.2
      cases hc : seen.contains r.id with
      | false => rfl
      | true =>
        exfalso
        rw [List.contains_iff_mem] at hc
        exact this r.id hc r.id (by simp) rfl
    have i3 : idx (encExtRecs (r :: rest) ++ tail) 3 = .ok (UInt8.ofNat r.status) := by rw [henc]; simp [idx, toBE, pure, Except.pure]
    have hd4 : (encExtRecs (r :: rest) ++ tail).drop 4 = data ++ (encExtRecs rest ++ tail) := by rw [henc]; simp [toBE]
    simp only [hbe, hnot, Bool.false_eq_true, if_false, i3, hsz, bind, Except.bind, hd4, toNat_ofNat_lt hst]
    have h1 : ¬ (data ++ (encExtRecs rest ++ tail)).length < data.length := by simp
    rw [if_neg h1]
    have h2 : (data ++ (encExtRecs rest ++ tail)).take data.length = data := by simp
    have h3 : (data ++ (encExtRecs rest ++ tail)).drop data.length = encExtRecs rest ++ tail := by simp
    rw [h2, h3]
    have hnd' : ((r.id :: seen) ++ rest.map (·.id)).Nodup := by
      rw [List.map_cons] at hnd
      obtain ⟨n1, n2, n3⟩ := List.nodup_append.1 hnd
      obtain ⟨m1, m2⟩ := List.nodup_cons.1 n2
      rw [List.cons_append, List.nodup_cons]
      refine ⟨?_, List.nodup_append.2 ⟨n1, m2, fun a ha b hb => n3 a ha b (List.mem_cons_of_mem _ hb)⟩⟩
      intro hm
      rcases List.mem_append.1 hm with hm | hm
      · exact n3 r.id hm r.id (by simp) rfl
      · exact m1 hm
    rw [ih _ _ (fun x hx => h x (by simp [hx])) hnd']
    have : ({ id := r.id, status := r.status, ext := [(rec, data)] } : DtcRec) = r := by cases r; simp_all
    rw [this]; simp


/-- whether an all-zero tail of `n` bytes is read as a record of DTC 0: its size is configured, a whole record fits, and all-zero DTCs are not ignored -/
def zeroRead (c : DtcCfg) (n : Nat) : Bool :=
  match extSizeFor c.ext 0 with
  | .ok z => decide (n ≥ z + 4) && !c.ign
  | .error _ => false

theorem ext16_zeros_not_read (c : DtcCfg) (rec n : Nat) (seen : List Nat) (acc : List DtcRec) (hz : zeroRead c n = false) :
    extByRecordLoop c rec (zeros n) seen acc = if n = 0 then .ok acc else if c.tol then .ok acc else .error .invalid := by
  rw [extByRecordLoop]
  have hl : (zeros n).length = n := by simp [zeros]
  by_cases h0 : n = 0
  · rw [dif_pos (by rw [hl]; exact h0), if_pos h0]; rfl
  · rw [dif_neg (by rw [hl]; exact h0), if_neg h0]
    unfold zeroRead at hz
    cases hs : extSizeFor c.ext 0 with
    | error e =>
      simp only [hs, allZero_zeros, Bool.not_false, Bool.and_self, if_true]
      cases c.tol <;> rfl
    | ok z =>
      rw [hs] at hz
      simp only [hs, hl, hz, allZero_zeros, Bool.not_false, Bool.and_self, if_true]
      cases c.tol <;> rfl

/-- **tolerated** (0x16): zero bytes that are not read as a record of DTC 0 change nothing -/
theorem ext16_pad_tolerated (c : DtcCfg) (rec : Nat) (rs : List DtcRec) (n : Nat) (ht : c.tol = true) (hz : zeroRead c n = false)
    (h : ∀ r ∈ rs, ExtRecOk c rec r) (hnd : (rs.map (·.id)).Nodup) :
    extByRecordLoop c rec (encExtRecs rs ++ zeros n) [] [] = .ok rs := by
  rw [extByRecordLoop_prefix c rec rs _ [] [] h (by simpa using hnd), ext16_zeros_not_read c rec n _ _ hz]
  simp [ht]

/-- **not tolerated** (0x16): the same bytes make the reply invalid -/
theorem ext16_pad_rejected (c : DtcCfg) (rec : Nat) (rs : List DtcRec) (n : Nat) (ht : c.tol = false) (hn : 0 < n) (hz : zeroRead c n = false)
    (h : ∀ r ∈ rs, ExtRecOk c rec r) (hnd : (rs.map (·.id)).Nodup) :
    extByRecordLoop c rec (encExtRecs rs ++ zeros n) [] [] = .error .invalid := by
  rw [extByRecordLoop_prefix c rec rs _ [] [] h (by simpa using hnd), ext16_zeros_not_read c rec n _ _ hz]
  simp [ht]; omega

/-- one whole all-zero record with `ignore_all_zero_dtc` off is read as DTC 0, and what follows it is again a zero tail -/
theorem ext16_zero_record (c : DtcCfg) (rec z n : Nat) (seen : List Nat) (acc : List DtcRec) (hs : extSizeFor c.ext 0 = .ok z) (hi : c.ign = false)
    (hn : z + 4 ≤ n) (hseen : seen.contains 0 = false) :
    extByRecordLoop c rec (zeros n) seen acc =
      extByRecordLoop c rec (zeros (n - (z + 4))) (0 :: seen) (acc ++ [{ id := 0, status := 0, ext := [(rec, zeros z)] }]) := by
  rw [extByRecordLoop]
  have hl : (zeros n).length = n := by simp [zeros]
  rw [dif_neg (by rw [hl]; omega)]
  have hzr : (decide (n ≥ z + 4) && !c.ign) = true := by simp [hi]; omega
  simp only [hs, hl, hzr, Bool.not_true, Bool.and_false, Bool.false_eq_true, if_false]
  rw [dif_neg (by omega)]
  obtain ⟨m, rfl⟩ : ∃ m, n = m + 4 := ⟨n - 4, by omega⟩
  have hz4 : zeros (m + 4) = 0 :: 0 :: 0 :: 0 :: zeros m := by simp [zeros, List.replicate_succ]
  have hbe : be3 (zeros (m + 4)) = 0 := by rw [hz4]; rfl
  have i3 : idx (zeros (m + 4)) 3 = .ok 0 := by rw [hz4]; rfl
  have hd4 : (zeros (m + 4)).drop 4 = zeros m := by rw [hz4]; rfl
  simp only [hbe, hseen, Bool.false_eq_true, if_false, i3, hs, bind, Except.bind, hd4]
  have h1 : ¬ (zeros m).length < z := by simp [zeros]; omega
  rw [if_neg h1]
  have h2 : (zeros m).take z = zeros z := by simp [zeros, List.take_replicate]; omega
  have h3 : (zeros m).drop z = zeros (m + 4 - (z + 4)) := by simp [zeros, List.drop_replicate]
  rw [h2, h3]; rfl

/-- **known finding, as a theorem about the model**: two whole all-zero records with `ignore_all_zero_dtc` off are refused (the second DTC 0 is taken
    for a duplicate), whatever `tolerate_zero_padding` says -/
theorem ext16_two_zero_records_refused (c : DtcCfg) (rec z n : Nat) (seen : List Nat) (acc : List DtcRec) (hs : extSizeFor c.ext 0 = .ok z) (hi : c.ign = false)
    (hn : 2 * (z + 4) ≤ n) (hseen : seen.contains 0 = false) :
    extByRecordLoop c rec (zeros n) seen acc = .error .invalid := by
  rw [ext16_zero_record c rec z n seen acc hs hi (by omega) hseen, extByRecordLoop]
  have hl : (zeros (n - (z + 4))).length = n - (z + 4) := by simp [zeros]
  rw [dif_neg (by rw [hl]; omega)]
  have hzr : (decide (n - (z + 4) ≥ z + 4) && !c.ign) = true := by simp [hi]; omega
  simp only [hs, hl, hzr, Bool.not_true, Bool.and_false, Bool.false_eq_true, if_false]
  rw [dif_neg (by omega)]
  obtain ⟨m, hm⟩ : ∃ m, n - (z + 4) = m + 4 := ⟨n - (z + 4) - 4, by omega⟩
  rw [hm]
  have hz4 : zeros (m + 4) = 0 :: 0 :: 0 :: 0 :: zeros m := by simp [zeros, List.replicate_succ]
  have hbe : be3 (zeros (m + 4)) = 0 := by rw [hz4]; rfl
  simp [hbe]

/-- exactly one whole all-zero record (plus a shorter zero tail) with `ignore_all_zero_dtc` off: one more DTC 0, the tail handled as padding -/
theorem ext16_one_zero_record (c : DtcCfg) (rec z n : Nat) (seen : List Nat) (acc : List DtcRec) (hs : extSizeFor c.ext 0 = .ok z) (hi : c.ign = false)
    (hn : z + 4 ≤ n) (hn2 : n < 2 * (z + 4)) (hseen : seen.contains 0 = false) :
    extByRecordLoop c rec (zeros n) seen acc =
      if n = z + 4 ∨ c.tol = true then .ok (acc ++ [{ id := 0, status := 0, ext := [(rec, zeros z)] }]) else .error .invalid := by
  rw [ext16_zero_record c rec z n seen acc hs hi hn hseen]
  have hz : zeroRead c (n - (z + 4)) = false := by
    unfold zeroRead; rw [hs]; simp; intro h; omega
  rw [ext16_zeros_not_read c rec _ _ _ hz]
  by_cases h0 : n - (z + 4) = 0
  · rw [if_pos h0, if_pos (Or.inl (by omega))]
  · rw [if_neg h0]
    cases ht : c.tol with
    | true => simp
    | false => rw [if_neg (by simp), if_neg (by simp; omega)]


/-! ### non-vacuity -/
example : recordLoop true false false false false (encRecs false [{ id := 0x123456, status := 0x78 }] ++ zeros 5) [] =
    .ok [{ id := 0x123456, status := 0x78 }, { id := 0 }] := by
  have := records_pad_tolerated false false false false [{ id := 0x123456, status := 0x78 }] 5 []
    (by intro r hr; simp at hr; subst hr; exact ⟨⟨by decide, by decide, rfl, rfl, rfl, by simp⟩, by unfold recNonZero; decide⟩)
  simpa [recSize, zeroRec] using this

end Uds.Props.C11
