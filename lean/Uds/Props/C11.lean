import Uds.Lemmas.Loops
import Uds.Props.C02
/-
  C11 — zero padding: trailing zeros are ignored when tolerated, rejected when not.
  For any well-formed reply `enc v` and any number `n` of appended zero bytes.
-/
namespace Uds.Props.C11
open Uds Uds.Model Uds.Spec Uds.Props.C02

/-! ### ReadDTCInformation, availability-mask groups (records of 4 / 6 bytes) -/

/-- **tolerated**: the decoded records are those encoded; with `ignore_all_zero_dtc` off each *whole* all-zero record of the padding
    is one more record (DTC 0), and a remaining partial record is dropped — for every record list and every `n` -/
theorem records_pad_tolerated (ign six sf09 first : Bool) (rs : List DtcRec) (n : Nat) (acc : List DtcRec)
    (hr : ∀ r ∈ rs, RecOk six r ∧ recNonZero six ign r) :
    recordLoop true ign six sf09 first (encRecs six rs ++ zeros n) acc =
      .ok (acc.reverse ++ rs ++ (if ign then [] else List.replicate (n / recSize six) (zeroRec six))) := by
  rw [recordLoop_prefix true ign six sf09 first rs (zeros n) acc hr, recordLoop_zeros]
  simp

/-- **not tolerated**: trailing zeros that do not form whole records make the reply invalid (any sub-function of the groups except
    reportSeverityInformationOfDTC, which by design ignores an incomplete second record) -/
theorem records_pad_rejected (ign six first : Bool) (rs : List DtcRec) (n : Nat) (acc : List DtcRec)
    (hr : ∀ r ∈ rs, RecOk six r ∧ recNonZero six ign r) (hn : n % recSize six ≠ 0) :
    recordLoop false ign six false first (encRecs six rs ++ zeros n) acc = .error .invalid := by
  rw [recordLoop_prefix false ign six false first rs (zeros n) acc hr]
  exact recordLoop_zeros_rejected ign six _ n _ hn

/-- with tolerance off, whole all-zero records are still records (or skipped when `ignore_all_zero_dtc`): only *incomplete* ones are refused -/
theorem records_whole_zero_records (ign six first : Bool) (rs : List DtcRec) (k : Nat) (acc : List DtcRec)
    (hr : ∀ r ∈ rs, RecOk six r ∧ recNonZero six ign r) :
    ∃ out, recordLoop false ign six false first (encRecs six rs ++ zeros (k * recSize six)) acc = .ok out := by
  rw [recordLoop_prefix false ign six false first rs _ acc hr]
  generalize (first && rs.isEmpty) = f
  generalize (rs.reverse ++ acc) = a
  induction k generalizing a f with
  | zero => simp [zeros, recordLoop_nil]
  | succ k ih =>
    have hpos : 0 < recSize six := by unfold recSize; split <;> omega
    rw [recordLoop]
    have hsz : (if six = true then 6 else 4) = recSize six := rfl
    have hlen : (zeros ((k + 1) * recSize six)).length = (k + 1) * recSize six := zeros_length _
    have hge : recSize six ≤ (k + 1) * recSize six := by rw [Nat.add_mul]; omega
    have h0 : ¬ (zeros ((k + 1) * recSize six)).length = 0 := by rw [hlen]; omega
    have h1 : ¬ (zeros ((k + 1) * recSize six)).length < (if six = true then 6 else 4) := by rw [hlen, hsz]; omega
    rw [dif_neg h0, dif_neg h1]
    simp only [hsz, zeros_take, zeros_drop, Nat.min_eq_left hge, allZero_zeros, Bool.true_and]
    have hsub : (k + 1) * recSize six - recSize six = k * recSize six := by rw [Nat.add_mul]; omega
    rw [hsub]
    cases ign
    · simp only [Bool.false_eq_true, if_false, mkRec_zeros, bind, Except.bind]; exact ih _ _
    · simp only [if_true]; exact ih _ _

/-! ### ReadMemoryByAddress (client-side trimming) -/

theorem len_pad (data : Bytes) (n : Nat) : (data ++ zeros n).length = data.length + n := by
  rw [List.length_append, zeros_length]

theorem readmem_pad_tolerated (data : Bytes) (n : Nat) (h : 1 ≤ data.length) :
    readMemClient data.length true (data ++ zeros n) = .ok (.readMem data) := by
  unfold readMemClient readMemInterpret
  have hg : guardPy (decide ((data ++ zeros n).length < 1)) PyErr.invalid = .ok () :=
    guardPy_ok.2 (by rw [decide_eq_false_iff_not, len_pad]; omega)
  simp only [hg, bind, Except.bind, pure, Except.pure]
  have h1 : ¬ (data ++ zeros n).length < data.length := by rw [len_pad]; omega
  rw [if_neg h1]
  by_cases hn : n = 0
  · subst hn
    have h2 : ¬ (data ++ zeros 0).length > data.length := by rw [len_pad]; omega
    rw [if_neg h2]; simp [zeros]
  · have h2 : (data ++ zeros n).length > data.length := by rw [len_pad]; omega
    rw [if_pos h2]
    have hd : (data ++ zeros n).drop data.length = zeros n := by
      rw [List.drop_append_of_le_length (Nat.le_refl _), List.drop_of_length_le (Nat.le_refl _)]; rfl
    have ht : (data ++ zeros n).take data.length = data := by
      rw [List.take_append_of_le_length (Nat.le_refl _), List.take_of_length_le (Nat.le_refl _)]
    rw [hd, ht, allZero_zeros]; rfl

theorem readmem_pad_rejected (data : Bytes) (n : Nat) (h : 1 ≤ data.length) (hn : 0 < n) :
    readMemClient data.length false (data ++ zeros n) = .error .unexpected := by
  unfold readMemClient readMemInterpret
  have hg : guardPy (decide ((data ++ zeros n).length < 1)) PyErr.invalid = .ok () :=
    guardPy_ok.2 (by rw [decide_eq_false_iff_not, len_pad]; omega)
  have h1 : ¬ (data ++ zeros n).length < data.length := by rw [len_pad]; omega
  have h2 : (data ++ zeros n).length > data.length := by rw [len_pad]; omega
  simp only [hg, bind, Except.bind, pure, Except.pure]
  rw [if_neg h1, if_pos h2]
  simp

/-! ### InputOutputControlByIdentifier (fixed-length codec) -/

theorem io_pad_tolerated (e : IoEntry) (did : Nat) (cp : Option Nat) (data : Bytes) (n : Nat) (hl : e.codecLen = some data.length) :
    ioDecode e true did cp (data ++ zeros n) = .ok (.io did cp (some data)) := by
  unfold ioDecode
  simp only [hl]
  have hd : (data ++ zeros n).drop data.length = zeros n := by
    rw [List.drop_append_of_le_length (Nat.le_refl _), List.drop_of_length_le (Nat.le_refl _)]; rfl
  have ht : (data ++ zeros n).take data.length = data := by
    rw [List.take_append_of_le_length (Nat.le_refl _), List.take_of_length_le (Nat.le_refl _)]
  by_cases hn : n = 0
  · subst hn
    have : ¬ (data ++ zeros 0).length > data.length := by rw [len_pad]; omega
    have hz : data ++ zeros 0 = data := by simp [zeros]
    rw [hz]
    have hlt : ¬ data.length > data.length := by omega
    simp only [decide_eq_false hlt, Bool.false_and, Bool.false_eq_true, if_false, if_true]; rfl
  · have : (data ++ zeros n).length > data.length := by rw [len_pad]; omega
    simp only [decide_eq_true this, hd, allZero_zeros, Bool.and_self, if_true, ht]; rfl

theorem io_pad_rejected (e : IoEntry) (did : Nat) (cp : Option Nat) (data : Bytes) (n : Nat) (hl : e.codecLen = some data.length) (hn : 0 < n) :
    ioDecode e false did cp (data ++ zeros n) = .error .invalid := by
  unfold ioDecode
  simp only [hl, Bool.and_false, Bool.false_eq_true, if_false]
  have : ¬ (data ++ zeros n).length = data.length := by rw [len_pad]; omega
  rw [if_neg this]; rfl

/-! ### WWH-OBD records (0x42 / 0x55) followed by zero bytes -/

theorem wwhLoop_prefix (tol ign : Bool) (rs : List DtcRec) (tail : Bytes) (acc : List DtcRec) (hr : ∀ r ∈ rs, WwhOk r ∧ wwhNonZero ign r) :
    wwhLoop tol ign (encWwhs rs ++ tail) acc = wwhLoop tol ign tail (acc ++ rs) := by
  induction rs generalizing acc with
  | nil => simp [encWwhs]
  | cons r rest ih =>
    simp only [encWwhs, List.append_assoc]
    rw [wwhLoop_cons _ _ _ _ _ (hr r (by simp)).1 (hr r (by simp)).2, ih _ (fun x hx => hr x (by simp [hx]))]
    simp

def zeroWwh : DtcRec := { id := 0 }

theorem wwhLoop_zeros (ign : Bool) (n : Nat) (acc : List DtcRec) :
    wwhLoop true ign (zeros n) acc = .ok (acc ++ (if ign then [] else List.replicate (n / 5) zeroWwh)) := by
  induction n using Nat.strongRecOn generalizing acc with
  | _ n ih =>
    rw [wwhLoop]
    by_cases h0 : n = 0
    · subst h0; simp [zeros_length]
    · have h0' : ¬ (zeros n).length = 0 := by simpa [zeros_length] using h0
      rw [dif_neg h0']
      by_cases h1 : n < 5
      · have h1' : (zeros n).length < 5 := by simpa [zeros_length] using h1
        rw [dif_pos h1']
        simp [allZero_zeros, Nat.div_eq_of_lt h1]
      · have h1' : ¬ (zeros n).length < 5 := by simpa [zeros_length] using h1
        rw [dif_neg h1']
        simp only [zeros_take, zeros_drop, Nat.min_eq_left (Nat.le_of_not_lt h1), allZero_zeros, Bool.true_and]
        have hdiv : n / 5 = (n - 5) / 5 + 1 := by omega
        cases ign
        · simp only [Bool.false_eq_true, if_false]
          simp only [bind, Except.bind]
          have i0 : idx (zeros 5) 0 = .ok 0 := by decide
          have i4 : idx (zeros 5) 4 = .ok 0 := by decide
          simp only [i0, i4]
          rw [ih (n - 5) (by omega)]
          simp only [Bool.false_eq_true, if_false, hdiv, List.replicate_succ, List.append_assoc, List.singleton_append]
          rfl
        · simp only [if_true]
          rw [ih (n - 5) (by omega)]
          simp

theorem wwhLoop_zeros_rejected (ign : Bool) (n : Nat) (acc : List DtcRec) (hn : n % 5 ≠ 0) :
    wwhLoop false ign (zeros n) acc = .error .invalid := by
  induction n using Nat.strongRecOn generalizing acc with
  | _ n ih =>
    rw [wwhLoop]
    have h0 : n ≠ 0 := by intro h; subst h; simp at hn
    have h0' : ¬ (zeros n).length = 0 := by simpa [zeros_length] using h0
    rw [dif_neg h0']
    by_cases h1 : n < 5
    · have h1' : (zeros n).length < 5 := by simpa [zeros_length] using h1
      rw [dif_pos h1']; simp
    · have h1' : ¬ (zeros n).length < 5 := by simpa [zeros_length] using h1
      rw [dif_neg h1']
      simp only [zeros_take, zeros_drop, Nat.min_eq_left (Nat.le_of_not_lt h1), allZero_zeros, Bool.true_and]
      have hmod : (n - 5) % 5 ≠ 0 := by omega
      cases ign
      · simp only [Bool.false_eq_true, if_false]
        have i0 : idx (zeros 5) 0 = .ok 0 := by decide
        have i4 : idx (zeros 5) 4 = .ok 0 := by decide
        simp only [i0, i4, bind, Except.bind]
        exact ih (n - 5) (by omega) _ hmod
      · simp only [if_true]
        exact ih (n - 5) (by omega) _ hmod

/-- **WWH-OBD, tolerated** -/
theorem wwh_pad_tolerated (ign : Bool) (rs : List DtcRec) (n : Nat) (acc : List DtcRec) (hr : ∀ r ∈ rs, WwhOk r ∧ wwhNonZero ign r) :
    wwhLoop true ign (encWwhs rs ++ zeros n) acc = .ok (acc ++ rs ++ (if ign then [] else List.replicate (n / 5) zeroWwh)) := by
  rw [wwhLoop_prefix true ign rs (zeros n) acc hr, wwhLoop_zeros]

/-- **WWH-OBD, not tolerated**: zero bytes that do not form whole records are refused -/
theorem wwh_pad_rejected (ign : Bool) (rs : List DtcRec) (n : Nat) (acc : List DtcRec) (hr : ∀ r ∈ rs, WwhOk r ∧ wwhNonZero ign r) (hn : n % 5 ≠ 0) :
    wwhLoop false ign (encWwhs rs ++ zeros n) acc = .error .invalid := by
  rw [wwhLoop_prefix false ign rs (zeros n) acc hr]; exact wwhLoop_zeros_rejected ign n _ hn

/-! ### fault-detection counters (0x14) followed by zero bytes -/

theorem faultLoop_prefix (tol ign : Bool) (rs : List DtcRec) (tail : Bytes) (acc : List DtcRec) (hr : ∀ r ∈ rs, FaultOk r ∧ faultNonZero ign r) :
    g3Loop tol ign false (encFaults rs ++ tail) acc = g3Loop tol ign false tail (acc ++ rs) := by
  induction rs generalizing acc with
  | nil => simp [encFaults]
  | cons r rest ih =>
    obtain ⟨⟨hid, ⟨f, hf, hf256⟩, hst, hsev, hfu, hs, he⟩, hnz⟩ := hr r (by simp)
    simp only [encFaults, List.append_assoc]
    rw [g3Loop]
    have hl := encFault_length r
    have h0 : ¬ (encFault r ++ (encFaults rest ++ tail)).length = 0 := by simp [hl]
    have h1 : ¬ (encFault r ++ (encFaults rest ++ tail)).length < 4 := by simp [hl]
    have ht : (encFault r ++ (encFaults rest ++ tail)).take 4 = encFault r := by
      rw [List.take_append_of_le_length (by omega), List.take_of_length_le (by omega)]
    have hdp : (encFault r ++ (encFaults rest ++ tail)).drop 4 = encFaults rest ++ tail := by
      rw [List.drop_append_of_le_length (by omega), List.drop_of_length_le (by omega)]; simp
    have i3 : idx (encFault r) 3 = .ok (UInt8.ofNat f) := by simp [encFault, hf, idx, pure, Except.pure]
    have hb : be3 (encFault r) = r.id := by simp only [encFault]; exact be3_toBE _ _ hid
    unfold faultNonZero at hnz
    simp only [dif_neg h0, dif_neg h1, ht, hdp, hnz, Bool.false_eq_true, if_false, i3, hb, bind, Except.bind, toNat_ofNat_lt hf256]
    rw [ih _ (fun x hx => hr x (by simp [hx]))]
    have : ({ id := r.id, fault := some f } : DtcRec) = r := by cases r; simp_all
    rw [this]; simp

def zeroFault : DtcRec := { id := 0, fault := some 0 }

theorem faultLoop_zeros (ign : Bool) (n : Nat) (acc : List DtcRec) :
    g3Loop true ign false (zeros n) acc = .ok (acc ++ (if ign then [] else List.replicate (n / 4) zeroFault)) := by
  induction n using Nat.strongRecOn generalizing acc with
  | _ n ih =>
    rw [g3Loop]
    by_cases h0 : n = 0
    · subst h0; simp [zeros_length]
    · have h0' : ¬ (zeros n).length = 0 := by simpa [zeros_length] using h0
      rw [dif_neg h0']
      by_cases h1 : n < 4
      · have h1' : (zeros n).length < 4 := by simpa [zeros_length] using h1
        rw [dif_pos h1']
        simp [allZero_zeros, Nat.div_eq_of_lt h1]
      · have h1' : ¬ (zeros n).length < 4 := by simpa [zeros_length] using h1
        rw [dif_neg h1']
        simp only [zeros_take, zeros_drop, Nat.min_eq_left (Nat.le_of_not_lt h1), allZero_zeros, Bool.true_and]
        have hdiv : n / 4 = (n - 4) / 4 + 1 := by omega
        cases ign
        · have i3 : idx (zeros 4) 3 = .ok 0 := by decide
          simp only [Bool.false_eq_true, if_false, i3, bind, Except.bind]
          rw [ih (n - 4) (by omega)]
          simp only [Bool.false_eq_true, if_false, hdiv, List.replicate_succ, List.append_assoc, List.singleton_append]
          rfl
        · simp only [if_true]
          rw [ih (n - 4) (by omega)]
          simp

theorem faultLoop_zeros_rejected (ign : Bool) (n : Nat) (acc : List DtcRec) (hn : n % 4 ≠ 0) :
    g3Loop false ign false (zeros n) acc = .error .invalid := by
  induction n using Nat.strongRecOn generalizing acc with
  | _ n ih =>
    rw [g3Loop]
    have h0 : n ≠ 0 := by intro h; subst h; simp at hn
    have h0' : ¬ (zeros n).length = 0 := by simpa [zeros_length] using h0
    rw [dif_neg h0']
    by_cases h1 : n < 4
    · have h1' : (zeros n).length < 4 := by simpa [zeros_length] using h1
      rw [dif_pos h1']; simp
    · have h1' : ¬ (zeros n).length < 4 := by simpa [zeros_length] using h1
      rw [dif_neg h1']
      simp only [zeros_take, zeros_drop, Nat.min_eq_left (Nat.le_of_not_lt h1), allZero_zeros, Bool.true_and]
      have hmod : (n - 4) % 4 ≠ 0 := by omega
      cases ign
      · have i3 : idx (zeros 4) 3 = .ok 0 := by decide
        simp only [Bool.false_eq_true, if_false, i3, bind, Except.bind]
        exact ih (n - 4) (by omega) _ hmod
      · simp only [if_true]
        exact ih (n - 4) (by omega) _ hmod

theorem fault_pad_tolerated (ign : Bool) (rs : List DtcRec) (n : Nat) (acc : List DtcRec) (hr : ∀ r ∈ rs, FaultOk r ∧ faultNonZero ign r) :
    g3Loop true ign false (encFaults rs ++ zeros n) acc = .ok (acc ++ rs ++ (if ign then [] else List.replicate (n / 4) zeroFault)) := by
  rw [faultLoop_prefix true ign rs (zeros n) acc hr, faultLoop_zeros]

theorem fault_pad_rejected (ign : Bool) (rs : List DtcRec) (n : Nat) (acc : List DtcRec) (hr : ∀ r ∈ rs, FaultOk r ∧ faultNonZero ign r) (hn : n % 4 ≠ 0) :
    g3Loop false ign false (encFaults rs ++ zeros n) acc = .error .invalid := by
  rw [faultLoop_prefix false ign rs (zeros n) acc hr]; exact faultLoop_zeros_rejected ign n _ hn

/-! ### extended data by DTC number (0x06 / 0x10 / 0x19) followed by zero bytes: record number 0 does not exist, so the first zero ends the list -/

theorem extLoop_prefix (tol : Bool) (size : Nat) (l : List (Nat × Bytes)) (tail : Bytes) (acc : List (Nat × Bytes)) (h : ∀ e ∈ l, ExtOk size e) :
    extByDtcLoop tol size (encExts l ++ tail) acc = extByDtcLoop tol size tail (acc ++ l) := by
  induction l generalizing acc with
  | nil => simp [encExts]
  | cons e rest ih =>
    obtain ⟨n, b⟩ := e
    obtain ⟨h0, h1, h2⟩ := h (n, b) (by simp)
    simp only at h0 h1 h2
    rw [extByDtcLoop]
    have hne : ¬ (encExts ((n, b) :: rest) ++ tail).length = 0 := by simp [encExts]
    rw [dif_neg hne]
    have hi : idx (encExts ((n, b) :: rest) ++ tail) 0 = .ok (UInt8.ofNat n) := by simp [encExts, idx, pure, Except.pure]
    have hn : (UInt8.ofNat n).toNat = n := toNat_ofNat_lt h1
    have hz : (n == 0) = false := by simpa using (show n ≠ 0 by omega)
    have hd : (encExts ((n, b) :: rest) ++ tail).drop 1 = b ++ (encExts rest ++ tail) := by simp [encExts]
    simp only [hi, bind, Except.bind, hn, hz, Bool.false_eq_true, if_false, hd]
    have hlen : ¬ (b ++ (encExts rest ++ tail)).length < size := by simp; omega
    rw [if_neg hlen]
    have ht : (b ++ (encExts rest ++ tail)).take size = b := by rw [← h2]; simp
    have hdr : (b ++ (encExts rest ++ tail)).drop size = encExts rest ++ tail := by rw [← h2]; simp
    rw [ht, hdr, ih _ (fun e he => h e (by simp [he]))]
    simp only [List.append_assoc, List.singleton_append]

theorem ext_pad (tol : Bool) (size : Nat) (l : List (Nat × Bytes)) (n : Nat) (acc : List (Nat × Bytes)) (h : ∀ e ∈ l, ExtOk size e) (hn : 0 < n) :
    extByDtcLoop tol size (encExts l ++ zeros n) acc = if tol then .ok (acc ++ l) else .error .invalid := by
  rw [extLoop_prefix tol size l (zeros n) acc h, extByDtcLoop]
  have h0 : ¬ (zeros n).length = 0 := by rw [zeros_length]; omega
  rw [dif_neg h0]
  have i0 : idx (zeros n) 0 = .ok 0 := by
    cases n with
    | zero => omega
    | succ k => simp [zeros, idx, List.replicate_succ, pure, Except.pure]
  simp only [i0, bind, Except.bind, allZero_zeros, Bool.true_and]
  cases tol <;> simp

/-! ### ReadDataByIdentifier followed by zero bytes (fixed-length codecs; identifier 0x0000 not configured) -/

def DidsFixed (cfg : DidCfg) (tol : Bool) : List (Nat × Bytes) → Prop
  | [] => True
  | (d, v) :: rest => d < 65536 ∧ (d ≠ 0 ∨ cfg.entries.any (·.1 == 0) = true ∨ tol = false) ∧ fetchCodec cfg d = .ok (some v.length) ∧ DidsFixed cfg tol rest

theorem rdbiLoop_prefix (cfg : DidCfg) (tol : Bool) (l : List (Nat × Bytes)) (tail : Bytes) (acc : List (Nat × Bytes)) (h : DidsFixed cfg tol l)
    (hnd : ((acc ++ l).map (·.1)).Nodup) : rdbiLoop cfg tol (encDids l ++ tail) acc = rdbiLoop cfg tol tail (acc ++ l) := by
  induction l generalizing acc with
  | nil => simp [encDids]
  | cons e rest ih =>
    obtain ⟨d, v⟩ := e
    obtain ⟨hd, hz, hf, hrest⟩ := h
    have hlen : (encDids ((d, v) :: rest) ++ tail).length = 2 + (v ++ (encDids rest ++ tail)).length := by simp [encDids]
    have ht : (encDids ((d, v) :: rest) ++ tail).take 2 = toBE 2 d := by
      simp only [encDids, List.append_assoc]
      rw [List.take_append_of_le_length (by simp)]; exact List.take_of_length_le (by simp)
    have hdr : (encDids ((d, v) :: rest) ++ tail).drop 2 = v ++ (encDids rest ++ tail) := by
      simp only [encDids, List.append_assoc]
      rw [List.drop_append_of_le_length (by simp)]; simp [List.drop_of_length_le]
    have hu : unpackBE 2 (toBE 2 d) = .ok d := by
      simp [unpackBE, fromBE_toBE_of_lt (show d < 256 ^ 2 by omega), pure, Except.pure]
    have hcond : (d == 0 && !cfg.entries.any (·.1 == 0) && tol && allZero (encDids ((d, v) :: rest) ++ tail)) = false := by
      rcases hz with hz | hz | hz
      · have : (d == 0) = false := by simpa using hz
        simp [this]
      · simp [hz]
      · simp [hz]
    have hnew : ∀ e ∈ acc, e.1 ≠ d := by
      intro e he heq
      rw [List.map_append, List.map_cons] at hnd
      exact (List.nodup_append.1 hnd).2.2 e.1 (List.mem_map_of_mem he) d (by simp) heq
    have hnd' : (((acc ++ [(d, v)]) ++ rest).map (·.1)).Nodup := by simpa using hnd
    rw [rdbiLoop]
    rw [dif_neg (by omega), dif_neg (by omega)]
    simp only [ht, hu, bind, Except.bind, hcond, Bool.false_eq_true, if_false, hf, hdr]
    have h1 : ¬ (v ++ (encDids rest ++ tail)).length < v.length := by simp
    have h2 : (v ++ (encDids rest ++ tail)).take v.length = v := by simp
    have h3 : (v ++ (encDids rest ++ tail)).drop v.length = encDids rest ++ tail := by simp
    simp only [h1, if_false, h2, h3, dictSet_new acc d v hnew]
    rw [ih _ hrest hnd']; simp

theorem rdbiLoop_zeros (cfg : DidCfg) (n : Nat) (acc : List (Nat × Bytes)) (h0 : cfg.entries.any (·.1 == 0) = false) :
    rdbiLoop cfg true (zeros n) acc = .ok acc := by
  rw [rdbiLoop]
  by_cases hn0 : n = 0
  · subst hn0; simp [zeros_length, pure, Except.pure]
  · have h0' : ¬ (zeros n).length = 0 := by simpa [zeros_length] using hn0
    rw [dif_neg h0']
    by_cases hn1 : n ≤ 1
    · have : (zeros n).length ≤ 1 := by simpa [zeros_length] using hn1
      rw [dif_pos this]
      have hn : n = 1 := by omega
      subst hn
      simp [zeros, idx, pure, Except.pure, bind, Except.bind]
    · have : ¬ (zeros n).length ≤ 1 := by simpa [zeros_length] using hn1
      rw [dif_neg this]
      have ht : (zeros n).take 2 = zeros 2 := by rw [zeros_take]; congr 1; omega
      have hu : unpackBE 2 (zeros 2) = .ok 0 := by decide
      simp only [ht, hu, bind, Except.bind, h0, allZero_zeros]
      simp [pure, Except.pure]

/-- **ReadDataByIdentifier, tolerated**: any number of zero bytes after the records is ignored -/
theorem rdbi_pad_tolerated (cfg : DidCfg) (l : List (Nat × Bytes)) (n : Nat) (h : DidsFixed cfg true l) (hnd : (l.map (·.1)).Nodup)
    (h0 : cfg.entries.any (·.1 == 0) = false) : rdbiLoop cfg true (encDids l ++ zeros n) [] = .ok l := by
  rw [rdbiLoop_prefix cfg true l (zeros n) [] h (by simpa using hnd), rdbiLoop_zeros cfg n _ h0]; simp

/-- **ReadDataByIdentifier, not tolerated**: one trailing zero byte is an invalid response -/
theorem rdbi_pad1_rejected (cfg : DidCfg) (l : List (Nat × Bytes)) (h : DidsFixed cfg false l) (hnd : (l.map (·.1)).Nodup) :
    rdbiLoop cfg false (encDids l ++ zeros 1) [] = .error .invalid := by
  rw [rdbiLoop_prefix cfg false l (zeros 1) [] h (by simpa using hnd), rdbiLoop]
  simp [zeros, idx, pure, Except.pure, bind, Except.bind]

/-- … and two or more zero bytes read as identifier 0x0000, which has no codec: the interpreter stops with the missing-codec error that
    `read_data_by_identifier` reports as an unexpected response -/
theorem rdbi_pad2_rejected (cfg : DidCfg) (l : List (Nat × Bytes)) (n : Nat) (h : DidsFixed cfg false l) (hnd : (l.map (·.1)).Nodup) (hn : 2 ≤ n)
    (h0 : cfg.find 0 = none) : rdbiLoop cfg false (encDids l ++ zeros n) [] = .error .config := by
  rw [rdbiLoop_prefix cfg false l (zeros n) [] h (by simpa using hnd), rdbiLoop]
  have h0' : ¬ (zeros n).length = 0 := by rw [zeros_length]; omega
  have h1' : ¬ (zeros n).length ≤ 1 := by rw [zeros_length]; omega
  rw [dif_neg h0', dif_neg h1']
  have ht : (zeros n).take 2 = zeros 2 := by rw [zeros_take]; congr 1; omega
  have hu : unpackBE 2 (zeros 2) = .ok 0 := by decide
  simp only [ht, hu, bind, Except.bind, Bool.and_false, Bool.false_and, Bool.false_eq_true, if_false, fetchCodec, h0]
  rfl

/-! ### non-vacuity -/
example : recordLoop true false false false false (encRecs false [{ id := 0x123456, status := 0x78 }] ++ zeros 5) [] =
    .ok [{ id := 0x123456, status := 0x78 }, { id := 0 }] := by
  have := records_pad_tolerated false false false false [{ id := 0x123456, status := 0x78 }] 5 []
    (by intro r hr; simp at hr; subst hr; exact ⟨⟨by decide, by decide, rfl, rfl, rfl, by simp⟩, by unfold recNonZero; decide⟩)
  simpa [recSize, zeroRec] using this

end Uds.Props.C11
