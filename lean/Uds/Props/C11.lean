import Uds.Lemmas.Loops
/-
  C11 — zero padding: trailing zeros are ignored when tolerated, rejected when not.
  For any well-formed reply `enc v` and any number `n` of appended zero bytes.
-/
namespace Uds.Props.C11
open Uds Uds.Model Uds.Spec

/-! ### ReadDTCInformation, availability-mask groups (records of 4 / 6 bytes) -/

/-- **tolerated**: the decoded records are those encoded; with `ignore_all_zero_dtc` off each *whole* all-zero record of the padding
    is one more record (DTC 0), and a remaining partial record is dropped — for every record list and every `n` -/
theorem records_pad_tolerated (ign six sf09 first : Bool) (rs : List DtcRec) (n : Nat) (acc : List DtcRec)
    (hr : ∀ r ∈ rs, RecOk six r ∧ recNonZero six ign r) :
    recordLoop true ign six sf09 first (encRecs six rs ++ zeros n) acc =
      .ok (acc.reverse ++ rs ++ (if ign then [] else List.replicate (n / recSize six) (zeroRec six))) := by
  rw [recordLoop_prefix true ign six sf09 first rs (zeros n) acc hr, recordLoop_zeros]
  simp

/-- **not tolerated**: trailing zeros that do not form whole records make the reply invalid (any sub-function of the groups except
    reportSeverityInformationOfDTC, which by design ignores an incomplete second record) -/
theorem records_pad_rejected (ign six first : Bool) (rs : List DtcRec) (n : Nat) (acc : List DtcRec)
    (hr : ∀ r ∈ rs, RecOk six r ∧ recNonZero six ign r) (hn : n % recSize six ≠ 0) :
    recordLoop false ign six false first (encRecs six rs ++ zeros n) acc = .error .invalid := by
  rw [recordLoop_prefix false ign six false first rs (zeros n) acc hr]
  exact recordLoop_zeros_rejected ign six _ n _ hn

/-- with tolerance off, whole all-zero records are still records (or skipped when `ignore_all_zero_dtc`): only *incomplete* ones are refused -/
theorem records_whole_zero_records (ign six first : Bool) (rs : List DtcRec) (k : Nat) (acc : List DtcRec)
    (hr : ∀ r ∈ rs, RecOk six r ∧ recNonZero six ign r) :
    ∃ out, recordLoop false ign six false first (encRecs six rs ++ zeros (k * recSize six)) acc = .ok out := by
  rw [recordLoop_prefix false ign six false first rs _ acc hr]
  generalize (first && rs.isEmpty) = f
  generalize (rs.reverse ++ acc) = a
  induction k generalizing a f with
  | zero => simp [zeros, recordLoop_nil]
  | succ k ih =>
    have hpos : 0 < recSize six := by unfold recSize; split <;> omega
    rw [recordLoop]
    have hsz : (if six = true then 6 else 4) = recSize six := rfl
    have hlen : (zeros ((k + 1) * recSize six)).length = (k + 1) * recSize six := zeros_length _
    have hge : recSize six ≤ (k + 1) * recSize six := by rw [Nat.add_mul]; omega
    have h0 : ¬ (zeros ((k + 1) * recSize six)).length = 0 := by rw [hlen]; omega
    have h1 : ¬ (zeros ((k + 1) * recSize six)).length < (if six = true then 6 else 4) := by rw [hlen, hsz]; omega
    rw [dif_neg h0, dif_neg h1]
    simp only [hsz, zeros_take, zeros_drop, Nat.min_eq_left hge, allZero_zeros, Bool.true_and]
    have hsub : (k + 1) * recSize six - recSize six = k * recSize six := by rw [Nat.add_mul]; omega
    rw [hsub]
    cases ign
    · simp only [Bool.false_eq_true, if_false, mkRec_zeros, bind, Except.bind]; exact ih _ _
    · simp only [if_true]; exact ih _ _

/-! ### ReadMemoryByAddress (client-side trimming) -/

theorem len_pad (data : Bytes) (n : Nat) : (data ++ zeros n).length = data.length + n := by
  rw [List.length_append, zeros_length]

theorem readmem_pad_tolerated (data : Bytes) (n : Nat) (h : 1 ≤ data.length) :
    readMemClient data.length true (data ++ zeros n) = .ok (.readMem data) := by
  unfold readMemClient readMemInterpret
  have hg : guardPy (decide ((data ++ zeros n).length < 1)) PyErr.invalid = .ok () :=
    guardPy_ok.2 (by rw [decide_eq_false_iff_not, len_pad]; omega)
  simp only [hg, bind, Except.bind, pure, Except.pure]
  have h1 : ¬ (data ++ zeros n).length < data.length := by rw [len_pad]; omega
  rw [if_neg h1]
  by_cases hn : n = 0
  · subst hn
    have h2 : ¬ (data ++ zeros 0).length > data.length := by rw [len_pad]; omega
    rw [if_neg h2]; simp [zeros]
  · have h2 : (data ++ zeros n).length > data.length := by rw [len_pad]; omega
    rw [if_pos h2]
    have hd : (data ++ zeros n).drop data.length = zeros n := by
      rw [List.drop_append_of_le_length (Nat.le_refl _), List.drop_of_length_le (Nat.le_refl _)]; rfl
    have ht : (data ++ zeros n).take data.length = data := by
      rw [List.take_append_of_le_length (Nat.le_refl _), List.take_of_length_le (Nat.le_refl _)]
    rw [hd, ht, allZero_zeros]; rfl

theorem readmem_pad_rejected (data : Bytes) (n : Nat) (h : 1 ≤ data.length) (hn : 0 < n) :
    readMemClient data.length false (data ++ zeros n) = .error .unexpected := by
  unfold readMemClient readMemInterpret
  have hg : guardPy (decide ((data ++ zeros n).length < 1)) PyErr.invalid = .ok () :=
    guardPy_ok.2 (by rw [decide_eq_false_iff_not, len_pad]; omega)
  have h1 : ¬ (data ++ zeros n).length < data.length := by rw [len_pad]; omega
  have h2 : (data ++ zeros n).length > data.length := by rw [len_pad]; omega
  simp only [hg, bind, Except.bind, pure, Except.pure]
  rw [if_neg h1, if_pos h2]
  simp

/-! ### InputOutputControlByIdentifier (fixed-length codec) -/

theorem io_pad_tolerated (e : IoEntry) (did : Nat) (cp : Option Nat) (data : Bytes) (n : Nat) (hl : e.codecLen = some data.length) :
    ioDecode e true did cp (data ++ zeros n) = .ok (.io did cp (some data)) := by
  unfold ioDecode
  simp only [hl]
  have hd : (data ++ zeros n).drop data.length = zeros n := by
    rw [List.drop_append_of_le_length (Nat.le_refl _), List.drop_of_length_le (Nat.le_refl _)]; rfl
  have ht : (data ++ zeros n).take data.length = data := by
    rw [List.take_append_of_le_length (Nat.le_refl _), List.take_of_length_le (Nat.le_refl _)]
  by_cases hn : n = 0
  · subst hn
    have : ¬ (data ++ zeros 0).length > data.length := by rw [len_pad]; omega
    have hz : data ++ zeros 0 = data := by simp [zeros]
    rw [hz]
    have hlt : ¬ data.length > data.length := by omega
    simp only [decide_eq_false hlt, Bool.false_and, Bool.false_eq_true, if_false, if_true]; rfl
  · have : (data ++ zeros n).length > data.length := by rw [len_pad]; omega
    simp only [decide_eq_true this, hd, allZero_zeros, Bool.and_self, if_true, ht]; rfl

theorem io_pad_rejected (e : IoEntry) (did : Nat) (cp : Option Nat) (data : Bytes) (n : Nat) (hl : e.codecLen = some data.length) (hn : 0 < n) :
    ioDecode e false did cp (data ++ zeros n) = .error .invalid := by
  unfold ioDecode
  simp only [hl, Bool.and_false, Bool.false_eq_true, if_false]
  have : ¬ (data ++ zeros n).length = data.length := by rw [len_pad]; omega
  rw [if_neg this]; rfl

/-! ### non-vacuity -/
example : recordLoop true false false false false (encRecs false [{ id := 0x123456, status := 0x78 }] ++ zeros 5) [] =
    .ok [{ id := 0x123456, status := 0x78 }, { id := 0 }] := by
  have := records_pad_tolerated false false false false [{ id := 0x123456, status := 0x78 }] 5 []
    (by intro r hr; simp at hr; subst hr; exact ⟨⟨by decide, by decide, rfl, rfl, rfl, by simp⟩, by unfold recNonZero; decide⟩)
  simpa [recSize, zeroRec] using this

end Uds.Props.C11
