import Uds.Props.C05
import Uds.Props.C09Hist
/-
  C01 / C15 over arbitrary histories: once every block of a history has been left, the frame a call puts on the wire is the ISO payload of its request,
  byte for byte — whatever the history contained (calls of any outcome, blocks left by exceptions, overrides, stray frames, configuration changes).
-/
namespace Uds.Props.C01
open Uds Uds.Model

/-- **the frame after any history**: if the block operations of the history, folded alone, leave no suppress block and no payload override open, the next
    call of any entry point flushes and then transmits exactly the payload of the request its arguments encode to (the C01 frame theorems say what that is) -/
theorem frame_after_history (s : HState) (ops : List HOp) (e : Entry) (req : Request) (svc : Service) (p : Bytes) (arr : List Frame)
    (hfold : (ops.foldl C09.blockFold (s.cs.spr, s.cs.override)).1.enabled = false ∧ (ops.foldl C09.blockFold (s.cs.spr, s.cs.override)).2 = none)
    (hm : e.makeRequest (hrun s ops).1.cfg.std = .ok req) (hs : req.service = some svc) (hreq : req.spr = false) (hp : req.getPayload none = .ok p) :
    ∃ w rest, (hstep (hrun s ops).1 (.call e arr)).2.log = [.flush, .send p, .wait 0 w] ++ rest := by
  have hfl := C09.hrun_flags s ops
  have h1 : (hrun s ops).1.cs.spr.enabled = false := by
    have := congrArg Prod.fst hfl; simp only at this; rw [this]; exact hfold.1
  have h2 : (hrun s ops).1.cs.override = none := by
    have := congrArg Prod.snd hfl; simp only at this; rw [this]; exact hfold.2
  generalize (hrun s ops).1 = fin at *
  obtain ⟨rest, hr⟩ := C05.first_window fin.cfg.send fin.cs req svc none arr hs h1 hreq p hp
  rw [h2] at hr
  simp only [] at hr
  refine ⟨Spec.firstSingle fin.cfg.send.requestTimeout (p2Eff fin.cfg.send fin.cs) none, rest, ?_⟩
  simp only [hstep]
  unfold callInner
  rw [hm]
  simp only []
  cases ho : (sendRequest fin.cfg.send fin.cs req none arr).outcome with
  | none => simp only []; exact hr
  | raised a b c => simp only []; exact hr
  | resp r =>
    simp only []
    cases hq : e.post fin.cfg.std r.data with
    | error err => simp only []; exact hr
    | ok t => simp only []; exact hr

/-! non-vacuity: an override block and a suppress block, both left (one after a timed-out call), a stray frame — then ecu_reset(1) is `11 01` -/
example : (hstep (hrun { cfg := { send := ⟨some 2000, 100, 300, false⟩ } }
    [.enterOvr (.const [0x11, 0x03]), .call .testerPresent [], .exitOvr, .enterSpr true, .call (.ecuReset 1) [⟨1, [0x7F, 0x11, 0x22]⟩], .exitSpr, .stray [0x51, 0x03]]).1
    (.call (.ecuReset 1) [⟨2, [0x51, 0x01]⟩])).2.log = [.flush, .send [0x11, 0x01], .wait 0 100] := by decide +kernel

end Uds.Props.C01
