import Uds.Model.DecodeDtc
namespace Uds.Props.C04
theorem placeholder : True := trivial
end Uds.Props.C04
