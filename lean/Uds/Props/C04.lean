import Uds.Lemmas.Safe
import Uds.Props.C03
import Uds.Props.C01
/-
  C04 — any received bytes give a result or a documented exception, never a crash / hang.
  For every response interpreter and every client-side check: for *all* byte strings `d` the model either returns or
  fails with a documented outcome (`PyErr.documented`): the `IndexError` / `struct.error` / … constructors are unreachable.
  Termination ("never loops without consuming input") is Lean's termination check on every loop of Uds/Model/Decode*.lean
  (well-founded recursion on the remaining bytes).
-/
namespace Uds.Props.C04
open Uds Uds.Model

/-! ### the simple services -/

theorem echo_safe (d : Bytes) : Safe (echoInterpret d) := by
  unfold echoInterpret
  refine Safe.bind (Safe.guard _ _ rfl) fun _ hg => ?_
  have := guard_lt hg
  exact Safe.bind (Safe.idx (by omega)) fun _ _ => Safe.pure _

theorem ecuReset_safe (d : Bytes) : Safe (ecuResetInterpret d) := by
  unfold ecuResetInterpret
  refine Safe.bind (Safe.guard _ _ rfl) fun _ hg => ?_
  have := guard_lt hg
  refine Safe.bind (Safe.idx (by omega)) fun b _ => ?_
  split
  · refine Safe.bind (Safe.guard _ _ rfl) fun _ hg2 => ?_
    have := guard_lt hg2
    exact Safe.bind (Safe.idx (by omega)) fun _ _ => Safe.pure _
  · exact Safe.pure _

theorem sa_safe (mode : SaMode) (d : Bytes) : Safe (saInterpret mode d) := by
  unfold saInterpret
  refine Safe.bind (Safe.guard _ _ rfl) fun _ hg => ?_
  have := guard_lt hg
  have h1 : 0 < d.length := by split at this <;> omega
  exact Safe.bind (Safe.idx h1) fun _ _ => Safe.pure _

theorem accessTiming_safe (d : Bytes) : Safe (accessTimingInterpret d) := by
  unfold accessTimingInterpret
  refine Safe.bind (Safe.guard _ _ rfl) fun _ hg => ?_
  have := guard_lt hg
  exact Safe.bind (Safe.idx (by omega)) fun _ _ => Safe.pure _

theorem slice_length (d : Bytes) (a b : Nat) (h : b ≤ d.length) : (slice d a b).length = b - a := by
  simp [slice]; omega

theorem routine_safe (d : Bytes) : Safe (routineInterpret d) := by
  unfold routineInterpret
  refine Safe.bind (Safe.guard _ _ rfl) fun _ hg => ?_
  have := guard_lt hg
  refine Safe.bind (Safe.idx (by omega)) fun _ _ => ?_
  exact Safe.bind (Safe.unpackBE (by rw [slice_length _ _ _ (by omega)])) fun _ _ => Safe.pure _

theorem transferData_safe (d : Bytes) : Safe (transferDataInterpret d) := by
  unfold transferDataInterpret
  refine Safe.bind (Safe.guard _ _ rfl) fun _ hg => ?_
  have := guard_lt hg
  exact Safe.bind (Safe.idx (by omega)) fun _ _ => Safe.pure _

theorem dsc_safe (std : Nat) (d : Bytes) : Safe (dscInterpret std d) := by
  unfold dscInterpret echo1
  refine Safe.bind ?_ fun _ _ => ?_
  · split
    · exact Safe.throw _ rfl
    · exact Safe.bind (Safe.idx (by omega)) fun _ _ => Safe.pure _
  · simp only
    split
    · split
      · exact Safe.throw _ rfl
      · exact Safe.pure _
    · exact Safe.pure _

theorem normalizeLevel_safe (m : SaMode) (l : Int) (h : 1 ≤ l ∧ l ≤ 0x7E) : ∃ n, normalizeLevel m l = .ok n := by
  unfold normalizeLevel
  rw [validateInt_ok (u := ()) |>.2 h]
  cases m <;> exact ⟨_, rfl⟩

/-- every simple entry point, for in-domain arguments (`make_request` succeeded, so the level is 1..0x7E) -/
theorem simpleClient_safe (std : Nat) (e : Entry) (d : Bytes)
    (hlevel : ∀ l x, (e = .requestSeed l x ∨ e = .sendKey l x) → 1 ≤ l ∧ l ≤ 0x7E) : Safe (simpleClient std e d) := by
  cases e <;> simp only [simpleClient]
  case changeSession n =>
    exact Safe.bind (dsc_safe std d) fun _ _ => Safe.bind (Safe.guard _ _ rfl) fun _ _ => Safe.pure _
  case ecuReset t =>
    refine Safe.bind (ecuReset_safe d) fun r _ => ?_
    cases r <;> first | exact Safe.pure _ | exact Safe.bind (Safe.guard _ _ rfl) fun _ _ => Safe.pure _
  case requestSeed l x =>
    obtain ⟨n, hn⟩ := normalizeLevel_safe .requestSeed l (hlevel l x (Or.inl rfl))
    refine Safe.bind (sa_safe _ d) fun r _ => ?_
    rw [hn]
    refine Safe.bind (Safe.ok _) fun _ _ => ?_
    cases r <;> first | exact Safe.pure _ | exact Safe.bind (Safe.guard _ _ rfl) fun _ _ => Safe.pure _
  case sendKey l x =>
    obtain ⟨n, hn⟩ := normalizeLevel_safe .sendKey l (hlevel l x (Or.inr rfl))
    refine Safe.bind (sa_safe _ d) fun r _ => ?_
    rw [hn]
    refine Safe.bind (Safe.ok _) fun _ _ => ?_
    cases r <;> first | exact Safe.pure _ | exact Safe.bind (Safe.guard _ _ rfl) fun _ _ => Safe.pure _
  case testerPresent =>
    refine Safe.bind (echo_safe d) fun r _ => ?_
    cases r <;> first | exact Safe.pure _ | exact Safe.bind (Safe.guard _ _ rfl) fun _ _ => Safe.pure _
  case commControl a b c =>
    refine Safe.bind (echo_safe d) fun r _ => ?_
    cases r <;> first | exact Safe.pure _ | exact Safe.bind (Safe.guard _ _ rfl) fun _ _ => Safe.pure _
  case controlDtc a b =>
    refine Safe.bind (echo_safe d) fun r _ => ?_
    cases r <;> first | exact Safe.pure _ | exact Safe.bind (Safe.guard _ _ rfl) fun _ _ => Safe.pure _
  case linkControl a b =>
    refine Safe.bind (echo_safe d) fun r _ => ?_
    cases r <;> first | exact Safe.pure _ | exact Safe.bind (Safe.guard _ _ rfl) fun _ _ => Safe.pure _
  case accessTiming a b =>
    refine Safe.bind (accessTiming_safe d) fun r _ => ?_
    cases r <;> first | exact Safe.pure _ | exact Safe.bind (Safe.guard _ _ rfl) fun _ _ => Safe.pure _
  case routineControl a b c =>
    refine Safe.bind (routine_safe d) fun r _ => ?_
    cases r <;> first
      | exact Safe.pure _
      | exact Safe.bind (Safe.guard _ _ rfl) fun _ _ => Safe.bind (Safe.guard _ _ rfl) fun _ _ => Safe.pure _
  case transferData a b =>
    refine Safe.bind (transferData_safe d) fun r _ => ?_
    cases r <;> first | exact Safe.pure _ | exact Safe.bind (Safe.guard _ _ rfl) fun _ _ => Safe.pure _
  case transferExit a => exact Safe.pure _
  case clearDtc a b => exact Safe.pure _

/-! ### ReadDataByIdentifier -/

theorem fetchCodec_safe (c : DidCfg) (did : Nat) : Safe (fetchCodec c did) := by
  unfold fetchCodec; cases c.find did
  · exact Safe.throw _ rfl
  · exact Safe.pure _

theorem checkDidConfig_safe (c : Option DidCfg) (ds : List Nat) : Safe (checkDidConfig c ds) := by
  unfold checkDidConfig
  cases c with
  | none => exact Safe.throw _ rfl
  | some c => simp only; split
              · exact Safe.pure _
              · exact Safe.throw _ rfl

theorem rdbiLoop_safe (cfg : DidCfg) (tol : Bool) (rest : Bytes) (acc : List (Nat × Bytes)) : Safe (rdbiLoop cfg tol rest acc) := by
  induction h : rest.length using Nat.strongRecOn generalizing rest acc with
  | _ n ih =>
    rw [rdbiLoop]
    split
    · exact Safe.pure _
    · split
      · refine Safe.bind (Safe.idx (by omega)) fun _ _ => ?_
        split
        · exact Safe.pure _
        · exact Safe.throw _ rfl
      · refine Safe.bind (Safe.unpackBE (by simp; omega)) fun did _ => ?_
        split
        · exact Safe.pure _
        · refine Safe.bind (fetchCodec_safe _ _) fun len _ => ?_
          cases len <;> simp only <;> split
          · exact Safe.throw _ rfl
          · exact ih _ (by subst h; simp; omega) _ _ rfl
          · exact Safe.throw _ rfl
          · exact ih _ (by subst h; simp; omega) _ _ rfl

theorem rdbiInterpret_safe (cfg : DidCfg) (tol : Bool) (dids : List Nat) (d : Bytes) : Safe (rdbiInterpret cfg tol dids d) := by
  unfold rdbiInterpret
  exact Safe.bind (checkDidConfig_safe _ _) fun _ _ => Safe.bind (rdbiLoop_safe _ _ _ _) fun _ _ => Safe.pure _

theorem rdbiClient_safe (cfg : DidCfg) (tol : Bool) (dids : List Nat) (d : Bytes) : Safe (rdbiClient cfg tol dids d) := by
  unfold rdbiClient
  have hs := rdbiInterpret_safe cfg tol dids d
  split
  · split
    · exact Safe.throw _ rfl
    · exact Safe.throw _ rfl
  · rename_i e _ he
    exact Safe.throw _ (hs e he)
  · split
    · exact Safe.throw _ rfl
    · split
      · exact Safe.throw _ rfl
      · exact Safe.pure _
  · exact Safe.pure _

/-! ### WriteDataByIdentifier, DynamicallyDefineDataIdentifier, ReadMemoryByAddress, RequestDownload / Upload -/

theorem wdbiClient_safe (did : Nat) (d : Bytes) : Safe (wdbiClient did d) := by
  unfold wdbiClient wdbiInterpret
  refine Safe.bind (Safe.bind (Safe.guard _ _ rfl) fun _ hg => ?_) fun r _ => ?_
  · have := guard_lt hg
    exact Safe.bind (Safe.unpackBE (by simp; omega)) fun _ _ => Safe.pure _
  · cases r <;> first
      | exact Safe.pure _
      | (simp only; split
         · exact Safe.throw _ rfl
         · exact Safe.pure _)

theorem dddInterpret_safe (d : Bytes) : Safe (dddInterpret d) := by
  unfold dddInterpret
  refine Safe.bind (Safe.guard _ _ rfl) fun _ hg => ?_
  have := guard_lt hg
  refine Safe.bind (Safe.idx (by omega)) fun sf _ => ?_
  refine Safe.bind (Safe.guard _ _ rfl) fun _ _ => ?_
  split
  · exact Safe.bind (Safe.unpackBE (by rw [slice_length _ _ _ (by omega)])) fun _ _ => Safe.pure _
  · exact Safe.pure _

theorem dddClient_safe (sf : Nat) (did : Option Nat) (strict : Bool) (d : Bytes) : Safe (dddClient sf did strict d) := by
  unfold dddClient
  refine Safe.bind (dddInterpret_safe d) fun r _ => ?_
  cases r <;> first
    | exact Safe.pure _
    | (simp only
       split
       · exact Safe.throw _ rfl
       · split
         · exact Safe.pure _
         · split
           · split
             · exact Safe.throw _ rfl
             · exact Safe.pure _
           · split
             · exact Safe.throw _ rfl
             · exact Safe.pure _)

theorem readMemClient_safe (size : Nat) (tol : Bool) (d : Bytes) : Safe (readMemClient size tol d) := by
  unfold readMemClient readMemInterpret
  refine Safe.bind (Safe.bind (Safe.guard _ _ rfl) fun _ _ => Safe.pure _) fun _ _ => ?_
  split
  · exact Safe.throw _ rfl
  · split
    · split
      · exact Safe.pure _
      · exact Safe.throw _ rfl
    · exact Safe.pure _

theorem readUIntAt_safe (d : Bytes) (off n : Nat) (h : off + n ≤ d.length) : Safe (readUIntAt d off n) := by
  unfold readUIntAt; simp [h]; exact Safe.pure _

theorem xfer_safe (d : Bytes) : Safe (xferInterpret d) := by
  unfold xferInterpret
  refine Safe.bind (Safe.guard _ _ rfl) fun _ hg => ?_
  have := guard_lt hg
  refine Safe.bind (Safe.idx (by omega)) fun b _ => ?_
  refine Safe.bind (Safe.guard _ _ rfl) fun _ _ => ?_
  refine Safe.bind (Safe.guard _ _ rfl) fun _ hg2 => ?_
  have := guard_lt hg2
  exact Safe.bind (readUIntAt_safe _ _ _ (by omega)) fun _ _ => Safe.pure _

/-! ### InputOutputControlByIdentifier -/

/-- the IO configuration is usable: every entry (and the default) passes `check_io_config_composite_entry` -/
def ioCfgValid (cfg : IoCfg) : Prop := ∀ did e, cfg.find did = some e → checkIoEntry e = .ok ()

theorem fetchIoEntry_safe (cfg : IoCfg) (did : Nat) (hv : ioCfgValid cfg) : Safe (fetchIoEntry cfg did) := by
  unfold fetchIoEntry
  cases hf : cfg.find did with
  | none => exact Safe.throw _ rfl
  | some e => simp only; rw [hv did e hf]; exact Safe.bind (Safe.ok _) fun _ _ => Safe.pure _

theorem ioCpEcho_safe (cp : Option Nat) (d : Bytes) (h : (if cp.isSome then 3 else 2) ≤ d.length) : Safe (ioCpEcho cp d) := by
  unfold ioCpEcho
  cases cp with
  | none => exact Safe.pure _
  | some c =>
    simp at h
    exact Safe.bind (Safe.guard _ _ rfl) fun _ _ => Safe.bind (Safe.idx (by omega)) fun _ _ => Safe.pure _

theorem ioDecode_safe (e : IoEntry) (tol : Bool) (did : Nat) (cpEcho : Option Nat) (r : Bytes) : Safe (ioDecode e tol did cpEcho r) := by
  unfold ioDecode
  cases e.codecLen with
  | none => exact Safe.pure _
  | some n => exact Safe.ite (fun _ => Safe.pure _) (fun _ => Safe.throw _ rfl)

theorem ioInterpret_safe (cfg : IoCfg) (cp : Option Nat) (tol : Bool) (d : Bytes) (hv : ioCfgValid cfg) : Safe (ioInterpret cfg cp tol d) := by
  unfold ioInterpret
  refine Safe.bind (Safe.guard _ _ rfl) fun _ hg => ?_
  have hlen := guard_lt hg
  refine Safe.bind (Safe.unpackBE (by simp; split at hlen <;> omega)) fun did _ => ?_
  refine Safe.bind (fetchIoEntry_safe cfg did hv) fun e _ => ?_
  exact Safe.bind (ioCpEcho_safe cp d hlen) fun p _ => ioDecode_safe _ _ _ _ _

theorem ioClient_safe (cfg : IoCfg) (did : Nat) (cp : Option Nat) (tol : Bool) (d : Bytes) (hv : ioCfgValid cfg) : Safe (ioClient cfg did cp tol d) := by
  unfold ioClient
  have hs := ioInterpret_safe cfg cp tol d hv
  split
  · split
    · exact Safe.throw _ rfl
    · exact Safe.throw _ rfl
  · rename_i e _ he
    exact Safe.throw _ (hs e he)
  · split
    · exact Safe.throw _ rfl
    · split
      · exact Safe.throw _ rfl
      · exact Safe.pure _
  · exact Safe.pure _

/-! ### Authentication -/

theorem extractLen16_safe (rest : Bytes) : Safe (extractLen16 rest) := by
  unfold extractLen16
  split
  · exact Safe.throw _ rfl
  · refine Safe.bind (Safe.unpackBE (by simp; omega)) fun n _ => ?_
    split
    · exact Safe.pure _
    · exact Safe.throw _ rfl

theorem extractFields_safe (names : List String) (rest : Bytes) : Safe (extractFields names rest) := by
  induction names generalizing rest with
  | nil => exact Safe.pure _
  | cons n ns ih =>
    unfold extractFields
    exact Safe.bind (extractLen16_safe rest) fun p _ => Safe.bind (ih p.2) fun q _ => Safe.pure _

theorem authFields_safe (t : Nat) (rest : Bytes) : Safe (authFields t rest) := by
  unfold authFields
  split
  · exact Safe.pure _
  · split
    · exact extractFields_safe _ _
    · split
      · exact extractFields_safe _ _
      · split
        · exact extractFields_safe _ _
        · split
          · exact Safe.bind (Safe.guard _ _ rfl) fun _ _ => Safe.bind (extractFields_safe _ _) fun _ _ => Safe.pure _
          · exact Safe.throw _ rfl

theorem authInterpret_safe (d : Bytes) : Safe (authInterpret d) := by
  unfold authInterpret
  refine Safe.bind (Safe.guard _ _ rfl) fun _ hg => ?_
  have := guard_lt hg
  refine Safe.bind (Safe.idx (by omega)) fun sf _ => ?_
  refine Safe.bind (Safe.idx (by omega)) fun rv _ => ?_
  exact Safe.bind (authFields_safe _ _) fun p _ => Safe.bind (Safe.guard _ _ rfl) fun _ _ => Safe.pure _

theorem authClient_safe (task : Nat) (d : Bytes) : Safe (authClient task d) := by
  unfold authClient
  refine Safe.bind (authInterpret_safe d) fun r _ => ?_
  cases r <;> first
    | exact Safe.pure _
    | (simp only
       split
       · exact Safe.throw _ rfl
       · exact Safe.pure _)

/-! ### RequestFileTransfer -/

theorem rftMaxLen_safe (moop : Nat) (d : Bytes) : Safe (rftMaxLen moop d) := by
  unfold rftMaxLen
  split
  · refine Safe.bind (Safe.guard _ _ rfl) fun _ hg => ?_
    have := guard_lt hg
    refine Safe.bind (Safe.idx (by omega)) fun l _ => ?_
    refine Safe.bind (Safe.guard _ _ rfl) fun _ _ => Safe.bind (Safe.guard _ _ rfl) fun _ _ => Safe.bind (Safe.guard _ _ rfl) fun _ hg2 => ?_
    have := guard_lt hg2
    exact Safe.bind (readUIntAt_safe _ _ _ (by omega)) fun _ _ => Safe.pure _
  · exact Safe.pure _

theorem rftDfiEcho_safe (moop : Nat) (d : Bytes) (c1 : Nat) : Safe (rftDfiEcho moop d c1) := by
  unfold rftDfiEcho
  split
  · refine Safe.bind (Safe.guard _ _ rfl) fun _ hg => ?_
    have := guard_lt hg
    exact Safe.bind (Safe.idx (by omega)) fun b _ => Safe.bind (Safe.guard _ _ rfl) fun _ _ => Safe.pure _
  · exact Safe.pure _

theorem rftSizes_safe (moop : Nat) (d : Bytes) (c2 : Nat) : Safe (rftSizes moop d c2) := by
  unfold rftSizes
  split
  · refine Safe.bind (Safe.guard _ _ rfl) fun _ hg => ?_
    have := guard_lt hg
    refine Safe.bind (Safe.unpackBE (by simp; omega)) fun n _ => ?_
    refine Safe.bind (Safe.guard _ _ rfl) fun _ _ => Safe.bind (Safe.guard _ _ rfl) fun _ _ => Safe.bind (Safe.guard _ _ rfl) fun _ hg2 => ?_
    have := guard_lt hg2
    refine Safe.bind (readUIntAt_safe _ _ _ (by omega)) fun u _ => ?_
    split
    · refine Safe.bind (Safe.guard _ _ rfl) fun _ hg3 => ?_
      have := guard_lt hg3
      exact Safe.bind (readUIntAt_safe _ _ _ (by omega)) fun _ _ => Safe.pure _
    · exact Safe.pure _
  · exact Safe.pure _

theorem rftFilePos_safe (moop : Nat) (d : Bytes) (c3 : Nat) : Safe (rftFilePos moop d c3) := by
  unfold rftFilePos
  split
  · refine Safe.bind (Safe.guard _ _ rfl) fun _ hg => ?_
    have := guard_lt hg
    exact Safe.bind (readUIntAt_safe _ _ _ (by omega)) fun _ _ => Safe.pure _
  · exact Safe.pure _

theorem rftInterpret_safe (tol : Bool) (d : Bytes) : Safe (rftInterpret tol d) := by
  unfold rftInterpret
  refine Safe.bind (Safe.guard _ _ rfl) fun _ hg => ?_
  have := guard_lt hg
  refine Safe.bind (Safe.idx (by omega)) fun m _ => ?_
  exact Safe.bind (rftMaxLen_safe _ _) fun _ _ => Safe.bind (rftDfiEcho_safe _ _ _) fun _ _ => Safe.bind (rftSizes_safe _ _ _) fun _ _ =>
    Safe.bind (rftFilePos_safe _ _ _) fun _ _ => Safe.bind (Safe.guard _ _ rfl) fun _ _ => Safe.pure _

theorem rftClient_safe (moop : Nat) (dfiSent : Option Nat) (tol : Bool) (d : Bytes) : Safe (rftClient moop dfiSent tol d) := by
  unfold rftClient
  have hs := rftInterpret_safe tol d
  split
  · split
    · split
      · exact Safe.throw _ rfl
      · exact Safe.throw _ rfl
    · exact Safe.throw _ rfl
  · split
    · split
      · exact Safe.throw _ rfl
      · exact Safe.throw _ rfl
    · exact Safe.throw _ rfl
  · rename_i e _ _ he
    exact Safe.throw _ (hs e he)
  · split
    · exact Safe.throw _ rfl
    · split
      · split
        · exact Safe.throw _ rfl
        · exact Safe.pure _
      · exact Safe.pure _
  · exact Safe.pure _

/-! ### ReadDTCInformation -/

theorem take_len {bs : Bytes} {n : Nat} (h : n ≤ bs.length) : (bs.take n).length = n := by simp; omega

theorem mkRec4_safe (r : Bytes) (h : r.length = 4) : Safe (mkRec4 r) := by
  unfold mkRec4; exact Safe.bind (Safe.idx (by omega)) fun _ _ => Safe.pure _

theorem mkRec6_safe (r : Bytes) (h : r.length = 6) : Safe (mkRec6 r) := by
  unfold mkRec6
  exact Safe.bind (Safe.idx (by omega)) fun _ _ => Safe.bind (Safe.idx (by omega)) fun _ _ => Safe.bind (Safe.idx (by omega)) fun _ _ => Safe.pure _

theorem mkRec_safe (six : Bool) (r : Bytes) (h : r.length = (if six then 6 else 4)) : Safe (mkRec six r) := by
  unfold mkRec
  cases six
  · exact mkRec4_safe _ (by simpa using h)
  · exact mkRec6_safe _ (by simpa using h)

theorem optByte_safe (cond : Bool) (d : Bytes) (i : Nat) (h : cond = true → i < d.length) : Safe (optByte cond d i) := by
  unfold optByte
  cases cond
  · exact Safe.pure _
  · exact Safe.bind (Safe.idx (h rfl)) fun _ _ => Safe.pure _

theorem recordLoop_safe (tol ign six sf09 first : Bool) (rest : Bytes) (acc : List DtcRec) : Safe (recordLoop tol ign six sf09 first rest acc) := by
  induction h : rest.length using Nat.strongRecOn generalizing rest acc first with
  | _ n ih =>
    rw [recordLoop]
    simp only
    refine Safe.dite (fun _ => Safe.pure _) fun h0 => Safe.dite (fun _ => ?_) fun h1 => ?_
    · exact Safe.ite (fun _ => Safe.pure _) fun _ => Safe.ite (fun _ => Safe.throw _ rfl) fun _ => Safe.pure _
    · have hpos : 0 < (if six = true then 6 else 4) := by split <;> omega
      have hsz : (if six = true then 6 else 4) ≤ rest.length := by omega
      refine Safe.ite (fun _ => ih _ (by subst h; simp; omega) _ _ _ rfl) fun _ => ?_
      exact Safe.bind (mkRec_safe _ _ (take_len hsz)) fun x _ => ih _ (by subst h; simp; omega) _ _ _ rfl

theorem recordsInterpret_safe (c : DtcCfg) (sf : Nat) (six : Bool) (d : Bytes) (hd : 1 ≤ d.length) : Safe (recordsInterpret c sf six d) := by
  unfold recordsInterpret
  refine Safe.bind (Safe.idx (by omega)) fun e _ => ?_
  refine Safe.bind (Safe.guard _ _ rfl) fun _ hg => ?_
  have hl := guard_lt hg
  refine Safe.bind (optByte_safe _ _ _ (fun hms => by simp only [hms, if_true] at hl; omega)) fun ms _ => ?_
  refine Safe.bind (Safe.idx (by split at hl <;> simp_all <;> omega)) fun av _ => ?_
  exact Safe.bind (recordLoop_safe _ _ _ _ _ _ _) fun _ _ => Safe.pure _

theorem g3Loop_safe (tol ign ident : Bool) (rest : Bytes) (acc : List DtcRec) : Safe (g3Loop tol ign ident rest acc) := by
  induction h : rest.length using Nat.strongRecOn generalizing rest acc with
  | _ n ih =>
    rw [g3Loop]
    split
    · exact Safe.pure _
    · split
      · split
        · exact Safe.pure _
        · exact Safe.throw _ rfl
      · simp only
        split
        · exact ih _ (by subst h; simp; omega) _ _ rfl
        · refine Safe.bind (Safe.idx (by rw [take_len (by omega)]; omega)) fun x _ => ?_
          split
          · exact ih _ (by subst h; simp; omega) _ _ rfl
          · exact ih _ (by subst h; simp; omega) _ _ rfl

theorem g3Interpret_safe (c : DtcCfg) (ident : Bool) (d : Bytes) (hd : 1 ≤ d.length) : Safe (g3Interpret c ident d) := by
  unfold g3Interpret
  exact Safe.bind (Safe.idx (by omega)) fun _ _ => Safe.bind (g3Loop_safe _ _ _ _ _) fun _ _ => Safe.pure _

theorem countInterpret_safe (d : Bytes) (hd : 1 ≤ d.length) : Safe (countInterpret d) := by
  unfold countInterpret
  refine Safe.bind (Safe.idx (by omega)) fun _ _ => Safe.bind (Safe.guard _ _ rfl) fun _ hg => ?_
  have := guard_lt hg
  exact Safe.bind (Safe.idx (by omega)) fun _ _ => Safe.bind (Safe.idx (by omega)) fun _ _ =>
    Safe.bind (Safe.unpackBE (by rw [slice_length _ _ _ (by omega)])) fun _ _ => Safe.pure _

theorem snapDids_safe (cfg : Option DidCfg) (k rec n : Nat) (rest : Bytes) (acc : List Snap) : Safe (snapDids cfg k rec n rest acc) := by
  induction n generalizing rest acc with
  | zero => exact Safe.pure _
  | succ n ih =>
    unfold snapDids
    refine Safe.bind (Safe.guard _ _ rfl) fun _ _ => ?_
    refine Safe.bind (checkDidConfig_safe _ _) fun c _ => Safe.bind (fetchCodec_safe _ _) fun len _ => ?_
    cases len with
    | none => exact Safe.throw _ rfl
    | some l =>
      simp only
      split
      · exact Safe.throw _ rfl
      · exact ih _ _

/-- the cursor always advances: each DID consumes at least its `k ≥ 1` identifier bytes -/
theorem snapDids_shrinks (cfg : Option DidCfg) (k rec n : Nat) (rest : Bytes) (acc acc' : List Snap) (rest' : Bytes) (hk : 1 ≤ k) (hn : 1 ≤ n)
    (h : snapDids cfg k rec n rest acc = .ok (acc', rest')) : rest'.length < rest.length := by
  induction n generalizing rest acc with
  | zero => omega
  | succ n ih =>
    unfold snapDids at h
    simp only [bind_ok] at h
    obtain ⟨_, hg, c, _, len, _, h2⟩ := h
    have hlen := guard_lt hg
    cases len with
    | none => simp at h2
    | some l =>
      simp only at h2
      split at h2
      · simp at h2
      · cases n with
        | zero =>
          unfold snapDids at h2
          simp only [pure_ok, Prod.mk.injEq] at h2
          rw [← h2.2]; simp; omega
        | succ m =>
          have := ih _ _ (by omega) h2
          simp at this; omega

theorem snapByDtcLoop_safe (c : DtcCfg) (hk : 1 ≤ c.didSize) (rest : Bytes) (acc : List Snap) : Safe (snapByDtcLoop c rest acc) := by
  induction h : rest.length using Nat.strongRecOn generalizing rest acc with
  | _ n ih =>
    rw [snapByDtcLoop]
    split
    · exact Safe.pure _
    · split
      · exact Safe.pure _
      · split
        · exact Safe.throw _ rfl
        · refine Safe.bind (Safe.idx (by omega)) fun rec _ => Safe.bind (Safe.idx (by omega)) fun nd _ => ?_
          split
          · exact Safe.throw _ rfl
          · split
            · exact Safe.throw _ rfl
            · rename_i hn0 _
              refine Safe.bind (snapDids_safe _ _ _ _ _ _) fun p hp => ?_
              obtain ⟨acc', rest'⟩ := p
              have hsh := snapDids_shrinks _ _ _ _ _ _ _ _ hk (by
                have : nd.toNat ≠ 0 := by simpa using hn0
                omega) hp
              simp only
              have : rest'.length < rest.length := by simp at hsh; omega
              simp only [this, if_true]
              exact ih _ (by omega) _ _ rfl

theorem didSize_guard (c : DtcCfg) (hk : 1 ≤ c.didSize ∧ c.didSize ≤ 8) :
    guardPy (decide (c.didSize < 1 || c.didSize > 8)) PyErr.valueErr = .ok () := by
  apply guardPy_ok.2
  simp; omega

theorem snapByDtcInterpret_safe (c : DtcCfg) (sf : Nat) (d : Bytes) (hd : 1 ≤ d.length) (hk : 1 ≤ c.didSize ∧ c.didSize ≤ 8) :
    Safe (snapByDtcInterpret c sf d) := by
  unfold snapByDtcInterpret
  refine Safe.bind (Safe.idx (by omega)) fun e _ => Safe.bind (Safe.guard _ _ rfl) fun _ hg => ?_
  have hl := guard_lt hg
  refine Safe.bind (optByte_safe _ _ _ (fun hms => by simp only [hms, if_true] at hl; omega)) fun ms _ => ?_
  refine Safe.bind (Safe.idx (by split at hl <;> simp_all <;> omega)) fun st _ => ?_
  rw [didSize_guard c hk]
  exact Safe.bind (Safe.ok _) fun _ _ => Safe.bind (snapByDtcLoop_safe c hk.1 _ _) fun _ _ => Safe.pure _

theorem snapByRecordLoop_safe (c : DtcCfg) (hk : 1 ≤ c.didSize) (rest : Bytes) (acc : List DtcRec) : Safe (snapByRecordLoop c rest acc) := by
  induction h : rest.length using Nat.strongRecOn generalizing rest acc with
  | _ n ih =>
    rw [snapByRecordLoop]
    refine Safe.dite (fun _ => Safe.pure _) fun h0 => Safe.ite (fun _ => Safe.pure _) fun _ => Safe.ite (fun _ => Safe.pure _) fun _ => ?_
    refine Safe.dite (fun _ => Safe.throw _ rfl) fun h1 => Safe.dite (fun _ => Safe.throw _ rfl) fun h2 => ?_
    refine Safe.bind (Safe.idx (by omega)) fun rec _ => Safe.bind (Safe.idx (by omega)) fun st _ => Safe.bind (Safe.idx (by omega)) fun nd _ => ?_
    simp only
    refine Safe.ite (fun _ => Safe.throw _ rfl) fun hn0 => Safe.ite (fun _ => Safe.throw _ rfl) fun _ => Safe.ite (fun _ => Safe.pure _) fun _ => ?_
    refine Safe.bind (snapDids_safe _ _ _ _ _ _) fun p hp => ?_
    obtain ⟨snaps, rest'⟩ := p
    have hsh := snapDids_shrinks _ _ _ _ _ _ _ _ hk (by
      have : nd.toNat ≠ 0 := by simpa using hn0
      omega) hp
    simp only
    have : rest'.length < rest.length := by simp at hsh; omega
    simp only [this, if_true]
    exact ih _ (by omega) _ _ rfl

theorem snapByRecordInterpret_safe (c : DtcCfg) (d : Bytes) (hd : 1 ≤ d.length) (hk : 1 ≤ c.didSize ∧ c.didSize ≤ 8) :
    Safe (snapByRecordInterpret c d) := by
  unfold snapByRecordInterpret
  refine Safe.bind (Safe.idx (by omega)) fun e _ => ?_
  rw [didSize_guard c hk]
  exact Safe.bind (Safe.ok _) fun _ _ => Safe.bind (Safe.guard _ _ rfl) fun _ _ => Safe.bind (snapByRecordLoop_safe c hk.1 _ _) fun _ _ => Safe.pure _

/-- `extended_data_size` is given and valid (it is a client-side argument / configuration value) -/
def extValid (e : ExtSize) : Prop := checkExtSize e = .ok ()

theorem extSizeFor_safe (e : ExtSize) (dtc : Nat) (h : extValid e) : Safe (extSizeFor e dtc) := by
  unfold extSizeFor
  cases e with
  | none => simp [extValid, checkExtSize] at h
  | int n => exact Safe.pure _
  | dict l =>
    simp only
    split
    · exact Safe.pure _
    · exact Safe.throw _ rfl

theorem extByDtcLoop_safe (tol : Bool) (size : Nat) (rest : Bytes) (acc : List (Nat × Bytes)) : Safe (extByDtcLoop tol size rest acc) := by
  induction h : rest.length using Nat.strongRecOn generalizing rest acc with
  | _ n ih =>
    rw [extByDtcLoop]
    refine Safe.dite (fun _ => Safe.pure _) fun h0 => Safe.bind (Safe.idx (by omega)) fun rec _ => ?_
    refine Safe.ite (fun _ => Safe.ite (fun _ => Safe.pure _) fun _ => Safe.throw _ rfl) fun _ => ?_
    simp only
    exact Safe.ite (fun _ => Safe.throw _ rfl) fun _ => ih _ (by subst h; simp; omega) _ _ rfl

theorem extByDtcInterpret_safe (c : DtcCfg) (sf : Nat) (d : Bytes) (hd : 1 ≤ d.length) (he : extValid c.ext) : Safe (extByDtcInterpret c sf d) := by
  unfold extByDtcInterpret
  refine Safe.bind (Safe.idx (by omega)) fun e _ => ?_
  rw [he]
  refine Safe.bind (Safe.ok _) fun _ _ => Safe.bind (Safe.guard _ _ rfl) fun _ hg => ?_
  have hl := guard_lt hg
  refine Safe.bind (optByte_safe _ _ _ (fun hms => by simp only [hms, if_true] at hl; omega)) fun ms _ => ?_
  refine Safe.bind (Safe.idx (by split at hl <;> simp_all <;> omega)) fun st _ => ?_
  exact Safe.bind (extSizeFor_safe _ _ he) fun _ _ => Safe.bind (extByDtcLoop_safe _ _ _ _) fun _ _ => Safe.pure _

theorem extByRecordLoop_safe (c : DtcCfg) (he : extValid c.ext) (rec : Nat) (rest : Bytes) (seen : List Nat) (acc : List DtcRec) :
    Safe (extByRecordLoop c rec rest seen acc) := by
  induction h : rest.length using Nat.strongRecOn generalizing rest seen acc with
  | _ n ih =>
    rw [extByRecordLoop]
    refine Safe.dite (fun _ => Safe.pure _) fun h0 => ?_
    simp only
    refine Safe.ite (fun _ => Safe.ite (fun _ => Safe.pure _) fun _ => Safe.throw _ rfl) fun _ => ?_
    refine Safe.dite (fun _ => Safe.throw _ rfl) fun h1 => Safe.ite (fun _ => Safe.throw _ rfl) fun _ => ?_
    refine Safe.bind (Safe.idx (by omega)) fun st _ => Safe.bind (extSizeFor_safe _ _ he) fun size _ => ?_
    exact Safe.ite (fun _ => Safe.throw _ rfl) fun _ => ih _ (by subst h; simp; omega) _ _ _ rfl

theorem extByRecordInterpret_safe (c : DtcCfg) (d : Bytes) (hd : 1 ≤ d.length) (he : extValid c.ext) : Safe (extByRecordInterpret c d) := by
  unfold extByRecordInterpret
  refine Safe.bind (Safe.idx (by omega)) fun e _ => ?_
  rw [he]
  refine Safe.bind (Safe.ok _) fun _ _ => Safe.bind (Safe.guard _ _ rfl) fun _ hg => ?_
  have := guard_lt hg
  refine Safe.bind (Safe.idx (by omega)) fun rec _ => Safe.bind (Safe.guard _ _ rfl) fun _ _ => ?_
  exact Safe.bind (extByRecordLoop_safe c he _ _ _ _) fun _ _ => Safe.pure _

theorem wwhLoop_safe (tol ign : Bool) (rest : Bytes) (acc : List DtcRec) : Safe (wwhLoop tol ign rest acc) := by
  induction h : rest.length using Nat.strongRecOn generalizing rest acc with
  | _ n ih =>
    rw [wwhLoop]
    refine Safe.dite (fun _ => Safe.pure _) fun h0 => Safe.dite (fun _ => Safe.ite (fun _ => Safe.pure _) fun _ => Safe.throw _ rfl) fun h1 => ?_
    simp only
    refine Safe.ite (fun _ => ih _ (by subst h; simp; omega) _ _ rfl) fun _ => ?_
    have hl : (rest.take 5).length = 5 := take_len (by omega)
    exact Safe.bind (Safe.idx (by omega)) fun _ _ => Safe.bind (Safe.idx (by omega)) fun _ _ => ih _ (by subst h; simp; omega) _ _ rfl

theorem wwhInterpret_safe (c : DtcCfg) (mask : Bool) (d : Bytes) (hd : 1 ≤ d.length) : Safe (wwhInterpret c mask d) := by
  unfold wwhInterpret
  refine Safe.bind (Safe.idx (by omega)) fun e _ => Safe.bind (Safe.guard _ _ rfl) fun _ hg => ?_
  have hl := guard_lt hg
  have h4 : 4 ≤ d.length := by split at hl <;> omega
  refine Safe.bind (Safe.idx (by omega)) fun fg _ => Safe.bind (Safe.idx (by omega)) fun av _ => ?_
  refine Safe.bind (optByte_safe _ _ _ (fun _ => by omega)) fun sevAv _ => ?_
  refine Safe.bind (Safe.idx (by split at hl <;> split <;> simp_all <;> omega)) fun fmt _ => ?_
  exact Safe.bind (Safe.guard _ _ rfl) fun _ _ => Safe.bind (Safe.guard _ _ rfl) fun _ _ => Safe.bind (wwhLoop_safe _ _ _ _) fun _ _ => Safe.pure _

/-- the client configuration the interpreter reads is itself valid -/
structure DtcCfgValid (c : DtcCfg) : Prop where
  didSize : 1 ≤ c.didSize ∧ c.didSize ≤ 8
  ext : extValid c.ext

/-- **ReadDTCInformation.interpret_response**: for every sub-function `make_request` accepted (it runs the same
    `check_subfunction_valid` before anything is sent) and every byte string -/
theorem dtcInterpret_safe (c : DtcCfg) (sf : Int) (d : Bytes) (hv : DtcCfgValid c) (hsf : checkSubfunctionValid sf c.std = .ok ()) :
    Safe (dtcInterpret c sf d) := by
  unfold dtcInterpret
  rw [hsf]
  refine Safe.bind (Safe.ok _) fun _ _ => Safe.bind (Safe.guard _ _ rfl) fun _ hg => ?_
  · have hd := guard_lt hg
    split
    · exact recordsInterpret_safe _ _ _ _ hd
    · exact recordsInterpret_safe _ _ _ _ hd
    · exact g3Interpret_safe _ _ _ hd
    · exact g3Interpret_safe _ _ _ hd
    · exact countInterpret_safe _ hd
    · exact snapByDtcInterpret_safe _ _ _ hd hv.didSize
    · exact snapByRecordInterpret_safe _ _ hd hv.didSize
    · exact extByDtcInterpret_safe _ _ _ hd hv.ext
    · exact extByRecordInterpret_safe _ _ hd hv.ext
    · exact wwhInterpret_safe _ _ _ hd
    · exact wwhInterpret_safe _ _ _ hd
    · exact Safe.bind (Safe.idx (by omega)) fun _ _ => Safe.pure _

/-- the request context carries what `make_request` demanded for the sub-function -/
def ctxOk (q : DtcReqCtx) : Prop :=
  let sf := q.sf.toNat
  ((sf = 0x04 ∨ sf = 0x18) → q.dtc.isSome = true ∧ q.snapRec.isSome = true) ∧
  (sf = 0x05 → q.snapRec.isSome = true) ∧
  ((sf = 0x06 ∨ sf = 0x10 ∨ sf = 0x19) → q.extRec.isSome = true) ∧
  ((sf = 0x42 ∨ sf = 0x55) → q.fgid.isSome = true)

theorem recEcho_safe (d : Bytes) (w : Nat) (h : 2 ≤ d.length) : Safe (recEcho d w) := by
  unfold recEcho
  exact Safe.bind (Safe.idx (by omega)) fun _ _ => Safe.guard _ _ rfl

theorem dtcPost_safe (q : DtcReqCtx) (r : DtcData) (d : Bytes) (hq : ctxOk q) (hfg : (q.sf.toNat = 0x42 ∨ q.sf.toNat = 0x55) → r.fgid.isSome = true)
    (hlen : (q.sf.toNat = 0x05 ∨ q.sf.toNat = 0x16) → 2 ≤ d.length) :
    Safe (dtcPost q r d) := by
  obtain ⟨h1, h2, h3, h4⟩ := hq
  unfold dtcPost
  refine Safe.bind ?_ fun _ _ => Safe.bind ?_ fun _ _ => Safe.bind ?_ fun _ _ => Safe.bind ?_ fun _ _ => Safe.bind ?_ fun _ _ => ?_
  · unfold postSnapDtc
    refine Safe.ite (fun hc => ?_) fun _ => Safe.pure _
    have := (h1 (by simpa using hc)).1
    cases hd : q.dtc with
    | none => simp [hd] at this
    | some w =>
      split
      · exact Safe.guard _ _ rfl
      · rename_i heq; simp at heq
      · exact Safe.pure _
  · unfold postSnapRec
    refine Safe.ite (fun hc => ?_) fun _ => Safe.pure _
    have : q.snapRec.isSome = true := by
      simp only [Bool.or_eq_true, beq_iff_eq] at hc
      rcases hc with (hc | hc) | hc
      · exact h2 hc
      · exact (h1 (Or.inl hc)).2
      · exact (h1 (Or.inr hc)).2
    cases hs : q.snapRec with
    | none => simp [hs] at this
    | some w =>
      refine Safe.ite (fun _ => ?_) fun _ => Safe.pure _
      refine Safe.bind (Safe.ite (fun h5 => recEcho_safe _ _ (hlen (Or.inl (by simpa using h5)))) fun _ => Safe.pure _) fun _ _ => ?_
      exact Safe.guard _ _ rfl
  · unfold postExtRec
    refine Safe.ite (fun hc => ?_) fun _ => Safe.pure _
    have : q.extRec.isSome = true := h3 (by simp only [Bool.or_eq_true, beq_iff_eq] at hc; omega)
    cases hs : q.extRec with
    | none => simp [hs] at this
    | some w =>
      simp only
      split
      · exact Safe.guard _ _ rfl
      · exact Safe.pure _
  · unfold postMemSel
    refine Safe.ite (fun _ => ?_) fun _ => Safe.pure _
    split
    · exact Safe.guard _ _ rfl
    · exact Safe.pure _
  · unfold postExtByRecord
    refine Safe.ite (fun h16 => ?_) fun _ => Safe.pure _
    split
    · exact Safe.bind (recEcho_safe _ _ (hlen (Or.inr (by simpa using h16)))) fun _ _ => Safe.guard _ _ rfl
    · exact Safe.pure _
  · unfold postFgid
    refine Safe.ite (fun hc => ?_) fun _ => Safe.pure _
    have hc' : q.sf.toNat = 0x42 ∨ q.sf.toNat = 0x55 := by
      simp only [Bool.or_eq_true, beq_iff_eq] at hc; omega
    have a := hfg hc'
    have b := h4 hc'
    cases hr : r.fgid with
    | none => simp [hr] at a
    | some g =>
      cases hq : q.fgid with
      | none => simp [hq] at b
      | some w => exact Safe.guard _ _ rfl

theorem wwhInterpret_fgid (c : DtcCfg) (mask : Bool) (d : Bytes) (r : DtcData) (h : wwhInterpret c mask d = .ok r) : r.fgid.isSome = true := by
  unfold wwhInterpret at h
  simp only [bind_ok, pure_ok] at h
  obtain ⟨_, _, _, _, _, _, _, _, _, _, _, _, _, _, _, _, _, _, rfl⟩ := h
  rfl

theorem dtcInterpret_fgid (c : DtcCfg) (sf : Int) (d : Bytes) (r : DtcData) (h : dtcInterpret c sf d = .ok r)
    (hsf : sf.toNat = 0x42 ∨ sf.toNat = 0x55) : r.fgid.isSome = true := by
  unfold dtcInterpret at h
  simp only [bind_ok] at h
  obtain ⟨_, _, _, _, h⟩ := h
  rcases hsf with hsf | hsf <;> rw [hsf] at h
  · have : dtcRespGroup 0x42 = .wwhMask := by decide
    rw [this] at h; exact wwhInterpret_fgid _ _ _ _ h
  · have : dtcRespGroup 0x55 = .wwhPerm := by decide
    rw [this] at h; exact wwhInterpret_fgid _ _ _ _ h

theorem dtcInterpret_len2 (c : DtcCfg) (sf : Int) (d : Bytes) (r : DtcData) (h : dtcInterpret c sf d = .ok r)
    (hsf : sf.toNat = 0x05 ∨ sf.toNat = 0x16) : 2 ≤ d.length := by
  unfold dtcInterpret at h
  simp only [bind_ok] at h
  obtain ⟨_, _, _, _, h⟩ := h
  rcases hsf with hsf | hsf <;> rw [hsf] at h
  · have : dtcRespGroup 0x05 = .snapByRecord := by decide
    rw [this] at h
    simp only [snapByRecordInterpret, bind_ok, guardPy_ok] at h
    obtain ⟨_, _, _, _, _, hl, _⟩ := h
    simpa using hl
  · have : dtcRespGroup 0x16 = .extByRecord := by decide
    rw [this] at h
    simp only [extByRecordInterpret, bind_ok, guardPy_ok] at h
    obtain ⟨_, _, _, _, _, hl, _⟩ := h
    simpa using hl

/-- **read_dtc_information** (and the 26 getters built on it): every reply ends in a result or a documented exception -/
theorem dtcClient_safe (c : DtcCfg) (q : DtcReqCtx) (d : Bytes) (hv : DtcCfgValid c) (hsf : checkSubfunctionValid q.sf c.std = .ok ())
    (hq : ctxOk q) : Safe (dtcClient c q d) := by
  unfold dtcClient
  have hs := dtcInterpret_safe c q.sf d hv hsf
  split
  · rename_i r hr
    refine Safe.ite (fun _ => Safe.throw _ rfl) fun _ => ?_
    exact Safe.bind (dtcPost_safe q r d hq (dtcInterpret_fgid c q.sf d r hr) (dtcInterpret_len2 c q.sf d r hr)) fun _ _ => Safe.pure _
  · rename_i e he
    split
    · exact Safe.ite (fun _ => Safe.throw _ rfl) fun _ => Safe.throw _ (hs e he)
    · exact Safe.throw _ (hs e he)

/-! ### non-vacuity: the hypotheses are satisfiable, and a truncated snapshot reply (the F7 input) is now an invalid response -/
example : DtcCfgValid { ext := .int 2 } := ⟨by decide, by unfold extValid checkExtSize; rfl⟩
example : ioClient { entries := [(0x1234, { codecLen := some 1 })] } 0x1234 none true [0x12] = .error .invalid := by decide
example : ioClient { entries := [(0x1234, { codecLen := some 1 })] } 0x1234 (some 1) true [0x12, 0x34] = .error .invalid := by decide

/-! ### call level: whole frames, any schedule -/

/-- whatever frames arrive and whenever: the wait loop raises only timeout / negative / invalid / unexpected -/
theorem waitLoop_documented (dl : Option Nat) (ps : Nat) (cb : Bool) (rid : Nat) (spr : Bool) (now single : Nat) (star : Bool)
    (arr : List Frame) (e : PyErr) (r : Option Response) (k : Option TimeoutKind)
    (h : (waitLoop dl ps cb rid spr now single star arr).outcome = .raised e r k) : e.documented = true := by
  induction arr generalizing now single star with
  | nil =>
    rw [waitLoop] at h
    simp only [] at h
    split at h <;> first | (cases h; rfl) | cases h
  | cons f rest ih =>
    rw [waitLoop] at h
    simp only [] at h
    split at h
    · have hna := Uds.Props.C05.never_assert rid f.payload
      unfold Uds.Props.C05.classify at hna
      split at h
      all_goals first
        | (cases h; rfl)
        | (exfalso; exact hna ‹_›)
        | (split at h <;> first | (cases h; rfl) | cases h)
        | exact ih _ _ _ h
    · split at h <;> first | (cases h; rfl) | cases h

theorem packB_some {n : Nat} (h : n < 256) : ∃ b, packB n = .ok b := by
  unfold packB; simp [h, pure, Except.pure]

/-- a request of the shape the simple builders produce has a payload, with and without the suppress bit -/
theorem payload_ok (req : Request) (s : Service) (hs : req.service = some s) (hsid : s.sid < 256) (hspr : req.spr = false)
    (hsf : s.useSubfn = true → ∃ sf, req.subfunction = some sf ∧ sf < 128) :
    (∃ p, req.getPayload none = .ok p) ∧ (s.useSubfn = true → ∃ p, req.getPayload (some true) = .ok p) := by
  obtain ⟨a, ha⟩ := packB_some hsid
  cases hu : s.useSubfn with
  | false =>
    refine ⟨?_, fun h => by cases h⟩
    simp [Request.getPayload, hs, hu, hspr, ha, bind, Except.bind, pure, Except.pure]
  | true =>
    obtain ⟨sf, hsf1, hsf2⟩ := hsf hu
    obtain ⟨b, hb⟩ := packB_some (show sf < 256 by omega)
    have h7 : setBit7 sf < 256 := by
      unfold setBit7
      exact Nat.or_lt_two_pow (n := 8) (by omega) (by decide)
    obtain ⟨c, hc⟩ := packB_some h7
    refine ⟨?_, fun _ => ?_⟩
    · simp [Request.getPayload, hs, hu, hspr, hsf1, ha, hb, bind, Except.bind, pure, Except.pure]
    · simp [Request.getPayload, hs, hu, hsf1, ha, hc, bind, Except.bind, pure, Except.pure]

/-- `send_request` on such a request: whatever arrives, only documented outcomes are raised -/
theorem send_documented (cfg : SendCfg) (st : ClientState) (req : Request) (timeout : Option Nat) (arr : List Frame) (s : Service)
    (hs : req.service = some s) (hsid : s.sid < 256) (hspr : req.spr = false)
    (hsf : s.useSubfn = true → ∃ sf, req.subfunction = some sf ∧ sf < 128)
    (e : PyErr) (r : Option Response) (k : Option TimeoutKind)
    (h : (sendRequest cfg st req timeout arr).outcome = .raised e r k) : e.documented = true := by
  obtain ⟨⟨p0, hp0⟩, hp1⟩ := payload_ok req s hs hsid hspr hsf
  unfold sendRequest at h
  simp only [hs] at h
  by_cases hu : (st.spr.enabled && s.useSubfn) = true
  · obtain ⟨p1, hp1⟩ := hp1 (by simp at hu; exact hu.2)
    simp only [hu, if_true, hp1] at h
    split at h
    · cases h
    · exact waitLoop_documented _ _ _ _ _ _ _ _ _ _ _ _ h
  · have hu' : (st.spr.enabled && s.useSubfn) = false := by simpa using hu
    simp only [hu', Bool.false_eq_true, if_false, hp0] at h
    split at h
    · cases h
    · exact waitLoop_documented _ _ _ _ _ _ _ _ _ _ _ _ h

theorem echo1_safe (d : Bytes) : Safe (echo1 d) := by
  unfold echo1
  by_cases h : d.length < 1
  · rw [if_pos h]; exact Safe.throw _ rfl
  · rw [if_neg h]; exact Safe.bind (Safe.idx (by omega)) fun _ _ => Safe.pure _

theorem Safe.ite_throw_bind {α β : Type} {c : Prop} [Decidable c] {e : PyErr} {f : α → Py β} {k : Py β} (he : e.ofReply = true) (hk : Safe k) :
    Safe (if c then ((throw e : Py α) >>= f) else k) := by
  by_cases h : c
  · rw [if_pos h]; intro e' h'; simp [bind, Except.bind, throw, throwThe, MonadExceptOf.throw] at h'; subst h'; exact he
  · rw [if_neg h]; exact hk

theorem echoPost_safe (t : Int) (d : Bytes) : Safe (echoPost t d) := by
  unfold echoPost
  exact Safe.bind (echo1_safe d) fun _ _ => Safe.ite_throw_bind (e := .unexpected) rfl (Safe.pure _)

theorem transferDataPost_safe (t : Int) (d : Bytes) : Safe (transferDataPost t d) := by
  unfold transferDataPost
  exact Safe.bind (echo1_safe d) fun _ _ => Safe.ite_throw_bind (e := .unexpected) rfl (Safe.pure _)

theorem ecuResetPost_safe (t : Int) (d : Bytes) : Safe (ecuResetPost t d) := by
  unfold ecuResetPost
  refine Safe.bind (echo1_safe d) fun e _ => ?_
  by_cases h4 : (e == 4) = true
  · rw [if_pos h4]
    refine Safe.bind ?_ fun _ _ => Safe.ite_throw_bind (e := .unexpected) rfl (Safe.pure _)
    by_cases h2 : d.length < 2
    · rw [if_pos h2]; exact Safe.throw _ rfl
    · rw [if_neg h2]; exact Safe.bind (Safe.idx (by omega)) fun _ _ => Safe.pure _
  · rw [if_neg h4]
    exact Safe.bind (Safe.pure _) fun _ _ => Safe.ite_throw_bind (e := .unexpected) rfl (Safe.pure _)

theorem saPost_safe (m : SaMode) (l : Int) (d : Bytes) (hl : 1 ≤ l ∧ l ≤ 0x7E) : Safe (saPost m l d) := by
  obtain ⟨n, hn⟩ := normalizeLevel_safe m l hl
  unfold saPost
  simp only []
  by_cases h : d.length < (if (m == SaMode.requestSeed) = true then 2 else 1)
  · rw [if_pos h]; intro e' h'; simp [bind, Except.bind, throw, throwThe, MonadExceptOf.throw] at h'; subst h'; rfl
  · rw [if_neg h]
    have : 0 < d.length := by split at h <;> omega
    refine Safe.bind (Safe.idx this) fun _ _ => ?_
    rw [hn]
    exact Safe.bind (Safe.ok _) fun _ _ => Safe.ite_throw_bind (e := .unexpected) rfl (Safe.pure _)

theorem routineControlPost_safe (rid ct : Int) (d : Bytes) : Safe (routineControlPost rid ct d) := by
  unfold routineControlPost
  simp only []
  by_cases h : d.length < 3
  · rw [if_pos h]; intro e' h'; simp [bind, Except.bind, throw, throwThe, MonadExceptOf.throw] at h'; subst h'; rfl
  · rw [if_neg h]
    exact Safe.bind (Safe.idx (by omega)) fun _ _ => Safe.ite_throw_bind (e := .unexpected) rfl (Safe.ite_throw_bind (e := .unexpected) rfl (Safe.pure _))

/-- the checks a client method runs on the reply data, for in-domain arguments and one of the three editions -/
theorem post_safe (std : Nat) (e : Entry) (d : Bytes) (hstd : std > 2006 → std ≥ 2013)
    (hlevel : ∀ l x, (e = .requestSeed l x ∨ e = .sendKey l x) → 1 ≤ l ∧ l ≤ 0x7E) : Safe (e.post std d) := by
  cases e with
  | changeSession n =>
    simp only [Entry.post]
    refine Safe.bind (dsc_safe std d) fun sd hsd => Safe.ite_throw_bind (e := .unexpected) rfl ?_
    by_cases h6 : std > 2006
    · rw [if_pos h6]
      have h13 := hstd h6
      unfold dscInterpret at hsd
      simp only [bind_ok] at hsd
      obtain ⟨x, _, hx⟩ := hsd
      rw [if_pos h13] at hx
      split at hx
      · simp at hx
      · simp only [pure_ok] at hx; subst hx; exact Safe.pure _
    · rw [if_neg h6]; exact Safe.pure _
  | ecuReset t => simp only [Entry.post]; exact Safe.bind (ecuResetPost_safe t d) fun _ _ => Safe.pure _
  | requestSeed l x => simp only [Entry.post]; exact Safe.bind (saPost_safe _ l d (hlevel l x (Or.inl rfl))) fun _ _ => Safe.pure _
  | sendKey l x => simp only [Entry.post]; exact Safe.bind (saPost_safe _ l d (hlevel l x (Or.inr rfl))) fun _ _ => Safe.pure _
  | testerPresent => simp only [Entry.post]; exact Safe.bind (echoPost_safe _ d) fun _ _ => Safe.pure _
  | commControl a b c => simp only [Entry.post]; exact Safe.bind (echoPost_safe _ d) fun _ _ => Safe.pure _
  | accessTiming a b => simp only [Entry.post]; exact Safe.bind (echoPost_safe _ d) fun _ _ => Safe.pure _
  | controlDtc a b => simp only [Entry.post]; exact Safe.bind (echoPost_safe _ d) fun _ _ => Safe.pure _
  | linkControl a b => simp only [Entry.post]; exact Safe.bind (echoPost_safe _ d) fun _ _ => Safe.pure _
  | routineControl rid ct x => simp only [Entry.post]; exact Safe.bind (routineControlPost_safe _ _ d) fun _ _ => Safe.pure _
  | transferData q x => simp only [Entry.post]; exact Safe.bind (transferDataPost_safe _ d) fun _ _ => Safe.pure _
  | transferExit x => simp only [Entry.post]; exact Safe.pure _
  | clearDtc a b => simp only [Entry.post]; exact Safe.pure _

/-- **call level** (the 13 simple entry points): whatever frames the connection delivers — any bytes, any number, any timing —
    the client method returns, or raises a documented outcome; the only other way to fail is the refusal of the arguments by the
    request builder, before anything is sent -/
theorem call_documented (cfg : CallCfg) (st : ClientState) (e : Entry) (arr : List Frame) (hstd : cfg.std > 2006 → cfg.std ≥ 2013)
    (hlevel : ∀ l x, (e = .requestSeed l x ∨ e = .sendKey l x) → 1 ≤ l ∧ l ≤ 0x7E) :
    match (callInner cfg st e arr).inner with
    | .ret _ => True
    | .exc err _ => err.documented = true ∨ (e.makeRequest cfg.std = .error err ∧ (callInner cfg st e arr).log = []) := by
  unfold callInner
  cases hm : e.makeRequest cfg.std with
  | error err => simp
  | ok req =>
    simp only []
    obtain ⟨hspr, s, hs, hsid, hus, hsf⟩ := Uds.Props.C03.req_shape cfg.std e req hm
    cases ho : (sendRequest cfg.send st req none arr).outcome with
    | none => simp
    | raised err r k =>
      simp only []
      exact Or.inl (send_documented cfg.send st req none arr s hs hsid hspr (fun h => hsf (by rw [← hus]; exact h)) err r k ho)
    | resp resp =>
      simp only []
      cases hp : e.post cfg.std resp.data with
      | error err => simp only []; exact Or.inl ((post_safe cfg.std e resp.data hstd hlevel).documented err hp)
      | ok t => simp

example : (callInner { send := ⟨none, 1000, 5000, false⟩ } {} .testerPresent [⟨3, [0x7F, 0x3E]⟩]).inner =
    .exc .invalid (some (Response.fromPayload [0x7F, 0x3E])) := by decide

/-! ### call level, every service family: `send_request` followed by the method's interpretation and checks -/

/-- a request that has a payload also has one with the suppress bit forced (the client inside a suppress block) -/
theorem payload_forced (req : Request) (s : Service) (hs : req.service = some s) (hu : s.useSubfn = true) (p : Bytes)
    (hp : req.getPayload none = .ok p) : ∃ p', req.getPayload (some true) = .ok p' := by
  unfold Request.getPayload at hp ⊢
  simp only [hs, hu, if_true] at hp ⊢
  cases hsf : req.subfunction with
  | none => simp [hsf] at hp
  | some sf0 =>
    simp only [hsf, bind_ok, pure_ok] at hp ⊢
    obtain ⟨a, ha, b, hb, _⟩ := hp
    have hlt : (if req.spr then setBit7 sf0 else sf0) < 256 := by
      unfold packB at hb
      by_cases h : (if req.spr then setBit7 sf0 else sf0) < 256
      · exact h
      · simp [h] at hb
    have hsf0 : sf0 < 256 := by
      cases hspr : req.spr with
      | false => simpa [hspr] using hlt
      | true =>
        rw [hspr] at hlt
        simp only [if_true] at hlt
        unfold setBit7 at hlt
        exact Nat.lt_of_le_of_lt Nat.left_le_or hlt
    have h7 : setBit7 sf0 < 256 := by unfold setBit7; exact Nat.or_lt_two_pow (n := 8) (by omega) (by decide)
    obtain ⟨c, hc⟩ := packB_some h7
    exact ⟨_, a, ha, c, hc, rfl⟩

/-- `send_request` on any request that has a payload: whatever arrives, only documented outcomes are raised -/
theorem send_documented' (cfg : SendCfg) (st : ClientState) (req : Request) (timeout : Option Nat) (arr : List Frame) (p : Bytes)
    (hp : req.getPayload none = .ok p) (e : PyErr) (r : Option Response) (k : Option TimeoutKind)
    (h : (sendRequest cfg st req timeout arr).outcome = .raised e r k) : e.documented = true := by
  unfold sendRequest at h
  cases hs : req.service with
  | none => simp [Request.getPayload, hs, throw, throwThe, MonadExceptOf.throw] at hp
  | some s =>
    simp only [hs] at h
    by_cases hu : (st.spr.enabled && s.useSubfn) = true
    · obtain ⟨p1, hp1⟩ := payload_forced req s hs (by simp at hu; exact hu.2) p hp
      simp only [hu, if_true, hp1] at h
      split at h
      · cases h
      · exact waitLoop_documented _ _ _ _ _ _ _ _ _ _ _ _ h
    · have hu' : (st.spr.enabled && s.useSubfn) = false := by simpa using hu
      simp only [hu', Bool.false_eq_true, if_false, hp] at h
      split at h
      · cases h
      · exact waitLoop_documented _ _ _ _ _ _ _ _ _ _ _ _ h

/-- **any client method**: if its request has a payload and its interpretation + checks can only fail in documented ways, then for every
    list of frames — any bytes, any number, any timing — the call returns or raises a documented outcome -/
theorem callWith_documented {α : Type} (cfg : SendCfg) (st : ClientState) (req : Request) (post : Bytes → Py α) (arr : List Frame) (p : Bytes)
    (hp : req.getPayload none = .ok p) (hpost : ∀ d, Safe (post d)) : (callWith cfg st req post arr).Documented := by
  unfold callWith
  cases ho : (sendRequest cfg st req none arr).outcome with
  | none => simp [CallOut.Documented]
  | raised e r k => simp only [CallOut.Documented]; exact send_documented' cfg st req none arr p hp e r k ho
  | resp r =>
    simp only []
    cases hq : post r.data with
    | ok v => simp [CallOut.Documented]
    | error e => simp only [CallOut.Documented]; exact (hpost r.data).documented e hq

/-! the families: the request is whatever the family's builder returned; the interpretation is the family's client-side check -/

theorem rdbi_call_documented (cfg : SendCfg) (st : ClientState) (c : DidCfg) (tol : Bool) (dids : List Int) (req : Request) (arr : List Frame)
    (h : rdbiMakeRequest (some c) dids = .ok req) :
    (callWith cfg st req (rdbiClient c tol (dids.map Int.toNat)) arr).Documented :=
  callWith_documented cfg st req _ arr _ (Uds.Props.C01.rdbi_frame_decodes (some c) dids req {} h).1 (fun d => rdbiClient_safe c tol _ d)

theorem wdbi_call_documented (cfg : SendCfg) (st : ClientState) (c : DidCfg) (did : Int) (v : Bytes) (req : Request) (arr : List Frame)
    (h : wdbiMakeRequest c did v = .ok req) :
    (callWith cfg st req (wdbiClient did.toNat) arr).Documented :=
  callWith_documented cfg st req _ arr _ (Uds.Props.C01.wdbi_frame_decodes c did v req {} h).1 (fun d => wdbiClient_safe _ d)

theorem io_call_documented (cfg : SendCfg) (st : ClientState) (c : IoCfg) (tol : Bool) (did : Int) (cp : Option Int) (values : Option Bytes) (masks : Option MaskArg)
    (req : Request) (arr : List Frame) (hv : ioCfgValid c) (h : ioMakeRequest c did cp values masks = .ok req) :
    (callWith cfg st req (ioClient c did.toNat (cp.map Int.toNat) tol) arr).Documented := by
  obtain ⟨e, m, _, _, hp, _⟩ := Uds.Props.C01.io_frame_decodes c did cp values masks req h
  exact callWith_documented cfg st req _ arr _ hp (fun d => ioClient_safe c _ _ tol d hv)

theorem rft_call_documented (cfg : SendCfg) (st : ClientState) (tol : Bool) (moop : Int) (path : Bytes) (dfi : Option Nat) (fs : Option FilesizeArg)
    (req : Request) (arr : List Frame) (h : rftMakeRequest moop path dfi fs = .ok req) :
    (callWith cfg st req (rftClient moop.toNat dfi tol) arr).Documented := by
  obtain ⟨frame, x, f, hp, _⟩ := Uds.Props.C01.rft_frame_decodes moop path dfi fs req {} h
  exact callWith_documented cfg st req _ arr _ hp (fun d => rftClient_safe _ _ tol d)

theorem auth_call_documented (cfg : SendCfg) (st : ClientState) (a : AuthArgs) (req : Request) (arr : List Frame) (h : authMakeRequest a = .ok req) :
    (callWith cfg st req (authClient a.task.toNat) arr).Documented := by
  obtain ⟨data, hp, _⟩ := Uds.Props.C01.auth_frame_decodes a req {} h
  exact callWith_documented cfg st req _ arr _ hp (fun d => authClient_safe _ d)

theorem dtc_call_documented (cfg : SendCfg) (st : ClientState) (c : DtcCfg) (a : DtcArgs) (q : DtcReqCtx) (req : Request) (arr : List Frame)
    (hv : DtcCfgValid c) (hq : ctxOk q) (hqs : q.sf = a.sf) (hsf : checkSubfunctionValid a.sf c.std = .ok ()) (hg : dtcReqGroup a.sf.toNat ≠ .other)
    (h : dtcMakeRequest c.std a = .ok req) :
    (callWith cfg st req (dtcClient c q) arr).Documented := by
  obtain ⟨data, sev, _, hp, _⟩ := Uds.Props.C01.dtc_frame_decodes c.std a req {} h hg
  exact callWith_documented cfg st req _ arr _ hp (fun d => dtcClient_safe c q d hv (by rw [hqs]; exact hsf) hq)

theorem dddByDid_call_documented (cfg : SendCfg) (st : ClientState) (did : Int) (entries : List DddSrc) (strict : Bool) (req : Request) (arr : List Frame)
    (h : dddByDidMakeRequest did entries = .ok req) :
    (callWith cfg st req (dddClient 1 (some did.toNat) strict) arr).Documented := by
  obtain ⟨frame, hp, _⟩ := Uds.Props.C01.dddByDid_frame_decodes did entries req {} h
  exact callWith_documented cfg st req _ arr _ hp (fun d => dddClient_safe _ _ strict d)

/-- the memory-addressed services: the request is built from a location whose address and size fit their widths (C14) -/
theorem readMem_call_documented (cfg : SendCfg) (st : ClientState) (ml : MemLoc) (w : Bytes) (tol : Bool) (req : Request) (arr : List Frame)
    (hw : ml.wire = .ok w) (h : readMemMakeRequest ml = .ok req) :
    (callWith cfg st req (readMemClient ml.size.toNat tol) arr).Documented := by
  have := Uds.Props.C14.readMem_frame ml w hw
  rw [h] at this
  exact callWith_documented cfg st req _ arr _ (by simpa [bind, Except.bind] using this) (fun d => readMemClient_safe _ tol d)

theorem xfer_call_documented (cfg : SendCfg) (st : ClientState) (up : Bool) (ml : MemLoc) (w : Bytes) (dfi : Nat) (hd : dfi < 256) (req : Request) (arr : List Frame)
    (hw : ml.wire = .ok w) (h : requestXferMakeRequest up ml dfi = .ok req) :
    (callWith cfg st req xferInterpret arr).Documented := by
  cases up with
  | false =>
    have := Uds.Props.C14.download_frame ml w dfi hd hw
    rw [h] at this
    exact callWith_documented cfg st req _ arr _ (by simpa [bind, Except.bind] using this) xfer_safe
  | true =>
    have := Uds.Props.C14.upload_frame ml w dfi hd hw
    rw [h] at this
    exact callWith_documented cfg st req _ arr _ (by simpa [bind, Except.bind] using this) xfer_safe

end Uds.Props.C04
