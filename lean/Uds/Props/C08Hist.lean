import Uds.Props.C08Call
import Uds.Props.C04Hist
namespace Uds.Props.C08
open Uds Uds.Model Uds.Props.C04

/-- every simple call hands a well-formed outcome to its decorator, whatever the arguments (an out-of-range security level is refused by the builder) -/
theorem callInner_wf_all (cfg : CallCfg) (st : ClientState) (e : Entry) (arr : List Frame) (hstd : EdOk cfg.std) : WfInner (callInner cfg st e arr).inner := by
  by_cases hlevel : ∀ l x, (e = .requestSeed l x ∨ e = .sendKey l x) → 1 ≤ l ∧ l ≤ 0x7E
  · exact callInner_wf' cfg st e arr hstd hlevel
  · have : ∃ l x, (e = .requestSeed l x ∨ e = .sendKey l x) ∧ ¬ (1 ≤ l ∧ l ≤ 0x7E) := by
      apply Classical.byContradiction
      intro hne
      apply hlevel
      intro l x hx
      apply Classical.byContradiction
      intro hl
      exact hne ⟨l, x, hx, hl⟩
    obtain ⟨l, x, hx, hl⟩ := this
    have hm : ∃ err, e.makeRequest cfg.std = .error err := by
      rcases hx with hx | hx <;> subst hx
      · obtain ⟨er, her⟩ := saMakeRequest_refused l .requestSeed x hl
        exact ⟨er, by simp only [Entry.makeRequest]; exact her⟩
      · obtain ⟨er, her⟩ := saMakeRequest_refused l .sendKey x hl
        exact ⟨er, by simp only [Entry.makeRequest]; exact her⟩
    obtain ⟨err, hm⟩ := hm
    unfold callInner; rw [hm]; cases err <;> simp [WfInner]

theorem unlockInner_wf_all (cfg : CallCfg) (st : ClientState) (algo : Bytes → Int → Bytes) (L : Int) (sp : Bytes) (a1 a2 : List Frame) (hstd : EdOk cfg.std) :
    WfInner (unlockInner cfg st true algo L sp a1 a2).inner := by
  by_cases hL : 1 ≤ L ∧ L ≤ 0x7E
  · exact unlockInner_wf cfg st true algo L sp a1 a2 hstd hL
  · rw [(unlock_refused cfg st algo L sp a1 a2 (by omega)).1]; simp [WfInner]

/-- what a caller reads off one step: the verdict -/
def verdictOf (o : HOut) : Option Verdict := o.outer.map Outer.verdict

/-- the same history with every switch setting replaced by another one -/
def reswitch (g : Switches → Switches) : HOp → HOp
  | .setSwitches sw => .setSwitches (g sw)
  | op => op

/-- everything of the client state but the switches -/
def SameButSwitches (a b : HState) : Prop := a.cs = b.cs ∧ a.cfg = b.cfg ∧ a.rxq = b.rxq ∧ a.opened = b.opened

theorem hstep_switch_independent (a b : HState) (g : Switches → Switches) (op : HOp) (hab : SameButSwitches a b) (hs : EdOk a.cfg.std) :
    SameButSwitches (hstep a op).1 (hstep b (reswitch g op)).1 ∧ verdictOf (hstep a op).2 = verdictOf (hstep b (reswitch g op)).2 ∧
    (hstep a op).2.log = (hstep b (reswitch g op)).2.log ∧ (hstep a op).2.algoCalls = (hstep b (reswitch g op)).2.algoCalls := by
  obtain ⟨h1, h2, h3, h4⟩ := hab
  cases op with
  | call e arr =>
    simp only [hstep, reswitch, ← h1, ← h2, ← h3, verdictOf, Option.map]
    refine ⟨⟨rfl, rfl, rfl, h4⟩, ?_, ?_⟩
    · rw [(delivery_only a.sw b.sw _ (callInner_wf_all a.cfg a.cs e arr hs)).1]
    · simp
  | unlock L sp a1 a2 =>
    simp only [hstep, reswitch, ← h1, ← h2, ← h3, verdictOf, Option.map]
    refine ⟨⟨rfl, rfl, rfl, h4⟩, ?_, ?_⟩
    · rw [(delivery_only a.sw b.sw _ (unlockInner_wf_all a.cfg a.cs demoAlgo L sp a1 a2 hs)).1]
    · simp
  | _ => simp [hstep, reswitch, SameButSwitches, verdictOf, h1, h2, h3, h4]

/-- **over whole histories the switches change delivery, never the outcome**: run any history twice — calls of any entry point with any frames,
    seed/key composites, blocks, edition changes, stray frames — once as it is and once with a different initial switch setting and every
    `exception_on_*` change replaced by an arbitrary other one.  The verdict of every step, every frame sent and every wait, the calls of the
    security algorithm and the client state at the end (block flags, adopted timing, configuration) are the same. -/
theorem history_switch_independent (a b : HState) (g : Switches → Switches) (ops : List HOp) (hab : SameButSwitches a b) (hs : EdOk a.cfg.std)
    (hops : ∀ v, HOp.setStd v ∈ ops → EdOk v) :
    SameButSwitches (hrun a ops).1 (hrun b (ops.map (reswitch g))).1 ∧
    (hrun a ops).2.map verdictOf = (hrun b (ops.map (reswitch g))).2.map verdictOf ∧
    (hrun a ops).2.map (·.log) = (hrun b (ops.map (reswitch g))).2.map (·.log) ∧
    (hrun a ops).2.map (·.algoCalls) = (hrun b (ops.map (reswitch g))).2.map (·.algoCalls) := by
  induction ops generalizing a b with
  | nil => simp [hrun, hab]
  | cons op rest ih =>
    obtain ⟨s1, s2, s3, s4⟩ := hstep_switch_independent a b g op hab hs
    have hs' : EdOk (hstep a op).1.cfg.std := (hstep_ok a op hs (fun v hv => hops v (by simp [hv]))).2
    obtain ⟨i1, i2, i3, i4⟩ := ih (hstep a op).1 (hstep b (reswitch g op)).1 s1 hs' (fun v hv => hops v (by simp [hv]))
    simp only [hrun, List.map_cons]
    exact ⟨i1, by rw [s2, i2], by rw [s3, i3], by rw [s4, i4]⟩

/-! non-vacuity: a history with a negative reply, an invalid one and a refusal, under two different switch schedules -/
example :
    (hrun { cfg := { send := ⟨some 100, 50, 500, false⟩ } }
      [.call (.ecuReset 1) [⟨3, [0x7F, 0x11, 0x22]⟩], .setSwitches ⟨true, false, true⟩, .call (.routineControl 1 1 none) [⟨1, [0x71, 0x01]⟩], .call (.ecuReset 0x80) []]).2.map verdictOf =
    (hrun { cfg := { send := ⟨some 100, 50, 500, false⟩ }, sw := ⟨false, false, false⟩ }
      [.call (.ecuReset 1) [⟨3, [0x7F, 0x11, 0x22]⟩], .setSwitches ⟨false, true, false⟩, .call (.routineControl 1 1 none) [⟨1, [0x71, 0x01]⟩], .call (.ecuReset 0x80) []]).2.map verdictOf ∧
    (hrun { cfg := { send := ⟨some 100, 50, 500, false⟩ } }
      [.call (.ecuReset 1) [⟨3, [0x7F, 0x11, 0x22]⟩], .setSwitches ⟨true, false, true⟩, .call (.routineControl 1 1 none) [⟨1, [0x71, 0x01]⟩], .call (.ecuReset 0x80) []]).2.map verdictOf =
      [some (.negative 0x22), none, some .invalid, some (.other .valueErr)] := by decide +kernel

end Uds.Props.C08
